"""C02 - Settings are decoded exactly and all views agree (structural part).

The rules about `BeaconConfig.settings_map` and the four cached views are phrased over *paths*: `_Exec` executes a
function (or a loop body) symbolically, one control-flow path at a time.  Every local is replaced by the expression
that defines it on that path (so temporaries, renamed locals, if/else vs early return, result variables of extracted
helpers and `x if c else y` are invisible), `getattr/setattr(self, "<const>")` are attribute reads/writes, helpers that
the normaliser could not inline (e.g. because of `**kwargs`) are entered with their arguments bound, and every branch
decision is recorded as a canonical *fact* (`x == C` / `x != C` / `not ...` / mirrored comparisons / `in (..)` all map
to the same key; members of the C-defined enums and plain integers are the same constant).  A rule then asks, for a
*scenario* of the property (e.g. "parse or pretty is on and the record is TYPE_SHORT"), what every path that is
consistent with the scenario stores - and compares that term with what the property demands.

The rules about `iter_settings` are phrased on the CFG (dominance / reachability) with the same canonical facts taken
from the branch edges that dominate a site, and locate their subjects by role (the stream is the receiver of the
2-byte peek, the setting is the result of the `Setting(...)` struct parse, ...).
The terminator clause ("ended by a zero index", whatever follows) is additionally decided by a scenario walk of the CFG
of one loop iteration (`_ZeroIndex`): with index 0 assumed for the record at the cursor and nothing else, no path may
reach a `yield` or start the next record - independent of whether the code peeks 2 bytes or parses first.

The clause "yields the settings ... ended by a zero index or end of data" has a dual scenario walk (`_CompleteRecord`):
with a complete record (non-zero index, any type / length / value, anything or nothing behind it) assumed at the cursor,
every exception-free path of the iteration must reach the `yield` before it leaves the loop or starts the next iteration;
end-of-data tests written as arithmetic on the stream position are folded by interval comparison against the size of
the fixed part of struct Setting taken from the C definitions.

Verdicts: the located term/site satisfies the condition -> discharged; it is located and differs -> violated; the code
was reshaped into something the path executor / locator does not model -> undecided.

Technique
---------
(numbers refer to the ALLOWED list of RULES_GUIDE.md, "What counts as *static* here"; nothing of the NOT ALLOWED list
a-e is used: no /repo function, loop or expression is ever run on data chosen by the checker, no numeric input is
enumerated, no loop is unrolled, no sample string is matched against a /repo regex, nothing of /repo is imported.)

`_Exec` is path-wise value flow (3): it walks the statement structure of a function once per control-flow path and
keeps, per path, *terms* (ast expressions) for locals / tracked attributes - a term is the defining expression with
earlier definitions substituted, never a value.  Branch tests are not evaluated on data: `_split` decomposes
and/or/not/`in (..)` into atoms and records the outcome of every atom as a symbolic fact; an edge is pruned (2) only
when its atoms contradict facts already on the path or a literally constant test (6).  A `for`/`while` is not iterated:
its body is analysed once with every loop-assigned name forgotten (3).  Extracted helpers are entered with their
parameters bound to the argument *terms* (3).  MAXPATHS / nesting depth bound the analysis itself (-> undecided), they
are not fuel for a concrete run.  The scenarios a rule asks about (`parse or pretty`, `<setting>.type == TYPE_SHORT`,
`index_type == 'name'`, ...) are named assumptions over a finite vocabulary (5): the boolean view flags, the members
of the C-defined enum SettingsType, the index_type literals of the reference table VIEWS plus "any other value".
Lemmas used when facts are combined (`_lookup`, `_cv`):
  L1  `x == C1` holds  =>  `x == C2` fails for a constant C2 != C1      (a value equals at most one constant);
  L2  `x is None` holds  =>  `x` is falsy;  `x` is truthy  =>  `x is not None`      (None is falsy);
  L3  a member of an enum of the C definitions compares equal to its integer value (dissect.cstruct enum semantics),
      so `s.type == SettingsType.TYPE_SHORT` and `s.type == 1` are the same atom.
  L6  (module-level constant aliases, `_aliases`/`_unalias`) a name that beacon.py binds exactly once - by a plain
      module-level `NAME = <dotted name | literal>` - and that no scope of the module binds again (no other store,
      parameter, import, `global`, `del`, def/class of that name) denotes, wherever a function of the module loads
      it, the value of its right-hand side: `_UA = BeaconSetting.SETTING_USERAGENT ... s.index == _UA` is the atom
      `s.index == 9` (alias chains followed).  Constant propagation of single-definition names (3 + 6); a name that
      fails the test is not a constant for `_cv`.
  L4  (cardinality classes, `_card`) a settings mapping filled with one insertion per record has one entry per
      *distinct* key: never more entries than records and strictly fewer as soon as two records share a key, which the
      quantifier of the property admits (duplicates allowed).  zip / map-over-several-iterables pair position by
      position and stop at the shortest argument, so pairing a sequence with exactly one element per record
      (self.settings_tuple, a comprehension without filter over it, a property returning such) with the entries of
      such a mapping (a view, settings_map(..), their keys()/values()/items()) pairs, from the first duplicate that
      is followed by another record on, a record with the entry of a later record and drops the last ones.
  L5  (length domain N u {inf}, `_len_bound`/`_trips`) len(s.read(c)) <= c for a constant c >= 0, read() / read(-1) /
      read(None) have no bound; len(x[a:b]) <= len(x); strip/rstrip/lstrip/removeprefix/removesuffix and one piece of
      split/partition are not longer than x; len(a + b) = len(a) + len(b); an accumulator `x += e` grows by len(e)
      per execution; a statement nested in loops runs at most the product of their trip bounds per outer iteration
      (`while` and `for .. in iter(f, sentinel)`: inf, `for .. in range(<const>)`: the constant, other `for`: unknown).
  Z1-Z5 (scenario "the record at the cursor has index 0", `_ZeroIndex`; the only literal involved is the 0 of the
      property text "ended by a zero index" - it is compared with literals of the code, never fed to /repo code):
      Z1  the big-endian 16-bit encoding of 0 is 00 00: a look at the first 2 bytes of that record equals b"\\x00\\x00",
          has length 2 and is truthy; a look at its first k > 2 bytes starts with 00 00, the other k - 2 bytes are
          unconstrained (a comparison with a literal that does not start with 00 00 fails, one with a k-byte literal
          that does is a free atom);
      Z2  the first field of the structure parsed at offset 0 of that record is 0: it compares / orders against integer
          literals and enum members (L3) like 0, is falsy, and by L1 differs from every other constant;
      Z3  the remaining fields of that record, the bytes behind it and further reads of the stream are unconstrained
          (quantifier of the property): atoms built from them only are free;
      Z4  the result of a struct parse is an instance, never None;
      Z5  an integer converted (S1 / int.from_bytes; any byte order, signed or not) from the two index bytes, or from
          a prefix of them, is 0; one converted from more bytes of the look-ahead is 0 iff all of those bytes are 0.
  L7  (def-use in the per-setting loop, `_plain_loop_locals` / `_read_before_assignment`) the loop body is analysed once
      with every loop-assigned local forgotten at its entry, and the path executor replaces a local by its defining term
      from its first assignment on the path onwards.  A local that the loop body binds by plain assignment statements
      only (reached through if/else nesting alone) and that is still a bare name in the key / value term a path stores
      is therefore read on that path before any assignment of the same iteration: its reaching definitions are those
      of an earlier iteration (or none - UnboundLocalError - for the first record), so what is stored is not a function
      of the record of this iteration.  Paths whose facts exclude every member of SettingsType for the record type lie
      outside the quantifier ("any type 0-3") and are not judged (finite vocabulary, 5).
  C1-C7 (scenario "a complete record with a non-zero index lies at the cursor", `_CompleteRecord`; H = the sum of the
      widths of the fields of struct Setting that are not counted arrays, read from the C definitions - 6):
      C1  at least H bytes of data lie at the cursor: a look at the first k <= H bytes has length k and is truthy;
      C2  the index bytes are not 00 00 (a look-ahead differs from every literal that starts with 00 00 or has another
          length); the first field of the structure parsed at offset 0 lies in [1, 2^16 - 1]: comparisons with literals
          are decided by interval comparison, the undecided ones are free atoms (any 16-bit index is admitted);
      C3  an integer converted (S1 / int.from_bytes) from exactly the two index bytes, in any byte order, is not 0;
      C4  the parsed structure is not None (Z4) and truthy (S2: a non-zero field makes it truthy / it is always truthy);
      C5  type lies in [min, max] of the members of SettingsType, length in [0, 2^16 - 1] (field widths of the C
          definitions): comparisons with literals outside the interval are decided, the others stay free atoms; an atom
          that relates several quantities of the record (value vs. length, two stream reads ...) is not free - a path
          that needs it makes the obligation undecided;
      C6  R := (offset of the end of the data) - (offset of the record start) >= H, with R = H exactly for a record of
          length 0 that ends the data - a complete record the quantifier admits ("ended by ... end of data", "any
          length 0-65535").  A branch test that is linear in R - polynomial normal form (csverif.absint.SymPoly) over
          `end` = stream.seek(0, SEEK_END) / len(stream.getvalue()) / len(stream.getbuffer()) / getbuffer().nbytes or
          a single-definition local holding it, and stream.tell() = record start + cursor offset (flat domain of Z1-Z5;
          locals bound to tell() or to an expression of tell() at a known offset) - is decided by comparing the
          interval [H, inf) with the constant; where the interval does not decide it both outcomes occur for
          admitted inputs.  seek(-len(<look-ahead of k <= H bytes>), SEEK_CUR) moves the cursor by -k (C1);
      C7  premise: decoding a complete record raises nothing - edges into exception handlers and implicit exception
          edges out of the function are not followed; an explicit `raise` reached under the scenario is undecided.
  L8  (evaluated terms, `_St.evals` / `_pretty_evals`) the path executor records, per path, the term of every expression
      the path *evaluates* (assigned values, branch / assert tests, arguments of entered helpers, effect calls, loop
      iterables), not only of what it stores.  Inside such a term an application of a pretty-function table entry is
      evaluated only under the conditional contexts it sits in (`a if c else b`, short-circuit and/or, comprehension
      filters - their tests are added to the facts of the path as guards; lambda bodies are not evaluated).  The pretty
      functions are partial (they assume the shape of a well-formed value: ipaddress / hex / partition / list parsers),
      the raw and parsed views are total over the quantifier (any type 0-3, any length, any value bytes): an application
      evaluated under facts that do not establish `pretty` makes every view with pretty off depend on that function
      returning normally.  Facts only grow along a path, so judging with the final facts of the path is judging with
      a superset of the facts at the point of evaluation (a later split on `pretty` yields the pretty-off path).
  U1-U5 (scenario "a completely filled 128-byte User-Agent field", `_FilledField`; the literals 9 / 0x80 / NUL are those of
      the property text, they are compared with terms of the code and never fed to /repo code):
      U1  the record has index SETTING_USERAGENT and length N = 0x80; V = <setting>.value has exactly N bytes (the counted
          array of the C definition), V[N-1] != 0 ("completely filled": no room was left for the NUL terminator), the
          other N-1 bytes are arbitrary (quantifier: any value bytes).  The property demands that such a field
          "continues to its NUL";
      U2  x.rstrip(<only NUL bytes>) is x when the last byte of x is not NUL (only trailing bytes of the set are removed);
          slices x[a:] / x[-k:] keep the last byte, x[:b] with b >= len(x) and x[:] are x;
      U3  V.strip / V.lstrip(<only NUL bytes>) has length N - k for k leading NULs; every k in 0 .. N-1 occurs for some
          admitted V, so its length takes every value of [1, N];
      U4  a byte of V before the last one takes every value of [0, 255], the last one every value of [1, 255]; V may or may
          not hold a NUL before its last byte: `<NULs> in V` has both outcomes, V.find(NUL) takes every value of
          [-1, N-2], V.count(NUL) every value of [0, N-1];
      U5  a comparison of such an interval (every value of which occurs) with a constant is True / False when all / none
          of its values satisfy it and has *both* outcomes for admitted fields otherwise (interval comparison, no
          enumeration); and/or/not combine decided operands, at most one undecided-both operand is carried through.
Summaries relied on:
  S1  (integer conversion, `_int_conv`) utils.unpack(data, size, byteorder, signed) is int.from_bytes(data[:size],
      byteorder, signed=signed); partials of it contribute their bound keywords (read from the resolver), defaults
      are read from the signature.
  S3  (dissect.cstruct type names, `_CSTRUCT_PRIMS` / `_CSTRUCT_TYPEDEFS`) the internal integer / char types have the
      fixed width and signedness their name says (uint16: 2 bytes unsigned ...); every built-in typedef name (GNU
      `uint16_t`, Windows `WORD`/`USHORT`, C `unsigned short`, IDA `_WORD`, `u2`, `ushort` ...) resolves to the very
      same type object as the internal type it is declared for, so spelling a field or an enum base type with such a
      name changes nothing; enumerators without an explicit value are numbered consecutively from the previous one
      (from 0 for the first), as in C.
  S2  (dissect.cstruct) the truth value of a structure instance is not a function of its first field: `__bool__` is
      "any field is truthy" (releases without `__bool__`: always truthy).  With index 0 it is therefore a free atom.

R1  6 (C definitions parsed and compared completely with the required layout table: field names / order / array bound,
    width and - for index and length - unsignedness of the field types, endianness of the owning cstruct, members of
    SettingsType with C numbering of enumerators that carry no explicit value), 1.  Field types are resolved by *name*
    (`_scalar_type`, S3): enum -> its base type, scalar `typedef A B;` of the definition text -> A, built-in typedef name
    of dissect.cstruct (uint16_t, WORD, unsigned short ...) -> the internal type it names, internal type -> its fixed
    width; a type name outside these is not guessed: the layout obligation is then undecided as long as everything that
    is known matches (and violated when a name, the order, an array bound or a known width differs).  The same
    resolver supplies the header size H and the field intervals of C1-C6.
R2  3 (per-path key/value terms of the per-setting loop body, analysed once), 2 + 5 (paths selected per scenario of
    view flags / record type / index_type; a path whose selection involves other atoms about these subjects is
    undecided), 1 (structural recognition of the conversion call and of the pretty-table application), 6 (constant
    size/byteorder/signed; parameter defaults); L1-L3, S1.  "The stored key / value is computed from the record of
    the same iteration": 3 (def-use on the path terms, L7), 5 (members of SettingsType) - a key or value term that
    reads a plainly assigned loop local before its assignment in the iteration is a violation of the scenario the
    path belongs to.  "No pretty function evaluated unless pretty is on": 3 (the terms every path of settings_map and of
    its per-setting loops evaluates, L8), 2 + 5 (the boolean flag `pretty`; guards of conditional sub-expressions are
    split into facts; a path selected by another atom about `pretty` is undecided), 1 (`_pretty_app`: a call whose
    callee is an entry of a module-level dict table).
R3  3 (per-path return value / stores of each cached view, helpers entered with bound arguments), 2 (the emptiness
    fact `slot is None` on the filling path, `slot` filled on the returning path; L2), 1 (bind_args of the
    settings_map call), 6 (its constant arguments compared with the reference table VIEWS).  Positional pairing:
    4 (every zip / multi-iterable map in the terms a view returns or stores gets the cardinality class of each
    argument - "one per record" vs "one per distinct key of a settings mapping"; a pairing that mixes the two is
    violated by L4, everything else is left to the verdicts above), 3 (terms with locals substituted; properties of
    the class such as setting_enums are entered and classified by their returned term), 5 (the view names of VIEWS).
R4  3 (identity of the returned mapping term, stores/effects per path of the loop body analysed once), 1 (order-keeping
    vs order-changing wrappers of the iterated expression and of settings_tuple; resolved callee of iter_settings),
    2 (paths that leave the loop early / fall off the end).
R5  2 (CFG reachability / dominance: yield between parse and loop header, terminator edge leaves the loop, handler
    exit, give-back between peek and parse), 3 (`origin`/`inline` of the compared peek and of the seek offset), 1
    (peek / seek / struct-parse located by role), 6 (the constants 2, -2, b"\\x00\\x00", SEEK_CUR).
    "A zero index alone ends the settings" (`_ZeroIndex`): 2 + 5 (one named scenario - the record at the cursor when
    an iteration starts has index 0, everything else arbitrary; the CFG of the loop body is walked once per path, an
    edge is pruned only when the scenario or earlier facts of the path decide its test: Z1-Z5, L1-L3; a path that
    reaches a yield or enters the body again through free atoms only (Z3, S2) is a violation, one that needs an atom
    outside Z1-Z5 / Z3 makes the obligation undecided), 4 (cursor offset relative to the record start in the flat
    domain Z u {unknown}: read(c) +c, peek/tell +0, seek(c, SEEK_CUR) +c, seek(<tell() taken at offset o>) = o, else
    unknown - decides whether a look-ahead / the struct parse is at offset 0 of the scenario record; flags assigned a
    literal are constant facts of the path), 3 (`inline` of the tests), 6 (C definitions: first field of Setting).
    "A complete record is always yielded" (`_CompleteRecord`): 2 + 5 (one named scenario - a complete record with a
    non-zero index lies at the cursor when an iteration starts; the CFG of the loop body is walked once per path,
    exception edges are not followed, an edge is pruned only when the scenario or earlier facts decide its test:
    C1-C7, L1-L3; a path that leaves the loop or reaches the loop header before a yield through free atoms only is a
    violation, one that needs an atom outside C1-C6 makes the obligation undecided), 4 (interval domain for the
    index / type / length fields and for the number of bytes between the record start and the end of the data;
    cursor offset in Z u {unknown}; linear comparisons in polynomial normal form), 3 (`inline` of the tests), 6 (C
    definitions: field widths of Setting, members of SettingsType; the constants the code compares with).  The give-back
    obligation also accepts seek(-len(p), SEEK_CUR) where p is the local bound to the consuming look-ahead (3).
R6  2 (facts of the branch edges that dominate the rename / extension site - all of them, so the order of mutually
    exclusive if/elif branches is immaterial), 3 (`inline` of the tests and of the assigned value), 5 + 6 (enum members
    of the C definitions, 36, 9, 0x80); L1, L3, L6.  A guard that establishes index/type/length equal to a term that is
    not a constant of the code (`_guarded_eq` -> None) is undecided, not violated.  "Continues to its NUL" at any
    distance: 4 (upper bound, in the length domain of L5, of the bytes all extension sites can append to the value per
    record; a finite bound is a violation - the NUL may lie farther away -, inf discharges, a term outside the
    transfer rules is undecided), 3 (`inline` of the appended term, accumulator definitions), 6 (the read sizes and
    range bounds are constants of the code; nothing is iterated or evaluated on data).  "Entered for every completely
    filled field": 2 (the branch edges that dominate the continuation - its outermost loop, or the extension statement -
    and are evaluated after the struct parse of the same iteration), 3 (`inline` of the tests), 4 (shape / length /
    interval domain of U1-U5 for the value bytes: a test that is decided against the scenario or has both outcomes for
    admitted fields is a violation, a test outside the transfer rules - e.g. about the record type or the stream - is
    undecided), 5 + 6 (enum member SETTING_USERAGENT, 0x80, the literals the code compares with).
R7  1 (every string subscript / `.get("...")` key and enum attribute in the package that looks like SETTING_*; the
    `re` pattern is applied to identifiers and string literals taken from the syntax tree to select them, not to
    judge a /repo regex), 6 (membership in the enum tables of the C definitions).
"""

from __future__ import annotations

import ast
import copy
import re

from csverif.astutil import (
    assignments_to, bind_args, body_walk, const_eval, dotted, fn_calls, is_const, is_none, NotConst, param_defaults, params,
    src, statements,
)
from csverif.q import FuncView, dominating_conditions, inline, origin

VIEWS = {
    "raw_settings": ("name", False),
    "raw_settings_by_index": ("const", False),
    "settings": ("name", True),
    "settings_by_index": ("const", True),
}

_NOVAL = object()
_ORDER_KEEPING = ("tuple", "list", "iter")
_ORDER_CHANGING = ("sorted", "reversed", "set", "frozenset")
_REORDER_METHODS = ("sort", "reverse", "move_to_end", "popitem", "pop", "clear", "update", "setdefault", "__delitem__")


def _c(node):
    try:
        return const_eval(node) if node is not None else None
    except (NotConst, TypeError):
        return None


def _expr(text):
    return ast.parse(text, mode="eval").body


# ============================================================================================ canonical facts
def _enums(ctx):
    """name -> {member: value} of every enum in the C definitions of beacon.py"""
    hit = getattr(ctx, "_c02_enums", None)
    if hit is None:
        hit = {}
        for cd in ctx.cdefs("beacon").values():
            for name, en in cd.enums.items():
                hit.setdefault(name, en.by_name())
        try:
            ctx._c02_enums = hit
        except Exception:
            pass
    return hit


def _aliases(ctx):
    """name -> defining expression of the module-level *constant aliases* of beacon.py (the module whose C definitions
    `_enums` reads and in which every function this module analyses lives): a name bound exactly once in the whole
    module - by a plain `NAME = <dotted name or literal>` at module level - and never bound again anywhere (no other
    store / parameter / loop or with target / import / `global` / `del` / walrus / except-as of that name in any scope
    of the module), so that a load of the bare name in any function of the module denotes the value the right-hand
    side had at import (constant propagation of a single-definition module constant; the right-hand side is a dotted
    chain rooted at another module-level name - e.g. `BeaconSetting.SETTING_USERAGENT` - or a literal, neither of
    which a later statement of the analysed functions rebinds)."""
    hit = getattr(ctx, "_c02_aliases", None)
    if hit is not None:
        return hit
    hit = {}
    try:
        mod = ctx.repo.module("beacon")
    except Exception:
        mod = None
    if mod is not None:
        binds, bad = {}, set()
        for st in mod.tree.body:
            if isinstance(st, ast.Assign) and len(st.targets) == 1 and isinstance(st.targets[0], ast.Name):
                binds.setdefault(st.targets[0].id, []).append(st.value)
            elif isinstance(st, ast.AnnAssign) and isinstance(st.target, ast.Name) and st.value is not None:
                binds.setdefault(st.target.id, []).append(st.value)
        stores = {}
        for n in ast.walk(mod.tree):
            if isinstance(n, ast.Name) and not isinstance(n.ctx, ast.Load):
                stores[n.id] = stores.get(n.id, 0) + 1
            elif isinstance(n, ast.arg):
                bad.add(n.arg)
            elif isinstance(n, (ast.Global, ast.Nonlocal)):
                bad.update(n.names)
            elif isinstance(n, (ast.Import, ast.ImportFrom)):
                bad.update((a.asname or a.name).split(".")[0] for a in n.names)
            elif isinstance(n, (ast.FunctionDef, ast.AsyncFunctionDef, ast.ClassDef)):
                bad.add(n.name)
            elif isinstance(n, ast.ExceptHandler) and n.name:
                bad.add(n.name)
            elif isinstance(n, (ast.MatchAs, ast.MatchStar)) and n.name:
                bad.add(n.name)
            elif isinstance(n, ast.MatchMapping) and n.rest:
                bad.add(n.rest)
        for name, vals in binds.items():
            if len(vals) != 1 or name in bad or stores.get(name) != 1:
                continue
            v = vals[0]
            if isinstance(v, ast.Constant) or (isinstance(v, (ast.Attribute, ast.Name)) and dotted(v) is not None):
                hit[name] = v
    try:
        ctx._c02_aliases = hit
    except Exception:
        pass
    return hit


def _unalias(ctx, e, depth=0):
    """`e`, or - for a bare name that is a module-level constant alias (`_aliases`) - the expression it stands for
    (alias chains followed)."""
    while isinstance(e, ast.Name) and depth < 6:
        v = _aliases(ctx).get(e.id)
        if v is None:
            break
        e, depth = v, depth + 1
    return e


def _cv(ctx, e):
    """Canonical constant of an expression: (typename, value) for literals and for members of the C-defined enums
    (a member equals its integer value; a module-level constant alias of a member or literal is that constant), else
    None."""
    e = _unalias(ctx, e)
    try:
        v = const_eval(e)
    except Exception:
        v = _NOVAL
    if v is not _NOVAL:
        if isinstance(v, bool):
            return ("bool", v)
        if isinstance(v, (int, bytes, str)):
            return (type(v).__name__, v)
        return None
    d = dotted(e)
    if d and "." in d:
        en, mem = d.split(".")[-2:]
        members = _enums(ctx).get(en)
        if members is not None and mem in members:
            return ("int", members[mem])
    return None


def _atom(ctx, t):
    """(key, positive): the canonical key of an atomic test and whether the test asserts it or its negation."""
    if isinstance(t, ast.Compare) and len(t.ops) == 1:
        l, op, r = t.left, t.ops[0], t.comparators[0]
        if isinstance(op, (ast.Is, ast.IsNot, ast.Eq, ast.NotEq)) and (is_none(r) or is_none(l)):
            x = l if is_none(r) else r
            return ("none", src(x)), isinstance(op, (ast.Is, ast.Eq))
        if isinstance(op, (ast.Eq, ast.NotEq)):
            cl, cr = _cv(ctx, l), _cv(ctx, r)
            if cr is not None and cl is None:
                return ("eq", src(l), cr), isinstance(op, ast.Eq)
            if cl is not None and cr is None:
                return ("eq", src(r), cl), isinstance(op, ast.Eq)
            a, b = sorted((src(l), src(r)))
            return ("t", f"{a} == {b}"), isinstance(op, ast.Eq)
        if isinstance(op, ast.Lt):
            return ("lt", src(l), src(r)), True
        if isinstance(op, ast.GtE):
            return ("lt", src(l), src(r)), False
        if isinstance(op, ast.Gt):
            return ("lt", src(r), src(l)), True
        if isinstance(op, ast.LtE):
            return ("lt", src(r), src(l)), False
    return ("t", src(t)), True


def _lookup(facts, key):
    if key in facts:
        return facts[key]
    if key[0] == "eq":
        for k, v in facts.items():
            if v and k[0] == "eq" and k[1] == key[1] and k[2] != key[2]:
                return False
    if key[0] == "none" and facts.get(("t", key[1])) is True:
        return False
    if key[0] == "t" and facts.get(("none", key[1])) is True:
        return False
    return None


def _split(ctx, t, facts, want):
    """The fact sets (extensions of `facts`) under which test `t` evaluates to `want`; [] if impossible.
    and/or short-circuit, `not`, `in (a, b)` and constants are decomposed; everything else is an atom."""
    if isinstance(t, ast.UnaryOp) and isinstance(t.op, ast.Not):
        return _split(ctx, t.operand, facts, not want)
    if isinstance(t, ast.BoolOp):
        if isinstance(t.op, ast.And) == want:
            outs = [facts]
            for v in t.values:
                outs = [g for fc in outs for g in _split(ctx, v, fc, want)]
            return outs
        outs, prefix = [], [facts]
        for v in t.values:
            for fc in prefix:
                outs.extend(_split(ctx, v, fc, want))
            prefix = [g for fc in prefix for g in _split(ctx, v, fc, not want)]
        return outs
    if isinstance(t, ast.Compare) and len(t.ops) == 1 and isinstance(t.ops[0], (ast.In, ast.NotIn)) \
            and isinstance(t.comparators[0], (ast.Tuple, ast.List, ast.Set)):
        elts = t.comparators[0].elts
        isin = isinstance(t.ops[0], ast.In)
        if not elts:
            return [facts] if want != isin else []
        ors = ast.BoolOp(op=ast.Or(), values=[ast.Compare(left=t.left, ops=[ast.Eq()], comparators=[e]) for e in elts])
        return _split(ctx, ors, facts, want == isin)
    if isinstance(t, ast.Constant):
        return [facts] if bool(t.value) == want else []
    key, pos = _atom(ctx, t)
    val = want == pos
    cur = _lookup(facts, key)
    if cur is None:
        g = dict(facts)
        g[key] = val
        return [g]
    return [facts] if cur == val else []


def _consistent(ctx, facts, tests):
    """Can the tests [(expr, want)] all hold together with `facts`?  (atoms the facts do not mention are free)"""
    cur = [facts]
    for t, w in tests:
        cur = [g for fc in cur for g in _split(ctx, t, fc, w)]
        if not cur:
            return False
    return True


def _facts_at(ctx, f, node, stop=frozenset()):
    """Canonical facts established by the branch edges that dominate node's statement."""
    facts = {}
    for _t, pol, e in dominating_conditions(ctx, f, node):
        r = _split(ctx, inline(f.node, e, stop=stop), facts, pol)
        if len(r) == 1:
            facts = r[0]
    return facts


# ============================================================================================ path executor
class _Unmodelled(Exception):
    pass


class _St:
    """One path: locals (name -> term), attribute heap (dotted -> term), facts, stores, effect calls, outcome."""

    def __init__(self):
        self.env, self.heap, self.facts = {}, {}, {}
        self.stores = []  # ("attr", dotted, term) | ("item", base term, key term, value term)
        self.effects = []  # call terms evaluated for effect
        self.evals = []  # terms of every expression the path evaluates (assigned values, tests, arguments, iterables)
        self.ret = None
        self.done = None  # None | "return" | "raise" | "break" | "continue"

    def fork(self, facts=None):
        o = _St()
        o.env, o.heap = dict(self.env), dict(self.heap)
        o.facts = dict(self.facts if facts is None else facts)
        o.stores, o.effects = list(self.stores), list(self.effects)
        o.evals = list(self.evals)
        o.ret, o.done = self.ret, self.done
        return o


class _Sub(ast.NodeTransformer):
    def __init__(self, st):
        self.st = st

    def visit_Name(self, n):
        if isinstance(n.ctx, ast.Load) and n.id in self.st.env:
            return copy.deepcopy(self.st.env[n.id])
        return n

    def visit_Attribute(self, n):
        d = dotted(n)
        if d is not None and isinstance(n.ctx, ast.Load) and d in self.st.heap:
            return copy.deepcopy(self.st.heap[d])
        return self.generic_visit(n)

    def visit_Lambda(self, n):
        return n

    def visit_NamedExpr(self, n):
        v = self.visit(n.value)
        self.st.env[n.target.id] = v
        return copy.deepcopy(v)

    def visit_Call(self, n):
        n = self.generic_visit(n)
        if dotted(n.func) == "getattr" and len(n.args) == 2 and not n.keywords and isinstance(n.args[1], ast.Constant) \
                and isinstance(n.args[1].value, str) and n.args[1].value.isidentifier():
            a = ast.Attribute(value=n.args[0], attr=n.args[1].value, ctx=ast.Load())
            d = dotted(a)
            if d is not None and d in self.st.heap:
                return copy.deepcopy(self.st.heap[d])
            return a
        kws = []
        for k in n.keywords:
            if k.arg is None and isinstance(k.value, ast.Dict) and all(isinstance(x, ast.Constant) and isinstance(x.value, str) for x in k.value.keys):
                kws.extend(ast.keyword(arg=x.value, value=v) for x, v in zip(k.value.keys, k.value.values))
            else:
                kws.append(k)
        n.keywords = kws
        args = []
        for a in n.args:
            if isinstance(a, ast.Starred) and isinstance(a.value, (ast.Tuple, ast.List)):
                args.extend(a.value.elts)
            else:
                args.append(a)
        n.args = args
        return n


def _assigned_in(stmts):
    names, attrs = set(), set()
    for s in stmts:
        for n in ast.walk(s):
            if isinstance(n, ast.Name) and isinstance(n.ctx, ast.Store):
                names.add(n.id)
            elif isinstance(n, ast.Attribute) and isinstance(n.ctx, ast.Store) and dotted(n):
                attrs.add(dotted(n))
    return names, attrs


class _Exec:
    MAXPATHS = 600

    def __init__(self, ctx, f, capture_loops=False):
        self.ctx, self.f = ctx, f
        self.capture_loops = capture_loops
        self.loops = []  # (loop stmt, state at loop entry with the loop-assigned names forgotten)
        self.ntok = 0
        self.depth = 0
        base = _baseline().get(f.module.name, {})
        self.baseline_funcs = set(base.get("functions", []))

    # ---------------------------------------------------------------- terms
    def term(self, e, st):
        """e with every local / tracked attribute replaced by its value on this path.  `(x := v)` binds x when it is
        evaluated unconditionally (not under and/or/if-expression/comprehension/lambda); otherwise not modelled."""
        if any(isinstance(n, ast.NamedExpr) for n in ast.walk(e)):
            def cond(n, under):
                if isinstance(n, ast.NamedExpr) and under:
                    raise _Unmodelled("conditionally evaluated assignment expression")
                for name, ch in ast.iter_fields(n):
                    for c in (ch if isinstance(ch, list) else [ch]):
                        if isinstance(c, ast.AST):
                            u = under or isinstance(n, (ast.IfExp, ast.Lambda, ast.ListComp, ast.SetComp, ast.DictComp, ast.GeneratorExp)) \
                                or (isinstance(n, ast.BoolOp) and c is not n.values[0])
                            cond(c, u)
            cond(e, False)
        return _Sub(st).visit(copy.deepcopy(e))

    def tag(self, t):
        if not hasattr(t, "_tok"):
            self.ntok += 1
            t._tok = self.ntok
        return t

    def helper_of(self, call, st):
        """Func of a package helper that is *not* part of the pinned tree (an extracted helper the normaliser left in
        place) when `call` calls it as `self.h(..)` or `h(..)`."""
        d = dotted(call.func)
        if d is None:
            return None
        mod = self.f.module
        if d.startswith("self.") and d.count(".") == 1 and self.f.cls:
            q = f"{self.f.cls}.{d.split('.')[1]}"
        elif "." not in d and d not in st.env and d not in params(self.f.node):
            q = d
        else:
            return None
        h = mod.funcs.get(q)
        if h is None or q in self.baseline_funcs or not isinstance(h.node, (ast.FunctionDef,)):
            return None
        if h.node.decorator_list or any(isinstance(n, (ast.Yield, ast.YieldFrom)) for n in body_walk(h.node)):
            return None
        return h

    def values(self, e, st):
        """[(state, term)] of evaluating expression e as the value of an assignment/return (forks on `a if c else b`,
        enters extracted helpers)."""
        if isinstance(e, ast.IfExp):
            t = self.term(e.test, st)
            st.evals.append(t)
            out = []
            for want, sub in ((True, e.body), (False, e.orelse)):
                for g in _split(self.ctx, t, st.facts, want):
                    out.extend(self.values(sub, st.fork(g)))
            return out
        if isinstance(e, ast.Call):
            h = self.helper_of(e, st)
            if h is not None:
                return self.call(h, e, st)
        t = self.tag(self.term(e, st))
        st.evals.append(t)
        return [(st, t)]

    def call(self, h, call, st):
        if self.depth >= 3:
            raise _Unmodelled("helper nesting too deep")
        ct = self.term(call, st)
        if any(isinstance(a, ast.Starred) for a in ct.args) or any(k.arg is None for k in ct.keywords):
            raise _Unmodelled(f"call of {h.qualname} with arguments that cannot be bound")
        st.evals.extend(list(ct.args) + [k.value for k in ct.keywords])
        a = h.node.args
        pos = [x.arg for x in a.posonlyargs + a.args]
        if h.cls:
            if not (dotted(call.func) or "").startswith("self.") or not pos:
                raise _Unmodelled(f"method {h.qualname} not called on self")
            pos = pos[1:]
        kwonly = [x.arg for x in a.kwonlyargs]
        env = {}
        extra = list(ct.args[len(pos):])
        for p, v in zip(pos, ct.args):
            env[p] = v
        if extra:
            if a.vararg is None:
                raise _Unmodelled("too many positional arguments")
        if a.vararg is not None:
            env[a.vararg.arg] = ast.Tuple(elts=extra, ctx=ast.Load())
        rest_k, rest_v = [], []
        for k in ct.keywords:
            if k.arg in pos or k.arg in kwonly:
                env[k.arg] = k.value
            elif a.kwarg is not None:
                rest_k.append(ast.Constant(value=k.arg))
                rest_v.append(k.value)
            else:
                raise _Unmodelled(f"unexpected keyword {k.arg}")
        if a.kwarg is not None:
            env[a.kwarg.arg] = ast.Dict(keys=rest_k, values=rest_v)
        dfl = param_defaults(h.node)
        for p in pos + kwonly:
            if p not in env:
                if p not in dfl:
                    raise _Unmodelled(f"parameter {p} of {h.qualname} unbound")
                env[p] = copy.deepcopy(dfl[p])
        saved = st.env
        cs = st.fork()
        cs.env = env
        self.depth += 1
        try:
            outs = self.run(h.node.body, cs)
        finally:
            self.depth -= 1
        res = []
        for o in outs:
            if o.done in ("break", "continue"):
                raise _Unmodelled("loop control leaves a helper")
            o.env = dict(saved)
            if o.done == "raise":
                res.append((o, None))
                continue
            ret = o.ret if o.done == "return" and o.ret is not None else ast.Constant(value=None)
            o.ret, o.done = None, None
            res.append((o, ret))
        return res

    # ---------------------------------------------------------------- statements
    def run(self, stmts, st):
        states = [st]
        for s in stmts:
            nxt = []
            for x in states:
                if x.done:
                    nxt.append(x)
                else:
                    nxt.extend(self.step(s, x))
            states = nxt
            if len(states) > self.MAXPATHS:
                raise _Unmodelled("too many paths")
        return states

    def bind(self, tgt, t, st):
        if isinstance(tgt, ast.Name):
            st.env[tgt.id] = t
        elif isinstance(tgt, ast.Attribute) and dotted(tgt) is not None:
            base = self.term(tgt.value, st)
            d = dotted(ast.Attribute(value=base, attr=tgt.attr, ctx=ast.Load()))
            if d is None:
                raise _Unmodelled("store into an attribute of a computed object")
            st.heap[d] = t
            st.stores.append(("attr", d, t))
        elif isinstance(tgt, ast.Subscript):
            st.stores.append(("item", self.term(tgt.value, st), self.term(tgt.slice, st), t))
        elif isinstance(tgt, (ast.Tuple, ast.List)) and isinstance(t, (ast.Tuple, ast.List)) and len(t.elts) == len(tgt.elts) \
                and not any(isinstance(x, ast.Starred) for x in list(tgt.elts) + list(t.elts)):
            for a, b in zip(tgt.elts, t.elts):
                self.bind(a, b, st)
        else:
            raise _Unmodelled("unpacking assignment")

    def branch(self, test, st, body, orelse):
        t = self.term(test, st)
        st.evals.append(t)
        out = []
        for want, blk in ((True, body), (False, orelse)):
            for g in _split(self.ctx, t, st.facts, want):
                out.extend(self.run(blk, st.fork(g)))
        return out

    def step(self, s, st):
        if isinstance(s, (ast.Pass, ast.Global, ast.Nonlocal, ast.Import, ast.ImportFrom)):
            return [st]
        if isinstance(s, ast.Expr):
            v = s.value
            if isinstance(v, ast.Constant):
                return [st]
            if isinstance(v, ast.Call):
                if dotted(v.func) == "setattr" and len(v.args) == 3 and not v.keywords:
                    obj, name = self.term(v.args[0], st), self.term(v.args[1], st)
                    if dotted(obj) is None or not (isinstance(name, ast.Constant) and isinstance(name.value, str)):
                        raise _Unmodelled("setattr with a computed attribute name")
                    out = []
                    for s2, t in self.values(v.args[2], st):
                        if not s2.done:
                            d = f"{dotted(obj)}.{name.value}"
                            s2.heap[d] = t
                            s2.stores.append(("attr", d, t))
                        out.append(s2)
                    return out
                h = self.helper_of(v, st)
                if h is not None:
                    return [s2 for s2, _t in self.call(h, v, st)]
                st.effects.append(self.term(v, st))
                st.evals.append(st.effects[-1])
                return [st]
            raise _Unmodelled(f"expression statement {src(v)[:40]}")
        if isinstance(s, (ast.Assign, ast.AnnAssign)):
            if s.value is None:
                return [st]
            out = []
            for s2, t in self.values(s.value, st):
                if not s2.done:
                    for tgt in (s.targets if isinstance(s, ast.Assign) else [s.target]):
                        self.bind(tgt, t, s2)
                out.append(s2)
            return out
        if isinstance(s, ast.AugAssign):
            cur = copy.deepcopy(s.target)
            for n in ast.walk(cur):
                if hasattr(n, "ctx") and isinstance(n.ctx, ast.Store):
                    n.ctx = ast.Load()
            cur = self.term(cur, st)
            t = self.tag(ast.BinOp(left=cur, op=s.op, right=self.term(s.value, st)))
            st.evals.append(t.right)
            self.bind(s.target, t, st)
            return [st]
        if isinstance(s, ast.If):
            return self.branch(s.test, st, s.body, s.orelse)
        if isinstance(s, ast.Assert):
            t = self.term(s.test, st)
            st.evals.append(t)
            return [st.fork(g) for g in _split(self.ctx, t, st.facts, True)]
        if isinstance(s, ast.Return):
            if s.value is None:
                st.ret, st.done = ast.Constant(value=None), "return"
                return [st]
            out = []
            for s2, t in self.values(s.value, st):
                if not s2.done:
                    s2.ret, s2.done = t, "return"
                out.append(s2)
            return out
        if isinstance(s, ast.Raise):
            st.done = "raise"
            return [st]
        if isinstance(s, ast.Break):
            st.done = "break"
            return [st]
        if isinstance(s, ast.Continue):
            st.done = "continue"
            return [st]
        if isinstance(s, (ast.For, ast.While)) and self.capture_loops and self.depth == 0:
            names, attrs = _assigned_in([s])
            for n in names:
                st.env.pop(n, None)
            for d in attrs:
                st.heap.pop(d, None)
            if isinstance(s, ast.For):
                st.evals.append(self.term(s.iter, st))
            self.loops.append((s, st.fork()))
            return [st]
        raise _Unmodelled(f"{type(s).__name__} statement")


def _baseline():
    from csverif.normalise import baseline

    return baseline()


class _Agg:
    """Aggregate per-path verdicts of one obligation: any violated -> violated, else any undecided -> undecided."""

    def __init__(self):
        self.bad, self.unk, self.n = [], [], 0

    def add(self, verdict, why=""):
        self.n += 1
        if verdict is False and why not in self.bad:
            self.bad.append(why)
        elif verdict is None and why not in self.unk:
            self.unk.append(why)

    def emit(self, ctx, rule, kind, where, text, ok_detail, node=None, none_detail="no path of the code corresponds to this case"):
        if self.bad:
            ctx.ob(rule, kind, where, text, False, "; ".join(self.bad[:4]), node)
        elif self.unk:
            ctx.undecided(rule, kind, where, text, "; ".join(self.unk[:4]), node)
        elif not self.n:
            ctx.undecided(rule, kind, where, text, none_detail, node)
        else:
            ctx.ob(rule, kind, where, text, True, ok_detail, node)


def _external(ctx, f, e):
    """External dotted name a Name/Attribute expression resolves to through the module's imports ('types.MappingProxyType')."""
    d = dotted(e)
    if d is None:
        return None
    s = ctx.rs.lookup_dotted(f.module.name, d)
    if s is not None and s.kind == "external":
        return s.name
    return d if s is None else None


def _opaque(ctx, f, t, locals_, ex=None):
    """Why the value of term t is not fully known to the rule (None if it is built from understood parts only)."""
    for n in ast.walk(t):
        if isinstance(n, ast.Name) and n.id in locals_:
            return f"local `{n.id}` carries a value the path executor does not track"
        if isinstance(n, (ast.IfExp, ast.Lambda, ast.ListComp, ast.SetComp, ast.DictComp, ast.GeneratorExp, ast.NamedExpr, ast.Starred, ast.Await)):
            return f"`{src(n)[:50]}` is not modelled"
        if isinstance(n, ast.Call):
            d = dotted(n.func)
            if d is None:
                return f"call of a computed callable `{src(n.func)[:50]}`"
            q = None
            if d.startswith("self.") and d.count(".") == 1 and f.cls:
                q = f"{f.cls}.{d.split('.')[1]}"
            elif "." not in d:
                q = d
            if q is not None and q in f.module.funcs and q not in set(_baseline().get(f.module.name, {}).get("functions", [])):
                return f"helper `{d}` could not be inlined"
    return None


def _order_of(it, is_base):
    """'same' if expression `it` enumerates the base sequence in its own order, 'changed' if it reorders / filters /
    deduplicates it, None if the rule cannot tell.  Second result: True if wrapped in enumerate()."""
    enum = False
    for _ in range(6):
        if is_base(it):
            return "same", enum
        if isinstance(it, ast.Call) and not it.keywords and len(it.args) >= 1:
            d = dotted(it.func)
            if d in _ORDER_KEEPING and len(it.args) == 1:
                it = it.args[0]
                continue
            if d == "enumerate":
                enum, it = True, it.args[0]
                continue
        if isinstance(it, ast.Call) and dotted(it.func) in _ORDER_CHANGING:
            return "changed", enum
        if isinstance(it, ast.Subscript) and isinstance(it.slice, ast.Slice):
            sl = it.slice
            if sl.lower is None and sl.upper is None and sl.step is None:
                it = it.value
                continue
            return "changed", enum
        break
    if any(isinstance(n, ast.Call) and dotted(n.func) in _ORDER_CHANGING for n in ast.walk(it)):
        return "changed", enum
    return None, enum


# ============================================================================================ entry
def run(ctx):
    rep = ctx.rep
    rep.explanation = (
        "Static analysis of beacon.py: Setting TLV layout parsed from CS_DEF (field order, widths, unsigned index/length, endianness of the "
        "owning cstruct; field and enum base types resolved by name through enums, scalar typedefs of the definition text and the "
        "built-in type names of dissect.cstruct); path-wise symbolic execution of settings_map (per scenario of view flags and record type: the "
        "stored value is unpack(size, byteorder, signed) of the raw value resolved through functools.partial or "
        "int.from_bytes, or the raw value; key per index_type; one insertion per setting in tuple order; "
        "MappingProxyType exit), of the four cached views (cache slot, emptiness guard, settings_map arguments; helpers "
        "entered with bound arguments), CFG exit/yield/terminator/seek-back analysis of iter_settings, a path walk of one iteration "
        "of its parse loop under the scenario 'the record at the cursor has index 0' (no path may reach a yield or the next record, "
        "whatever the other fields and the trailing bytes are), a second path walk under the scenario 'a complete record with a non-zero "
        "index lies at the cursor' (every exception-free path must reach the yield before leaving the loop; end-of-data tests on the "
        "stream position are compared, as intervals, with the size of the fixed part of struct Setting from the C definitions), "
        "def-use of the per-setting loop of settings_map (a key/value term must not read a loop local before its assignment in the "
        "same iteration: it would carry the previous record's value), the terms each path of settings_map evaluates (a pretty-function "
        "table entry may only be applied on paths on which `pretty` holds - the raw / parsed views must not depend on a pretty "
        "function returning normally), index-36 and "
        "User-Agent guards from dominating branch facts (enum members and literals also when named by a single-definition "
        "module-level constant of beacon.py), a length-domain upper bound on the bytes the User-Agent continuation can "
        "append per record (must not be finite), the tests that guard the continuation evaluated in a shape/length domain under the "
        "scenario 'index USERAGENT, length 0x80, last value byte not NUL, other bytes arbitrary' (all must hold), cardinality classes (per record / per distinct key) of the arguments of every "
        "positional pairing (zip, multi-iterable map) a cached view is assembled with, and the SETTING_* key vocabulary used "
        "across the package."
    )
    rep.not_decided = ["the numeric values themselves", "alias-name choice for duplicated enum values (16/17/48)", "trailing bytes: only that a zero index ends the iteration whatever follows it (R5), not where the stream is left",
                       "records whose decoding raises an exception (the complete-record scenario follows exception-free paths only)",
                       "views that are not computed by settings_map and contain no record/key pairing (undecided)",
                       "that the User-Agent continuation stops exactly at the NUL (only that no constant bounds it and that it is entered for every completely filled field)",
                       "pretty functions evaluated outside settings_map (e.g. while the settings tuple is built) or by helpers the path executor cannot enter",
                       "index-36 / User-Agent guards that compare the index, type or length with a value that is not a constant of beacon.py (undecided)",
                       "the Setting layout when a field type is neither an enum / scalar typedef of the definitions nor a built-in type name of dissect.cstruct (undecided)"]
    rep.trusted_base = ["CPython ast", "networkx dominators", "C-definition parser (csverif.cdefs)", "dissect.cstruct parses fields in declaration order",
                        "dissect.cstruct: built-in type names (uint16_t, WORD, unsigned short ...) are typedefs of the internal fixed-width types as listed in cstruct.typedefs (table copied into the rule module, lemma S3); enumerators without a value count on from the previous one",
                        "dissect.cstruct: a parsed Setting carries exactly `length` value bytes (counted array) - a 0x80 record has a 128-byte value",
                        "bytes.rstrip/strip/lstrip/find/count/endswith/in have their documented CPython semantics (lemmas U2-U4)",
                        "a module-level name of beacon.py that is bound once and never rebound in the module is not rebound from outside the module",
                        "dissect.cstruct: the truth value of a structure instance depends on all of its fields (or is constant), never on the first field alone",
                        "binary stream protocol: seek() returns the new absolute position, tell() the current one, read(k) advances by the bytes returned"]
    r1(ctx)
    r2_r4(ctx)
    r3(ctx)
    r5_r6(ctx)
    r7(ctx)


# S3: the scalar types dissect.cstruct knows without any definition (cstruct.typedefs of dissect.cstruct 3.x / 4.x):
# the internal fixed-width types with (width in bytes, signed) ...
_CSTRUCT_PRIMS = {
    "int8": (1, True), "uint8": (1, False), "int16": (2, True), "uint16": (2, False), "int24": (3, True), "uint24": (3, False),
    "int32": (4, True), "uint32": (4, False), "int48": (6, True), "uint48": (6, False), "int64": (8, True), "uint64": (8, False),
    "int128": (16, True), "uint128": (16, False), "char": (1, False), "wchar": (2, False),
}
# ... and the built-in typedef names, each of which *is* (resolves to the same type object as) the internal type named.
_CSTRUCT_TYPEDEFS = {
    "signed char": "int8", "unsigned char": "char", "short": "int16", "signed short": "int16", "unsigned short": "uint16",
    "int": "int32", "signed int": "int32", "unsigned int": "uint32", "long": "int32", "signed long": "int32",
    "unsigned long": "uint32", "long long": "int64", "signed long long": "int64", "unsigned long long": "uint64",
    "BYTE": "uint8", "CHAR": "char", "SHORT": "int16", "WORD": "uint16", "DWORD": "uint32", "LONG": "int32", "LONG32": "int32",
    "LONG64": "int64", "LONGLONG": "int64", "QWORD": "uint64", "OWORD": "uint128", "WCHAR": "wchar",
    "UCHAR": "uint8", "USHORT": "uint16", "ULONG": "uint32", "ULONG64": "uint64", "ULONGLONG": "uint64",
    "INT": "int32", "INT8": "int8", "INT16": "int16", "INT32": "int32", "INT64": "int64", "INT128": "int128",
    "UINT": "uint32", "UINT8": "uint8", "UINT16": "uint16", "UINT32": "uint32", "UINT64": "uint64", "UINT128": "uint128",
    "__int8": "int8", "__int16": "int16", "__int32": "int32", "__int64": "int64", "__int128": "int128",
    "unsigned __int8": "uint8", "unsigned __int16": "uint16", "unsigned __int32": "uint32", "unsigned __int64": "uint64",
    "unsigned __int128": "uint128", "wchar_t": "wchar",
    "int8_t": "int8", "int16_t": "int16", "int32_t": "int32", "int64_t": "int64", "int128_t": "int128",
    "uint8_t": "uint8", "uint16_t": "uint16", "uint32_t": "uint32", "uint64_t": "uint64", "uint128_t": "uint128",
    "_BYTE": "uint8", "_WORD": "uint16", "_DWORD": "uint32", "_QWORD": "uint64", "_OWORD": "uint128",
    "u1": "uint8", "u2": "uint16", "u4": "uint32", "u8": "uint64", "u16": "uint128",
    "__u8": "uint8", "__u16": "uint16", "__u32": "uint32", "__u64": "uint64",
    "uchar": "uint8", "ushort": "uint16", "uint": "uint32", "ulong": "uint32",
}
_C_COMMENT = re.compile(r"//[^\n]*|/\*.*?\*/", re.S)
_C_TYPEDEF = re.compile(r"(?<![\w])typedef\s+([A-Za-z_][\w ]*?)\s+([A-Za-z_]\w*)\s*;")


def _user_typedefs(ctx, cd):
    """new name -> type text of every scalar `typedef <type> <name>;` in the definition texts loaded into cstruct
    instance cd (read from the module-level string constants named by cd.sources; comments removed).  A name that is
    typedef'd twice is dropped (which definition a field sees would depend on the order)."""
    try:
        consts = ctx.repo.module("beacon").consts
    except Exception:
        return {}
    out, dup = {}, set()
    for name in getattr(cd, "sources", ()) or ():
        v = consts.get(name)
        if not (isinstance(v, ast.Constant) and isinstance(v.value, str)):
            continue
        for m in _C_TYPEDEF.finditer(_C_COMMENT.sub("", v.value)):
            base, new = " ".join(m.group(1).split()), m.group(2)
            if base.split()[0] in ("struct", "union", "enum", "flag"):
                continue
            if new in out and out[new] != base:
                dup.add(new)
            out[new] = base
    for n in dup:
        out.pop(n, None)
    return out


def _scalar_type(ctx, cd, t, _seen=()):
    """(width in bytes, signed) of the integer / char type named t in the C definitions of cstruct instance cd, or None
    when the name is not one this resolver knows (-> the caller is undecided, never violated, about that field).
    Resolution, by name only (6): an enum / flag of the definitions has the width of its base type; a scalar
    `typedef A B;` of the definition text makes B the type A; a built-in typedef name of dissect.cstruct (S3:
    uint16_t, WORD, unsigned short ...) is the internal type it names; the internal types have their fixed width."""
    if not isinstance(t, str) or t in _seen or len(_seen) > 16:
        return None
    t = " ".join(t.split())
    seen = _seen + (t,)
    if t in cd.enums:
        return _scalar_type(ctx, cd, cd.enums[t].base, seen)
    user = _user_typedefs(ctx, cd)
    if t in user:
        return _scalar_type(ctx, cd, user[t], seen)
    if t in _CSTRUCT_PRIMS:
        return _CSTRUCT_PRIMS[t]
    if t in _CSTRUCT_TYPEDEFS:
        return _CSTRUCT_PRIMS[_CSTRUCT_TYPEDEFS[t]]
    return None


def _width(ctx, cd, t):
    ts = _scalar_type(ctx, cd, t)
    return ts[0] if ts else None


def r1(ctx):
    cd = ctx.cdefs("beacon").get("cs_struct")
    if cd is None:
        ctx.rep.error("anchor vanished: cs_struct")
        return
    s = cd.struct("Setting")
    scal = [_scalar_type(ctx, cd, f.type) for f in s.fields]
    got = [(f.name, ts[0] if ts else None, f.count) for f, ts in zip(s.fields, scal)]
    want = [("index", 2, None), ("type", 2, None), ("length", 2, None), ("value", 1, "length")]
    # a field whose type name the resolver does not know has no width to compare: names / order / array bounds and the
    # widths that are known must still match (else violated); if only unknown widths stand in the way -> undecided
    unknown = [f.type for f, ts in zip(s.fields, scal) if ts is None]
    rest_ok = cd.endian == ">" and len(got) == len(want) and all(
        g[0] == w[0] and g[2] == w[2] and (g[1] is None or g[1] == w[1]) for g, w in zip(got, want))
    if unknown and rest_ok:
        ctx.undecided("R1", "TABLE", "beacon.py::CS_DEF::struct Setting", "fields",
                      f"Setting fields (name,width,array)={got}: the width of type(s) {unknown} is not known to the type resolver "
                      f"(not an enum / typedef of the definitions nor a built-in type name of dissect.cstruct); required {want} big-endian")
    else:
        ctx.ob("R1", "TABLE", "beacon.py::CS_DEF::struct Setting", "fields", got == want and cd.endian == ">",
               f"Setting fields (name,width,array)={got} endian={cd.endian!r}; required {want} big-endian")
    # "any 16-bit index", "any length 0-65535": the index and length fields are read as unsigned integers (the type field
    # is not judged: the quantifier admits types 0-3 only, which a signed and an unsigned 16-bit read decode alike)
    hdr = [(f, ts) for f, ts in zip(s.fields, scal) if f.name in ("index", "length") and f.count is None]
    signed = [f.name for f, ts in hdr if ts is not None and ts[1]]
    if hdr and (all(ts is not None for _f, ts in hdr) or signed):
        ctx.ob("R1", "TABLE", "beacon.py::CS_DEF::struct Setting", "index and length unsigned", not signed,
               f"index/length are decoded as unsigned integers (signed: {signed or 'none'}; types {[f.type for f, _t in hdr]}, "
               f"enum base types {[cd.enums[f.type].base for f, _t in hdr if f.type in cd.enums]})")
    types = [f.type for f in s.fields[:2]]
    ctx.ob("R1", "TABLE", "beacon.py::CS_DEF::struct Setting", "field types", types == ["BeaconSetting", "SettingsType"],
           f"index/type are parsed as enums {types}")
    st = cd.enum("SettingsType").by_name()
    ctx.ob("R1", "TABLE", "beacon.py::CS_DEF::enum SettingsType", "members", st == {"TYPE_NONE": 0, "TYPE_SHORT": 1, "TYPE_INT": 2, "TYPE_PTR": 3},
           f"SettingsType = {st}")


# ============================================================================================ R2 / R4: settings_map
def _int_conv(ctx, f, w):
    """(size, byteorder, signed, data term, known) if term w converts bytes to an int through utils.unpack (directly or
    through a functools.partial of it) or int.from_bytes(data[:size], ...); None otherwise."""
    if not isinstance(w, ast.Call):
        return None
    d = dotted(w.func)
    if d is None:
        return None

    def cst(e, default):
        if e is None:
            return default, True
        try:
            return const_eval(e), True
        except Exception:
            return None, False

    if d == "int.from_bytes":
        kw = {k.arg: k.value for k in w.keywords if k.arg}
        if any(k.arg is None for k in w.keywords) or any(isinstance(a, ast.Starred) for a in w.args) or not (w.args or "bytes" in kw):
            return None
        data = w.args[0] if w.args else kw["bytes"]
        bo, k1 = cst(w.args[1] if len(w.args) > 1 else kw.get("byteorder"), "big")
        sg, k2 = cst(kw.get("signed"), False)
        size, k3 = None, True
        if isinstance(data, ast.Subscript) and isinstance(data.slice, ast.Slice) and data.slice.step is None \
                and (data.slice.lower is None or is_const(data.slice.lower, 0)) and data.slice.upper is not None:
            size, k3 = cst(data.slice.upper, None)
            data = data.value
        return size, bo, bool(sg), data, k1 and k2 and k3
    s = ctx.rs.lookup_dotted(f.module.name, d) if d.split(".")[0] not in ("self", "cls") else None
    if s is None or s.kind not in ("func", "partial") or s.fq != "utils.unpack":
        return None
    fn = ctx.repo.func("utils.unpack").node
    b = bind_args(w, fn)
    pos = params(fn)
    explicit = {k.arg for k in w.keywords if k.arg} | set(pos[: len(w.args)])
    for k, v in (s.bound or {}).items():
        if k not in explicit:
            b[k] = v
    if b.get("data") is None:
        return None
    size, k1 = cst(b.get("size"), None)
    bo, k2 = cst(b.get("byteorder"), "little")
    sg, k3 = cst(b.get("signed"), False)
    return size, bo, bool(sg), b["data"], k1 and k2 and k3


def _pretty_app(ctx, v):
    """(argument term, lookup key term) if term v applies an entry of a module-level function table to one argument:
    TABLE.get(k)(w) / TABLE[k](w)."""
    consts = ctx.repo.module("beacon").consts

    def table(e):
        d = dotted(e)
        return d is not None and "." not in d and isinstance(consts.get(d), ast.Dict)

    if isinstance(v, ast.Call) and len(v.args) == 1 and not v.keywords and not isinstance(v.args[0], ast.Starred):
        fn = v.func
        if isinstance(fn, ast.Call) and isinstance(fn.func, ast.Attribute) and fn.func.attr == "get" and fn.args and table(fn.func.value):
            return v.args[0], fn.args[0]
        if isinstance(fn, ast.Subscript) and table(fn.value):
            return v.args[0], fn.slice
    return None


def _pretty_evals(ctx, t):
    """[(application node, guards)] for every application of a pretty-function table entry (`_pretty_app`) that
    evaluating term t can evaluate; guards = [(test, outcome)] of the conditional contexts of t the application sits in
    (`a if c else b`, short-circuit and/or, comprehension filters).  Bodies of lambdas are not evaluated with t."""
    out = []

    def walk(n, guards):
        if isinstance(n, ast.Lambda):
            return
        if isinstance(n, ast.IfExp):
            walk(n.test, guards)
            walk(n.body, guards + [(n.test, True)])
            walk(n.orelse, guards + [(n.test, False)])
            return
        if isinstance(n, ast.BoolOp):
            g = list(guards)
            for v in n.values:
                walk(v, g)
                g = g + [(v, isinstance(n.op, ast.And))]
            return
        if isinstance(n, (ast.ListComp, ast.SetComp, ast.GeneratorExp, ast.DictComp)):
            g = list(guards)
            for c in n.generators:
                walk(c.iter, g)
                for i in c.ifs:
                    walk(i, g)
                    g = g + [(i, True)]
            for e in ([n.key, n.value] if isinstance(n, ast.DictComp) else [n.elt]):
                walk(e, g)
            return
        if isinstance(n, ast.Call) and _pretty_app(ctx, n) is not None:
            out.append((n, guards))
        for c in ast.iter_child_nodes(n):
            walk(c, guards)

    if t is not None:
        walk(t, [])
    return out


def _entangled(facts, vocab, words):
    """An atom of the path that talks about the scenario's subjects in a form the scenario vocabulary cannot express."""
    pat = re.compile("|".join(r"(?<![\w.])" + re.escape(w) + r"(?![\w])" for w in words))
    for k in facts:
        if k in vocab or (k[0] == "eq" and (k[0], k[1]) in vocab):
            continue
        text = " ".join(str(x) for x in k[1:] if isinstance(x, str))
        if pat.search(text):
            return text
    return None


def _plain_loop_locals(loop):
    """Names that the body of `loop` binds by plain assignment statements only (`x = ..`, `x: T = ..`, `x += ..`, also
    as an element of a tuple target), each reached through if/else nesting alone - i.e. exactly the bindings the path
    executor tracks when it analyses the loop body once.  A name that is also bound by the loop target, a nested loop,
    a with/try/except clause, a comprehension, an assignment expression, `del`, an import or a nested def is left out."""
    total, plain = {}, {}
    for n in ast.walk(loop):
        if isinstance(n, ast.Name) and not isinstance(n.ctx, ast.Load):
            total[n.id] = total.get(n.id, 0) + 1
        elif isinstance(n, (ast.FunctionDef, ast.AsyncFunctionDef, ast.ClassDef)):
            total[n.name] = total.get(n.name, 0) + 2
        elif isinstance(n, (ast.Import, ast.ImportFrom)):
            for a in n.names:
                k = (a.asname or a.name).split(".")[0]
                total[k] = total.get(k, 0) + 2
        elif isinstance(n, ast.ExceptHandler) and n.name:
            total[n.name] = total.get(n.name, 0) + 2
        elif isinstance(n, (ast.Global, ast.Nonlocal)):
            for k in n.names:
                total[k] = total.get(k, 0) + 2

    def targets(t):
        if isinstance(t, ast.Name):
            plain[t.id] = plain.get(t.id, 0) + 1
        elif isinstance(t, (ast.Tuple, ast.List)):
            for e in t.elts:
                targets(e)

    def visit(stmts):
        for s in stmts:
            if isinstance(s, ast.Assign):
                for t in s.targets:
                    targets(t)
            elif isinstance(s, (ast.AnnAssign, ast.AugAssign)):
                targets(s.target)
            elif isinstance(s, ast.If):
                visit(s.body)
                visit(s.orelse)

    visit(loop.body)
    return {k for k, v in plain.items() if total.get(k) == v}


def _read_before_assignment(t, plain):
    """Names of `plain` that occur free in the path term t.  The path executor replaces a local by its defining term as
    soon as the path has assigned it, so a plainly assigned local of the loop body that is still a bare name in a term
    of that body is read on this path *before* any assignment of the same iteration (def-use: its only reaching
    definitions are loop-carried or from before the loop)."""
    out, todo = [], [t]
    while todo:
        n = todo.pop()
        if isinstance(n, (ast.Lambda, ast.ListComp, ast.SetComp, ast.DictComp, ast.GeneratorExp)):
            continue
        if isinstance(n, ast.Name) and isinstance(n.ctx, ast.Load) and n.id in plain and n.id not in out:
            out.append(n.id)
        todo.extend(ast.iter_child_nodes(n))
    return sorted(out)


def _outside_vocabulary(ctx, facts, subj, enum):
    """The facts of a path exclude every member of the C-defined enum for `subj` (finite vocabulary of the quantifier:
    e.g. a record type that is none of TYPE_NONE/SHORT/INT/PTR) - the path is outside the property's quantifier."""
    members = _enums(ctx).get(enum) or {}
    return bool(members) and all(_lookup(facts, ("eq", subj, ("int", v))) is False for v in set(members.values()))


def _type_facts(ctx, facts, subj, enum):
    """Readable rendering of what a path's facts say about the record type."""
    names = {}
    for k, v in (_enums(ctx).get(enum) or {}).items():
        names.setdefault(v, k)
    eq = [names.get(k[2][1], k[2][1]) for k, v in facts.items() if k[0] == "eq" and k[1] == subj and v]
    ne = [names.get(k[2][1], k[2][1]) for k, v in facts.items() if k[0] == "eq" and k[1] == subj and not v]
    if eq:
        return f"{subj} == {eq[0]}"
    if ne:
        rest = [n for val, n in sorted(names.items()) if n not in ne]
        return f"{subj} is none of {', '.join(str(x) for x in ne)}" + (f" (e.g. {rest[0]})" if rest else "")
    return f"any {subj}"


def r2_r4(ctx):
    f = ctx.repo.func("beacon.BeaconConfig.settings_map")
    dflt = param_defaults(f.node)
    ctx.ob("R2", "AGREE", f, "parse default", is_const(dflt.get("parse"), True) and is_const(dflt.get("pretty"), False),
           f"defaults parse={src(dflt.get('parse'))} pretty={src(dflt.get('pretty'))}", f.node)
    try:
        _settings_map(ctx, f)
    except _Unmodelled as e:
        ctx.undecided("R2", "AGREE", f, "per-setting conversion", f"settings_map contains a construct the path executor does not model: {e}", f.node)
        ctx.undecided("R4", "AGREE", f, "one insertion per setting in tuple order", f"settings_map contains a construct the path executor does not model: {e}", f.node)
    _settings_tuple(ctx)


def _settings_map(ctx, f):
    need = ("index_type", "pretty", "parse")
    if any(p not in params(f.node) for p in need):
        raise _Unmodelled(f"parameters {need} not all present")
    ex = _Exec(ctx, f, capture_loops=True)
    outs = ex.run(f.node.body, _St())
    # ---------------------------------------------------------------- R4: exit
    rets = [o for o in outs if o.done == "return"]
    falls = [o for o in outs if o.done is None]
    ctx.ob("R4", "EXIT", f, "falls off end", not falls, "cannot return None implicitly" if not falls else "a path reaches the end of settings_map without returning the mapping", f.node)
    def fresh(a):
        if isinstance(a, ast.Dict) and not a.keys:
            return True
        return isinstance(a, ast.Call) and not a.args and not a.keywords and _external(ctx, f, a.func) in ("collections.OrderedDict", "OrderedDict", "dict")

    proxy, accs = _Agg(), []
    for o in rets:
        v = o.ret
        if isinstance(v, ast.Call) and _external(ctx, f, v.func) in ("types.MappingProxyType", "MappingProxyType") and len(v.args) == 1 and not v.keywords:
            proxy.add(True)
            accs.append(v.args[0])
        elif _opaque(ctx, f, v, set()):
            proxy.add(None, f"returned value `{src(v)}`: {_opaque(ctx, f, v, set())}")
        else:
            proxy.add(False, f"returns `{src(v)}`, not a MappingProxyType (read-only view) of the mapping")
            if fresh(v):
                accs.append(v)  # the mutable mapping itself is returned: the per-setting obligations still apply to it
    proxy.emit(ctx, "R4", "EXIT", f, "returns a read-only MappingProxyType", "every return wraps the mapping in MappingProxyType", f.node,
               "no return statement found")
    toks = {getattr(a, "_tok", None) for a in accs}
    acc = accs[0] if accs and len(toks) == 1 and None not in toks else None

    order = _Agg()
    if acc is None:
        order.add(None, "the returned mapping object cannot be identified")
    elif not fresh(acc):
        changed = any(isinstance(n, ast.Call) and dotted(n.func) in _ORDER_CHANGING for n in ast.walk(acc))
        order.add(False if changed else None, f"the returned mapping is built as `{src(acc)}`" + (" (reordered)" if changed else " - not a fresh empty ordered mapping filled per setting"))
    # ---------------------------------------------------------------- the per-setting loop
    tok = getattr(acc, "_tok", None) if acc is not None else None
    main, allpaths = [], list(outs)
    for loop, entry in ex.loops:
        if not isinstance(loop, ast.For):
            continue
        paths = ex.run(loop.body, entry.fork())
        allpaths.extend(paths)
        if any(s[0] == "item" and getattr(s[1], "_tok", -1) == tok for p in paths for s in p.stores):
            main.append((loop, entry, paths))
    if acc is not None and fresh(acc) and len(main) != 1:
        order.add(None, f"expected one loop that fills the returned mapping, found {len(main)}")
    if order.bad or order.unk or len(main) != 1:
        order.emit(ctx, "R4", "AGREE", f, "one insertion per setting in tuple order", "", f.node)
        if not order.bad:
            ctx.undecided("R2", "AGREE", f, "per-setting conversion", "the loop that fills the returned mapping cannot be located", f.node)
        return
    loop, entry, paths = main[0]
    it = ex.term(loop.iter, entry)
    how, enum = _order_of(it, lambda e: dotted(e) == "self.settings_tuple")
    sv = None
    if isinstance(loop.target, ast.Name) and not enum:
        sv = loop.target.id
    elif enum and isinstance(loop.target, ast.Tuple) and len(loop.target.elts) == 2 and isinstance(loop.target.elts[1], ast.Name):
        sv = loop.target.elts[1].id
    if how == "changed":
        order.add(False, f"the loop iterates `{src(it)}`: not self.settings_tuple in stored order")
    elif how is None or sv is None:
        order.add(None, f"the loop iterates `{src(it)}` - cannot relate it to self.settings_tuple")
    else:
        order.add(True)
    for o in outs:
        for e in o.effects:
            if isinstance(e, ast.Call) and isinstance(e.func, ast.Attribute) and e.func.attr in _REORDER_METHODS and getattr(e.func.value, "_tok", -1) == tok:
                order.add(False, f"`{src(e)}` changes the order/content of the mapping outside the per-setting insertion")
    locals_ = _assigned_in(f.node.body)[0] - set(params(f.node)) - ({sv} if sv else set())
    judged = []
    for p in paths:
        if p.done == "raise":
            continue
        ins = [s for s in p.stores if s[0] == "item" and getattr(s[1], "_tok", -1) == tok]
        for e in p.effects:
            if isinstance(e, ast.Call) and isinstance(e.func, ast.Attribute) and e.func.attr in _REORDER_METHODS and getattr(e.func.value, "_tok", -1) == tok:
                order.add(False, f"`{src(e)}` changes the order/content of the mapping outside the per-setting insertion")
        if p.done in ("break", "return"):
            order.add(False, "a path leaves the loop before all settings are inserted")
        elif len(ins) == 0:
            order.add(False, "a path through the loop body inserts nothing: a setting can be skipped")
        elif len(ins) > 1:
            order.add(False, "a path through the loop body inserts more than one entry for a setting")
        else:
            order.add(True)
            judged.append((p, ins[0][2], ins[0][3]))
    order.emit(ctx, "R4", "AGREE", f, "one insertion per setting in tuple order",
               "fresh ordered mapping; every path through the loop over self.settings_tuple inserts exactly one entry; no reordering", loop)
    if sv is None:
        ctx.undecided("R2", "AGREE", f, "per-setting conversion", "the loop variable holding the setting cannot be identified", loop)
        return
    # ---------------------------------------------------------------- R2: value per scenario
    T = lambda m: _expr(f"{sv}.type == SettingsType.{m}")  # noqa: E731
    on = _expr("parse or pretty")
    scen = [
        ("SHORT", "TYPE_SHORT value decoded as unsigned 16-bit big-endian", [(on, True), (T("TYPE_SHORT"), True)], 2),
        ("INT", "TYPE_INT value decoded as unsigned 32-bit big-endian", [(on, True), (T("TYPE_INT"), True)], 4),
        ("OTHER", "values of non-integer types stay raw bytes", [(on, True), (T("TYPE_SHORT"), False), (T("TYPE_INT"), False)], None),
        ("OFF", "raw bytes when parse and pretty are off", [(_expr("parse"), False), (_expr("pretty"), False)], None),
    ]
    vocab_v = {("t", "parse"), ("t", "pretty"), ("eq", f"{sv}.type")}
    raw = f"{sv}.value"
    aggs = {label: _Agg() for label, *_ in scen}
    pretty_only = _Agg()
    plain = _plain_loop_locals(loop)
    tsubj = f"{sv}.type"
    for p, _k, v in judged:
        w = v
        pa = _pretty_app(ctx, v)
        if pa is not None:
            w, pk = pa
            if src(pk) != f"{sv}.index":
                pretty_only.add(False, f"pretty function looked up by `{src(pk)}`, not by the setting's own index")
            elif _consistent(ctx, p.facts, [(_expr("pretty"), False)]):
                pretty_only.add(False, "a pretty function is applied on a path where `pretty` is off (raw views would differ)")
            else:
                pretty_only.add(True)
        ent = _entangled(p.facts, vocab_v, ("parse", "pretty", f"{sv}.type"))
        for label, _text, tests, size in scen:
            if not _consistent(ctx, p.facts, tests):
                continue
            a = aggs[label]
            if ent is not None:
                a.add(None, f"the path is selected by `{ent}`, which the rule cannot relate to the view flags / record type")
                continue
            stale = _read_before_assignment(v, plain)
            if stale:
                # the value stored for this record is not computed from this record on this path
                if not _outside_vocabulary(ctx, p.facts, tsubj, "SettingsType"):
                    a.add(False, f"on the path with {_type_facts(ctx, p.facts, tsubj, 'SettingsType')} the stored value `{src(v)[:60]}` reads local "
                                 f"`{stale[0]}` before any assignment of the same iteration: the entry gets what was computed for the previous "
                                 f"record (UnboundLocalError for the first record), not the value of its own record")
                continue
            conv = _int_conv(ctx, f, w)
            opq = _opaque(ctx, f, w, locals_)
            if size is None:
                if src(w) == raw:
                    a.add(True)
                elif conv is None and opq:
                    a.add(None, f"stored value `{src(w)}`: {opq}")
                else:
                    a.add(False, f"stores `{src(w)}` instead of the raw `{raw}`" + (" (pointer/other values must stay raw bytes)" if label == "OTHER" else ""))
            else:
                if conv is not None:
                    sz, bo, sg, data, known = conv
                    if not known:
                        a.add(None, f"conversion `{src(w)}` has non-constant size/byteorder/signed")
                    elif (sz, bo, sg) == (size, "big", False) and src(data) == raw:
                        a.add(True)
                    else:
                        a.add(False, f"`{src(w)}` = unpack(size={sz}, byteorder={bo}, signed={sg}) of `{src(data)}`; required (size={size}, big, unsigned) of `{raw}`")
                elif src(w) == raw:
                    a.add(False, f"a {label} record can stay unconverted (`{raw}` is stored) although parse/pretty is on: the conversion depends on more than the view flags and the record type")
                elif opq:
                    a.add(None, f"stored value `{src(w)}`: {opq}")
                else:
                    a.add(False, f"stores `{src(w)}`, not the unsigned {size * 8}-bit big-endian integer of `{raw}`")
    for label, text, _tests, _size in scen:
        aggs[label].emit(ctx, "R2", "AGREE", f, text, "holds on every path consistent with the case", loop)
    if pretty_only.n:
        pretty_only.emit(ctx, "R2", "AGREE", f, "pretty function only in pretty views", "pretty functions are looked up by the setting's index and applied only where `pretty` holds", loop)
    else:
        ctx.undecided("R2", "AGREE", f, "pretty function only in pretty views", "no application of a pretty-function table entry found", loop)
    # ---------------------------------------------------------------- R2: no pretty function is *evaluated* for a raw / parsed view
    # (a pretty function is partial - it assumes the shape of a well-formed value -, the raw and parsed views are total:
    # "any type 0-3, any length, any value bytes"; so a view with `pretty` off must not depend on one terminating normally)
    lazy, seen = _Agg(), set()
    for p in allpaths:
        if p.done == "raise":
            continue
        for t in p.evals:
            for app, guards in _pretty_evals(ctx, t):
                cur = [p.facts]
                for g, w in guards:
                    cur = [h for fc in cur for h in _split(ctx, g, fc, w)]
                for fc in cur:
                    ent = _entangled(fc, {("t", "pretty")}, ("pretty",))
                    on = _lookup(fc, ("t", "pretty"))
                    key = (src(app), ent, on)
                    if key in seen:
                        continue
                    seen.add(key)
                    if ent is not None:
                        lazy.add(None, f"`{src(app)[:70]}` is evaluated on a path selected by `{ent}`, which the rule cannot relate to the `pretty` flag")
                    elif on is True:
                        lazy.add(True)
                    else:
                        lazy.add(False, f"`{src(app)[:90]}` is evaluated on a path on which `pretty` is " + ("off" if on is False else "not tested")
                                 + ": the raw / parsed views run the pretty function of every setting that has one, so a record whose value "
                                   "does not have the shape that function expects (another type, length or content - all admitted by the "
                                   "property) makes them raise instead of returning the value as serialized")
    lazy.emit(ctx, "R2", "DOM", f, "no pretty function evaluated unless pretty is on",
              "every evaluation of a pretty-function table entry lies on paths on which `pretty` holds", loop,
              "no application of a pretty-function table entry found")
    # ---------------------------------------------------------------- R2: key per index_type
    N, C = _expr("index_type == 'name'"), _expr("index_type == 'const'")
    kscen = [("name", [(N, True)], f"{sv}.index.name"), ("const", [(N, False), (C, True)], f"{sv}.index.value"), ("enum", [(N, False), (C, False)], f"{sv}.index")]
    kagg = _Agg()
    for p, k, _v in judged:
        ent = _entangled(p.facts, {("eq", "index_type")}, ("index_type",))
        for label, tests, wantk in kscen:
            if not _consistent(ctx, p.facts, tests):
                continue
            if ent is not None:
                kagg.add(None, f"the path is selected by `{ent}`, which the rule cannot relate to index_type")
                continue
            stale = _read_before_assignment(k, plain)
            if stale:
                if label == "enum" and _lookup(p.facts, ("eq", "index_type", ("str", "enum"))) is False:
                    kagg.add(None, f"the key `{src(k)[:60]}` is not assigned for an index_type that is none of the documented values")
                    continue
                kagg.add(False, f"index_type={label}: the key `{src(k)[:60]}` reads local `{stale[0]}` before any assignment of the same iteration: "
                                f"the entry is stored under the key computed for the previous record (UnboundLocalError for the first record)")
                continue
            base, fallback = k, False
            if isinstance(k, ast.BoolOp) and isinstance(k.op, ast.Or):
                base, fallback = k.values[0], True
            nm = f"{sv}.index.name"
            if src(base) == wantk:
                if label == "name" and not fallback and _lookup(p.facts, ("t", nm)) is not True and _lookup(p.facts, ("none", nm)) is not False:
                    kagg.add(False, f"index_type=name: key `{src(k)}` has no synthetic fallback for unknown indices (their name is None)")
                else:
                    kagg.add(True)
            elif label == "name" and (_lookup(p.facts, ("t", nm)) is False or _lookup(p.facts, ("none", nm)) is True):
                kagg.add(True)  # the synthetic-name path of an unknown index
            elif _opaque(ctx, f, k, locals_) or any(isinstance(n, ast.Call) for n in ast.walk(base)):
                kagg.add(None, f"index_type={label}: key `{src(k)}` is not an attribute chain of the setting")
            else:
                kagg.add(False, f"index_type={label}: key is `{src(k)}`, required `{wantk}`")
    kagg.emit(ctx, "R2", "AGREE", f, "key by index_type", "name->index.name (with fallback), const->index.value, otherwise the enum", loop)


def _settings_tuple(ctx):
    init = ctx.repo.func("beacon.BeaconConfig.__init__")
    text = "self.settings_tuple = tuple(iter_settings(config_block))"
    sites = []
    for st in statements(init.node):
        tgts = st.targets if isinstance(st, ast.Assign) else [st.target] if isinstance(st, ast.AnnAssign) and st.value is not None else []
        if any(dotted(t) == "self.settings_tuple" for t in tgts):
            sites.append(st)
    if len(sites) != 1:
        ctx.undecided("R4", "AGREE", init, text, f"expected one assignment of self.settings_tuple in __init__, found {len(sites)}", init.node)
        return
    v = inline(init.node, sites[0].value)

    def is_parse(e):
        if not isinstance(e, ast.Call):
            return False
        d = dotted(e.func)
        s = ctx.rs.lookup_dotted(init.module.name, d) if d else None
        return s is not None and s.kind == "func" and s.fq == "beacon.iter_settings"

    calls = [n for n in ast.walk(v) if is_parse(n)]
    if not calls:
        ctx.undecided("R4", "AGREE", init, text, f"settings_tuple is built as `{src(v)}`: no call of iter_settings found", sites[0])
        return
    how, enum = _order_of(v, is_parse)
    b = bind_args(calls[0], ctx.repo.func("beacon.iter_settings").node)
    arg = next(iter(b.values()), None)
    pinit = params(init.node)
    arg_ok = arg is not None and len(pinit) > 1 and dotted(arg) == pinit[1]
    is_tuple = isinstance(v, ast.Call) and dotted(v.func) == "tuple"
    if how == "same" and not enum and is_tuple:
        ctx.ob("R4", "AGREE", init, text, arg_ok, "settings tuple is the parser's output in order" if arg_ok else f"iter_settings is applied to `{src(arg)}`, not to the config block parameter", sites[0])
    elif how == "changed":
        ctx.ob("R4", "AGREE", init, text, False, f"settings_tuple = `{src(v)}` does not keep the parser's output order", sites[0])
    else:
        ctx.undecided("R4", "AGREE", init, text, f"settings_tuple = `{src(v)}`: cannot tell whether it is the parser's output in order", sites[0])


# ============================================================================================ cardinality classes
_REC = ("rec",)
_LEN_KEEPING = ("tuple", "list", "iter", "enumerate", "reversed", "sorted")


def _is_property(fn):
    return any((dotted(d) or "").split(".")[-1] in ("property", "cached_property") for d in fn.decorator_list)


def _card(ctx, f, t, depth=0):
    """Cardinality class of the sequence obtained by iterating term t (abstract length domain, symbolic in the number of
    records n and the number of distinct keys of a settings mapping): ("rec",) = exactly one element per on-disk record
    (self.settings_tuple and what is derived from it element by element); ("keys", index_type) = one element per
    *distinct* key of a settings mapping of that index_type (a view, settings_map(..), their keys()/values()/items());
    None = not understood."""
    if depth > 6 or t is None:
        return None
    rec = lambda x: _card(ctx, f, x, depth + 1)  # noqa: E731
    d = dotted(t)
    if d == "self.settings_tuple":
        return _REC
    if d is not None:
        if d.startswith("self.") and d.count(".") == 1 and f.cls:
            name = d.split(".")[1]
            if name in VIEWS:
                return ("keys", VIEWS[name][0])
            p = f.module.funcs.get(f"{f.cls}.{name}")
            if p is not None and p.cls == f.cls and isinstance(p.node, ast.FunctionDef) and _is_property(p.node) and p.node is not f.node:
                try:
                    outs = _Exec(ctx, p).run(p.node.body, _St())
                except _Unmodelled:
                    return None
                classes = {_card(ctx, p, o.ret, depth + 1) for o in outs if o.done != "raise"}
                return classes.pop() if len(classes) == 1 else None
        return None
    if isinstance(t, (ast.ListComp, ast.GeneratorExp)):
        g = t.generators
        if len(g) == 1 and not g[0].ifs and not g[0].is_async:
            return rec(g[0].iter)
        return None
    if isinstance(t, ast.Subscript) and isinstance(t.slice, ast.Slice) and t.slice.lower is None and t.slice.upper is None and t.slice.step is None:
        return rec(t.value)
    if not isinstance(t, ast.Call) or any(isinstance(a, ast.Starred) for a in t.args):
        return None
    fd = dotted(t.func)
    if fd == "self.settings_map":
        try:
            b = bind_args(t, ctx.repo.func("beacon.BeaconConfig.settings_map").node, skip_self=True)
            return ("keys", const_eval(b["index_type"]))
        except Exception:
            return ("keys", None)
    if fd in _LEN_KEEPING and len(t.args) == 1:
        return rec(t.args[0])
    if fd == "map" and len(t.args) == 2 and not t.keywords:
        return rec(t.args[1])
    if fd == "range" and len(t.args) == 1 and isinstance(t.args[0], ast.Call) and dotted(t.args[0].func) == "len" and len(t.args[0].args) == 1:
        return rec(t.args[0].args[0])
    if fd == "zip" and t.args:
        classes = {rec(a) for a in t.args}
        return classes.pop() if len(classes) == 1 else None
    if isinstance(t.func, ast.Attribute) and t.func.attr in ("values", "keys", "items") and not t.args and not t.keywords:
        c = rec(t.func.value)
        return c if c is not None and c[0] == "keys" else None
    return None


def _mispaired(ctx, f, t):
    """Positional pairings (zip / map over several iterables) inside term t that pair a per-record sequence with the
    entries of a key-indexed settings mapping (lemma L4: their lengths differ as soon as a key occurs twice)."""
    out = []
    for n in ast.walk(t) if t is not None else ():
        if not isinstance(n, ast.Call):
            continue
        fd = dotted(n.func)
        if fd in ("zip", "itertools.zip_longest", "zip_longest") and len(n.args) >= 2:
            its = n.args
        elif fd == "map" and len(n.args) >= 3:
            its = n.args[1:]
        else:
            continue
        classes = [(a, _card(ctx, f, a)) for a in its]
        recs = [a for a, c in classes if c == _REC]
        keys = [a for a, c in classes if c is not None and c[0] == "keys"]
        if recs and keys:
            out.append(f"`{src(n)[:110]}` pairs `{src(recs[0])[:50]}` (one element per on-disk record) position by position with `{src(keys[0])[:50]}` "
                       "(one entry per distinct key): as soon as a setting index occurs twice the mapping is shorter and every later "
                       "record is paired with the entry of a following one")
    return out


# ============================================================================================ R3: cached views
def _view(ctx, f, smap, itype, pretty):
    """(verdict, detail, slot) for one cached view."""
    ex = _Exec(ctx, f)
    try:
        outs = ex.run(f.node.body, _St())
    except _Unmodelled as e:
        return None, f"shape not modelled ({e})", None
    paths = [o for o in outs if o.done != "raise"]
    # a view assembled by positional pairing: the paired sequences must have one element per record each
    seen = set()
    for o in paths:
        for t in [o.ret] + [s[-1] for s in o.stores] + list(o.effects):
            key = getattr(t, "_tok", None) or (src(t) if t is not None else None)
            if t is None or key in seen:
                continue
            seen.add(key)
            mis = _mispaired(ctx, f, t)
            if mis:
                slots = {s[1] for p in paths for s in p.stores if s[0] == "attr" and s[1].startswith("self.")}
                return False, mis[0], next(iter(slots)) if len(slots) == 1 else None

    def sm_calls(o):
        seen, out = set(), []
        for t in [o.ret] + [s[-1] for s in o.stores] + list(o.effects):
            if t is None:
                continue
            for n in ast.walk(t):
                if isinstance(n, ast.Call) and dotted(n.func) == "self.settings_map":
                    k = getattr(n, "_tok", None) or src(n)
                    if k not in seen:
                        seen.add(k)
                        out.append(n)
        return out

    def same(a, b):
        ta, tb = getattr(a, "_tok", None), getattr(b, "_tok", None)
        return (ta is not None and ta == tb) or (ta is None and tb is None and src(a) == src(b))

    fill = [(o, sm_calls(o)) for o in paths if sm_calls(o)]
    hit = [o for o in paths if not sm_calls(o)]
    if not fill:
        return None, "no path calls self.settings_map: the view is computed in a way the rule does not model", None
    if any(o.done is None for o in paths):
        return False, "a path reaches the end of the property without returning the mapping", None
    slots = set()
    for o in hit:
        d = dotted(o.ret)
        if d and d.startswith("self."):
            slots.add(d)
        elif is_none(o.ret):
            return False, "a path returns None instead of the mapping", None
        else:
            return None, f"a path returns `{src(o.ret)}` without calling settings_map: not modelled", None
    for o, calls in fill:
        for s in o.stores:
            if s[0] == "attr" and s[1].startswith("self.") and any(same(s[2], c) for c in calls):
                slots.add(s[1])
    if len(slots) > 1:
        return False, f"the view fills/returns different cache slots {sorted(slots)}", None
    slot = next(iter(slots), None)
    got = None
    for o, calls in fill:
        if len(calls) != 1:
            return None, "a path calls settings_map more than once", slot
        call = calls[0]
        b = bind_args(call, smap.node, skip_self=True)
        if any(b.get(k) is None for k in ("index_type", "pretty", "parse")):
            return None, f"arguments of `{src(call)}` cannot be bound", slot
        try:
            got = (const_eval(b["index_type"]), bool(const_eval(b["pretty"])), bool(const_eval(b["parse"])))
        except Exception:
            return None, f"arguments of `{src(call)}` are not constants", slot
        if got != (itype, pretty, True):
            return False, f"settings_map(index_type, pretty, parse)={got}; required {(itype, pretty, True)}", slot
        if not same(o.ret, call):
            return False, f"the filling path returns `{src(o.ret)}`, not the mapping it just computed", slot
        if slot is not None:
            if not any(s[0] == "attr" and s[1] == slot and same(s[2], call) for s in o.stores):
                return False, f"the computed mapping is not stored in {slot}", slot
            empty = _lookup(o.facts, ("none", slot)) is True or _lookup(o.facts, ("t", slot)) is False
            if not empty:
                return False, f"{slot} is recomputed on a path that has not established `{slot} is None`", slot
    for o in hit:
        if _lookup(o.facts, ("none", slot)) is not False and _lookup(o.facts, ("t", slot)) is not True:
            return False, f"a path returns {slot} without having established that it is filled", slot
    if slot is None:
        return None, f"settings_map(index_type, pretty, parse)={got} as required, but no cache slot could be located", None
    return True, f"returns {slot}; filled only when `{slot} is None` with settings_map(index_type, pretty, parse)={got} required {(itype, pretty, True)}", slot


def r3(ctx):
    smap = ctx.repo.func("beacon.BeaconConfig.settings_map")
    slots, unknown = {}, []
    for name, (itype, pretty) in VIEWS.items():
        f = ctx.repo.func(f"beacon.BeaconConfig.{name}")
        verdict, detail, slot = _view(ctx, f, smap, itype, pretty)
        if slot is not None:
            slots[name] = slot
        else:
            unknown.append(name)
        if verdict is None:
            ctx.undecided("R3", "AGREE", f, name, detail, f.node)
        else:
            ctx.ob("R3", "AGREE", f, name, verdict, detail, f.node)
    dup = len(set(slots.values())) != len(slots)
    if dup or not unknown:
        ctx.ob("R3", "AGREE", "beacon.py::BeaconConfig", "cache slots distinct", not dup, f"cache slots per view: {slots}")
    else:
        ctx.undecided("R3", "AGREE", "beacon.py::BeaconConfig", "cache slots distinct", f"cache slots located: {slots}; not located for {unknown}")
    # the cache slots start empty
    init = ctx.repo.func("beacon.BeaconConfig.__init__")
    inits = {}
    for s in statements(init.node):
        tgts = s.targets if isinstance(s, ast.Assign) else [s.target] if isinstance(s, ast.AnnAssign) and s.value is not None else []
        for t in tgts:
            if dotted(t):
                inits.setdefault(dotted(t), []).append(inline(init.node, s.value))
    cattrs = ctx.repo.class_attrs("beacon.BeaconConfig")
    bad, missing = [], []
    for sl in sorted(set(slots.values())):
        vals = list(inits.get(sl, []))
        if not vals and sl.split(".", 1)[1] in cattrs:
            vals = [cattrs[sl.split(".", 1)[1]]]
        if not vals:
            missing.append(sl)
        elif not all(is_none(v) for v in vals):
            bad.append(sl)
    text = "cache slots initialised to None"
    if bad:
        ctx.ob("R3", "AGREE", init, text, False, f"slots {bad} do not start as None", init.node)
    elif missing or not slots:
        ctx.undecided("R3", "AGREE", init, text, f"no initialisation found for {missing or 'any slot'}", init.node)
    else:
        ctx.ob("R3", "AGREE", init, text, True, f"slots {sorted(set(slots.values()))} start as None", init.node)


# ============================================================================================ R5 / R6: iter_settings
def _peek2(e):
    """(stream dotted name, consuming) if e is a 2-byte look at a stream: s.read(2) / s.read(2)[:2] / s.peek(2)[:2]."""
    if isinstance(e, ast.Subscript) and isinstance(e.slice, ast.Slice) and e.slice.step is None and (e.slice.lower is None or is_const(e.slice.lower, 0)):
        if _c(e.slice.upper) != 2:
            return None
        e = e.value
    if isinstance(e, ast.Call) and isinstance(e.func, ast.Attribute) and e.func.attr in ("read", "peek") and len(e.args) == 1 and not e.keywords \
            and _c(e.args[0]) == 2 and dotted(e.func.value):
        return dotted(e.func.value), e.func.attr == "read"
    return None


def _peekk(e):
    """(stream dotted name, consuming, k) if e looks at the next k >= 2 bytes of a stream: s.read(k) / s.read(k)[:k] /
    s.peek(k)[:k] for a constant k."""
    k = None
    if isinstance(e, ast.Subscript) and isinstance(e.slice, ast.Slice) and e.slice.step is None and (e.slice.lower is None or is_const(e.slice.lower, 0)):
        k = _c(e.slice.upper)
        if not isinstance(k, int) or isinstance(k, bool):
            return None
        e = e.value
    if isinstance(e, ast.Call) and isinstance(e.func, ast.Attribute) and e.func.attr in ("read", "peek") and len(e.args) == 1 and not e.keywords \
            and dotted(e.func.value):
        n = _c(e.args[0])
        if not isinstance(n, int) or isinstance(n, bool) or n < 2 or (k is not None and k != n) or (k is None and e.func.attr == "peek"):
            return None
        return dotted(e.func.value), e.func.attr == "read", n
    return None


_Z_BUILTINS = ("len", "bool", "int", "bytes", "bytearray", "min", "max", "abs", "ord")
_Z_HEAD = "__record_head__"


class _ZeroIndex:
    """R5 "a zero index alone ends the settings".

    Named scenario (the terminator clause of the property): *the record at the cursor when an iteration of the parse
    loop starts has index 0* - its type, length, value and every byte after it are arbitrary (quantifier of the
    property: any terminator/padding/trailing bytes).  Necessary condition: under the scenario no control-flow path of
    that iteration reaches a `yield` or the loop header again (= the decoding of a further record).

    The CFG of the loop is walked once per path with symbolic branch facts (`_split`), nothing is executed.  What the
    scenario determines, in the vocabulary of the code:
      * a k-byte look at the stream taken at offset 0 of the record (`_peekk`) starts with the two index bytes 00 00;
      * the struct parsed at offset 0 is that record: its first field (`index`) is 0, it is not None.
    The offset of the cursor relative to the record start is a value of the flat domain Z u {unknown} with the
    transfer rules read(k): +k, peek/tell: +0, seek(c, SEEK_CUR): +c, seek(<name bound to tell() at offset o>): o,
    anything else: unknown.  Comparisons between a scenario subject and a *literal of the code* are folded (lemmas Z1-Z5
    of the module docstring); every other atom is decided both ways.  A both-ways decision is *free by the quantifier*
    (-> a path through it is a genuine counterexample) only when the atom is built from the other fields of the
    record, the truth value of the parsed structure as a whole (summary S2), bytes of the look-ahead behind the index
    and further reads of the stream; a path that needs any other atom makes the verdict undecided, not violated."""

    MAXSTATES = 6000

    def __init__(self, ctx, f, cfg, loop, parse, pst, sname):
        self.ctx, self.f, self.cfg, self.loop, self.parse, self.pst, self.sname = ctx, f, cfg, loop, parse, pst, sname
        arg = parse.args[0] if parse.args and not isinstance(parse.args[0], ast.Starred) else None
        self.stream = dotted(arg) if arg is not None else None
        cd = ctx.cdefs("beacon").get("cs_struct")
        try:
            fields = [x.name for x in cd.struct("Setting").fields] if cd is not None else []
        except (KeyError, AttributeError):
            fields = []
        self.idx = fields[0] if fields else "index"
        self.free_fields = set(fields[1:]) if fields else {"type", "length", "value"}
        self.inside = {id(s) for s in ast.walk(loop)}
        self.header = cfg.node(loop)
        self.nforced = 0
        self._behind = set()  # terms of the stream reads of the test being decided that start behind the index bytes
        stop = {sname} if sname else set()
        for s in statements(f.node):
            if isinstance(s, ast.Assign) and len(s.targets) == 1 and isinstance(s.targets[0], ast.Name):
                v = s.value
                if _peekk(v) is not None or (isinstance(v, ast.Call) and isinstance(v.func, ast.Attribute) and v.func.attr == "tell"):
                    stop.add(s.targets[0].id)
        self.stop = frozenset(stop)
        self.reads = []  # terms of the look-ahead shaped reads of the function (outermost shape per read)
        inner = set()
        for x in body_walk(f.node):
            if _peekk(x) is not None and id(x) not in inner:
                self.reads.append(src(x))
                if isinstance(x, ast.Subscript):
                    inner.add(id(x.value))

    # ---------------------------------------------------------------- stream operations of a statement / test
    def _ops(self, exprs):
        ops = []
        for e in exprs:
            todo = [e]
            while todo:
                n = todo.pop()
                if isinstance(n, (ast.Lambda, ast.FunctionDef, ast.AsyncFunctionDef)):
                    continue
                todo.extend(ast.iter_child_nodes(n))
                if not isinstance(n, ast.Call):
                    continue
                if n is self.parse:
                    ops.append(("parse", n))
                elif isinstance(n.func, ast.Attribute) and dotted(n.func.value) == self.stream:
                    ops.append((n.func.attr, n))
                elif any(dotted(a) == self.stream for a in list(n.args) + [k.value for k in n.keywords]):
                    ops.append(("escape", n))
        if len(ops) > 1:
            if any(getattr(o[1], "end_lineno", None) is None for o in ops):
                return [("escape", ops[0][1])]
            ops.sort(key=lambda o: (o[1].end_lineno, o[1].end_col_offset))
        return ops

    def _move(self, ops, off, tells, sval):
        """cursor offset / validity of the parsed record after the stream operations `ops`"""
        for kind, c in ops:
            if kind in ("peek", "tell", "seekable", "readable"):
                continue
            if kind == "read":
                k = _c(c.args[0]) if len(c.args) == 1 and not c.keywords else None
                off = off + k if off is not None and isinstance(k, int) and not isinstance(k, bool) and k >= 0 else None
            elif kind == "seek":
                b = {"offset": c.args[0] if c.args else None, "whence": c.args[1] if len(c.args) > 1 else None}
                for k in c.keywords:
                    if k.arg in b:
                        b[k.arg] = k.value
                wh, o = b["whence"], b["offset"]
                cur = wh is not None and (dotted(wh) in ("io.SEEK_CUR", "os.SEEK_CUR", "SEEK_CUR") or _c(wh) == 1)
                absolute = wh is None or dotted(wh) in ("io.SEEK_SET", "os.SEEK_SET", "SEEK_SET") or (isinstance(wh, ast.Constant) and wh.value == 0)
                k = self._seek_const(o) if o is not None else None
                if cur and off is not None and isinstance(k, int) and not isinstance(k, bool):
                    off = off + k
                elif absolute and isinstance(o, ast.Name) and o.id in dict(tells):
                    off = dict(tells)[o.id]
                else:
                    off = None
            elif kind == "parse":
                sval = off == 0 and self.sname is not None
                off = None
            else:
                off = None
        return off, sval

    def _seek_const(self, o):
        """the constant a seek offset expression denotes (None: not a constant of the code)"""
        return _c(inline(self.f.node, o, stop=self.stop))

    # ---------------------------------------------------------------- folding the scenario into a test
    def _is_idx(self, e, sval):
        if not sval:
            return False
        if isinstance(e, ast.Call) and dotted(e.func) == "int" and len(e.args) == 1 and not e.keywords:
            return self._is_idx(e.args[0], sval)
        return dotted(e) in (f"{self.sname}.{self.idx}", f"{self.sname}.{self.idx}.value")

    def _pk(self, e, pk, direct):
        """k if e is a look at the first k bytes of the scenario record (a bound name or the look-ahead of this test)"""
        if isinstance(e, ast.Name) and e.id in pk:
            return pk[e.id]
        if direct is not None and src(e) == direct[0]:
            return direct[1]
        if isinstance(e, (ast.Call, ast.Subscript)) and pk:
            return pk.get("=" + src(e))
        return None

    def _val(self, e, sval, pk, direct):
        """(python value, is a scenario subject) of an operand the scenario or the code fixes, else None"""
        if self._is_idx(e, sval):
            return 0, True
        k = self._pk(e, pk, direct)
        if k == 2:
            return b"\x00\x00", True
        if isinstance(e, ast.Subscript) and isinstance(e.slice, ast.Slice) and e.slice.step is None and (e.slice.lower is None or is_const(e.slice.lower, 0)) \
                and _c(e.slice.upper) == 2 and (self._pk(e.value, pk, direct) or 0) >= 2:
            return b"\x00\x00", True
        if isinstance(e, ast.Call) and dotted(e.func) == "len" and len(e.args) == 1 and not e.keywords and self._pk(e.args[0], pk, direct) == 2:
            return 2, True
        ic = _int_conv(self.ctx, self.f, e) if isinstance(e, ast.Call) else None
        if ic is not None:
            # Z5: an integer made of index bytes only (any byte order, signed or not) is 0
            data, size = ic[3], ic[0]
            if isinstance(data, ast.Subscript) and isinstance(data.slice, ast.Slice) and data.slice.step is None \
                    and (data.slice.lower is None or is_const(data.slice.lower, 0)) and isinstance(_c(data.slice.upper), int) and size is None:
                data, size = data.value, _c(data.slice.upper)
            k = self._pk(data, pk, direct)
            if k is not None and (k == 2 or (isinstance(size, int) and not isinstance(size, bool) and 0 < size <= 2)):
                return 0, True
        cv = _cv(self.ctx, e)
        if cv is not None:
            return cv[1], False
        return None

    def _fold(self, t, boolpos, sval, pk, direct):
        """t with every comparison between a scenario subject and a literal of the code replaced by its outcome
        (Z1-Z4); operands in boolean position likewise.  Builds new nodes, never mutates t."""
        rec = lambda x, bp: self._fold(x, bp, sval, pk, direct)  # noqa: E731
        if isinstance(t, ast.UnaryOp) and isinstance(t.op, ast.Not):
            return ast.UnaryOp(op=ast.Not(), operand=rec(t.operand, True))
        if isinstance(t, ast.BoolOp):
            return ast.BoolOp(op=t.op, values=[rec(v, True) for v in t.values])
        if boolpos and isinstance(t, ast.Call) and dotted(t.func) == "bool" and len(t.args) == 1 and not t.keywords:
            return rec(t.args[0], True)
        if isinstance(t, ast.Compare) and len(t.ops) == 1:
            l, op, r = t.left, t.ops[0], t.comparators[0]
            if isinstance(op, (ast.In, ast.NotIn)) and isinstance(r, (ast.Tuple, ast.List, ast.Set)) and r.elts:
                ors = ast.BoolOp(op=ast.Or(), values=[ast.Compare(left=l, ops=[ast.Eq()], comparators=[x]) for x in r.elts])
                ors = rec(ors, True)
                return ors if isinstance(op, ast.In) else ast.UnaryOp(op=ast.Not(), operand=ors)
            a, b = self._val(l, sval, pk, direct), self._val(r, sval, pk, direct)
            if a is not None and b is not None and (a[1] or b[1]):
                x, y = a[0], b[0]
                same = type(x) is type(y) or (isinstance(x, int) and isinstance(y, int))
                out = None
                if isinstance(op, (ast.Eq, ast.NotEq)):
                    out = (same and x == y) == isinstance(op, ast.Eq)
                elif same and isinstance(x, int) and isinstance(op, (ast.Lt, ast.LtE, ast.Gt, ast.GtE)):
                    out = {ast.Lt: x < y, ast.LtE: x <= y, ast.Gt: x > y, ast.GtE: x >= y}[type(op)]
                if out is not None:
                    self.nforced += 1
                    return ast.Constant(value=bool(out))
            # a look at more than the index bytes compared with a literal: the bytes behind the index are free
            if isinstance(op, (ast.Eq, ast.NotEq)):
                for p, q in ((l, r), (r, l)):
                    k, c = self._pk(p, pk, direct), _c(q)
                    if k is not None and k > 2 and isinstance(c, bytes) and len(c) >= 2:
                        if c[:2] != b"\x00\x00":
                            self.nforced += 1
                            return ast.Constant(value=isinstance(op, ast.NotEq))
                        if len(c) == k:
                            self.nforced += 1
                            return ast.Compare(left=ast.Name(id=_Z_HEAD, ctx=ast.Load()), ops=[op], comparators=[ast.Constant(value=c)])
                    # ... likewise an integer made of more bytes than the index compared with zero (all of them zero)
                    ic = _int_conv(self.ctx, self.f, p) if isinstance(p, ast.Call) else None
                    if ic is not None and self._val(p, sval, pk, direct) is None and isinstance(_c(q), int) and _c(q) == 0:
                        k = self._pk(ic[3], pk, direct)
                        size = ic[0] if isinstance(ic[0], int) and not isinstance(ic[0], bool) else k
                        if k is not None and k > 2 and size is not None and size > 2:
                            self.nforced += 1
                            return ast.Compare(left=ast.Name(id=_Z_HEAD, ctx=ast.Load()), ops=[op], comparators=[ast.Constant(value=b"\x00" * min(k, size))])
            return t
        if boolpos:
            a = self._val(t, sval, pk, direct)
            if a is not None and a[1]:
                self.nforced += 1
                return ast.Constant(value=bool(a[0]))
        return t

    def _not_understood(self, t, sval, pk, direct, boolpos=True):
        """Why a both-ways decision on (an atom of) the folded test t is not free by the quantifier; None if it is."""
        if isinstance(t, ast.Constant):
            return None
        if isinstance(t, ast.UnaryOp):
            return self._not_understood(t.operand, sval, pk, direct, isinstance(t.op, ast.Not))
        if isinstance(t, ast.BoolOp):
            for v in t.values:
                w = self._not_understood(v, sval, pk, direct, True)
                if w:
                    return w
            return None
        if self._is_idx(t, True) or self._pk(t, pk, direct) is not None:
            return f"`{src(t)[:50]}` is used in a form the scenario does not determine"
        if isinstance(t, (ast.Attribute, ast.Name)) and _cv(self.ctx, t) is not None:
            return None
        if isinstance(t, ast.Name):
            if t.id == _Z_HEAD:
                return None
            if t.id == self.sname:
                # S2: the truth value of the structure as a whole depends on every field
                return None if boolpos and sval else f"`{t.id}` is used as a whole"
            return f"local `{t.id}` carries a value the scenario does not determine"
        if isinstance(t, ast.Attribute):
            if isinstance(t.value, ast.Name) and t.value.id == self.sname:
                return None if sval and t.attr in self.free_fields else f"`{src(t)}` is not a field the scenario leaves free"
            if dotted(t.value) == self.stream:
                # bytes behind the parsed record are free; a read before the parse may look at the index bytes themselves
                return None if sval else f"`{src(t)}` before the record is parsed may look at the index bytes"
            return self._not_understood(t.value, sval, pk, direct, False)
        if isinstance(t, ast.Call):
            fn = t.func
            if isinstance(fn, ast.Name):
                if fn.id not in _Z_BUILTINS:
                    return f"call of `{fn.id}`"
            elif isinstance(fn, ast.Attribute) and dotted(fn.value) == self.stream and src(t) in self._behind:
                pass  # a read of this very test that starts behind the index bytes (Z3)
            elif isinstance(fn, ast.Attribute):
                w = self._not_understood(fn, sval, pk, direct, False)
                if w:
                    return w
            else:
                return "call of a computed callable"
            for a in list(t.args) + [k.value for k in t.keywords]:
                w = self._not_understood(a, sval, pk, direct, False)
                if w:
                    return w
            return None
        if isinstance(t, (ast.Compare, ast.BinOp, ast.Subscript, ast.Slice, ast.Tuple, ast.List)):
            for c in ast.iter_child_nodes(t):
                if isinstance(c, ast.expr):
                    w = self._not_understood(c, sval, pk, direct, False)
                    if w:
                        return w
            return None
        return f"`{src(t)[:50]}` is not modelled"

    # ---------------------------------------------------------------- path walk
    @staticmethod
    def _say(key, val):
        if key[0] == "t":
            return f"`{key[1]}` is {'truthy' if val else 'falsy'}"
        if key[0] == "eq":
            what = "the look-ahead at the record start" if key[1] == _Z_HEAD else f"`{key[1]}`"
            return f"{what} {'==' if val else '!='} {key[2][1]!r}"
        if key[0] == "none":
            return f"`{key[1]}` is {'' if val else 'not '}None"
        return f"`{key[1]} < {key[2]}` is {val}"

    def _decide(self, test, st):
        """[(label, state)] for the outcomes of a branch test that are possible under the scenario"""
        node, facts, pk, tells, sval, off, certain = st
        ops = self._ops([test])
        direct = None
        if len(ops) == 1 and off == 0 and ops[0][0] in ("read", "peek"):
            for n in ast.walk(test):
                p = _peekk(n)
                if p is not None and p[0] == self.stream and (direct is None or isinstance(n, ast.Subscript)):
                    direct = (src(n), p[2])
        off2, sval2, self._behind = off, sval, set()
        for op in ops:
            if off2 is not None and off2 >= 2 and op[0] not in ("parse", "escape"):
                self._behind.add(src(op[1]))
            off2, sval2 = self._move([op], off2, tells, sval2)
        t = self._fold(inline(self.f.node, test, stop=self.stop), True, sval, dict(pk), direct)
        why = self._not_understood(t, sval, dict(pk), direct)
        fd = dict(facts)
        out = []
        for want, label in ((True, "true"), (False, "false")):
            for g in _split(self.ctx, t, fd, want):
                new = [k for k in g if k not in fd]
                note = tuple(self._say(k, g[k]) for k in new)
                out.append((label, (None, frozenset(g.items()), pk, tells, sval2, off2, certain and not (new and why)), note, why if new else None))
        return out

    def _arrive(self, n, st):
        """state after the statement of node n has completed normally"""
        _node, facts, pk, tells, sval, off, certain = st
        s = self.cfg.stmt.get(n)
        if s is None or isinstance(s, (ast.If, ast.While, ast.For, ast.AsyncFor, ast.Try, ast.ExceptHandler)) or s.__class__.__name__ == "TryStar":
            return (n, facts, pk, tells, sval, off, certain)
        exprs = [i.context_expr for i in s.items] if isinstance(s, (ast.With, ast.AsyncWith)) else [s]
        ops = self._ops(exprs)
        before = off
        off, sval = self._move(ops, off, tells, sval)
        pkd, td, fd = dict(pk), dict(tells), dict(facts)
        stored = [x for e in exprs for x in ast.walk(e) if isinstance(x, (ast.Name, ast.Attribute)) and isinstance(x.ctx, ast.Store)]
        for x in stored:
            if isinstance(x, ast.Name):
                pkd.pop(x.id, None)
                td.pop(x.id, None)
                word = re.compile(r"(?<![\w.])" + re.escape(x.id) + r"(?!\w)")
                for k in [k for k in fd if any(isinstance(p, str) and word.search(p) for p in k[1:])]:
                    del fd[k]
                if x.id == self.sname:
                    fd.pop(("none", self.sname), None)
                    if s is not self.pst:
                        sval = False
            elif dotted(x) == f"{self.sname}.{self.idx}":
                sval = False
        if s is self.pst and sval:
            fd[("none", self.sname)] = False  # Z4: the result of a struct parse is an instance
        if isinstance(s, (ast.Assign, ast.AnnAssign)) and isinstance(s.value, ast.Constant) and not isinstance(s.value.value, (bytes, str)):
            # a flag set to a literal: its truth value / None-ness is a fact of the path from here on
            for tg in (s.targets if isinstance(s, ast.Assign) else [s.target]):
                if isinstance(tg, ast.Name):
                    fd[("t", tg.id)] = bool(s.value.value)
                    fd[("none", tg.id)] = s.value.value is None
        if isinstance(s, ast.Assign) and len(s.targets) == 1 and isinstance(s.targets[0], ast.Name) and len(ops) == 1:
            p = _peekk(s.value)
            if p is not None and p[0] == self.stream and before == 0:
                pkd[s.targets[0].id] = p[2]
            elif p is None and before == 0 and ops[0][0] in ("read", "peek"):
                # the look-ahead is an operand of the assigned value (`number = conv(stream.read(2))`): remember it by its
                # term - temporaries are substituted into the tests - provided the term denotes one read only
                inner = None
                for x in ast.walk(s.value):
                    q = _peekk(x)
                    if q is not None and q[0] == self.stream and (inner is None or isinstance(x, ast.Subscript)):
                        inner = (src(x), q[2])
                if inner is not None and self.reads.count(inner[0]) == 1:
                    pkd["=" + inner[0]] = inner[1]
            v = s.value
            if isinstance(v, ast.Call) and v is ops[0][1] and ops[0][0] == "tell" and before is not None:
                td[s.targets[0].id] = before
        return (n, frozenset(fd.items()), frozenset(pkd.items()), frozenset(td.items()), sval, off, certain)

    def _outside(self, n):
        if n[0] not in ("s", "e", "fin") or n[1] not in self.inside:
            return True
        return n[0] == "e" and n[1] == id(self.loop) and n[2] in ("false", "exhaust")

    def _yields(self, n):
        s = self.cfg.stmt.get(n)
        if s is None or isinstance(s, (ast.If, ast.While, ast.For, ast.AsyncFor, ast.Try, ast.ExceptHandler, ast.With, ast.AsyncWith)):
            return False
        return any(isinstance(x, (ast.Yield, ast.YieldFrom)) for x in ast.walk(s))

    def walk(self):
        """(bad, aborted): bad = [(certain, what is reached, free decisions on the path, reason of uncertainty)]"""
        start = (self.header, frozenset(), frozenset(), frozenset(), False, 0, True)
        seen, stack = {start}, [(start, (), None)]
        bad = []
        while stack:
            st, notes, unsure = stack.pop()
            n = st[0]
            s = self.cfg.stmt.get(n)
            if isinstance(s, (ast.If, ast.While)):
                nexts = []
                for label, st2, note, why in self._decide(s.test, st):
                    e = self.cfg.edge_node(s, label)
                    if st is start:
                        # premise of the scenario: an iteration starts (what the loop test needs for that is assumed)
                        if label != "true":
                            continue
                        st2, note, why = st2[:6] + (True,), (), None
                    if self.cfg.g.has_edge(n, e):
                        nexts.append((e, st2, notes + note, unsure or why))
            else:
                nexts = []
                for y in self.cfg.g.successors(n):
                    st2, w = st, unsure
                    if isinstance(s, (ast.For, ast.AsyncFor)) and y[0] == "e":
                        off, sval = self._move(self._ops([s.iter]), st[5], st[3], st[4])
                        if st is start:
                            if y[2] != "iter":
                                continue  # premise of the scenario: an iteration starts
                            st2 = st[:4] + (sval, off, True)
                        else:
                            st2 = st[:4] + (sval, off, False)
                            w = w or "a `for` loop whose trip count the scenario does not determine"
                    nexts.append((y, st2, notes, w))
            for y, st2, nt, w in nexts:
                if self._outside(y):
                    continue
                if y == self.header:
                    if isinstance(self.loop, ast.While):
                        # the loop test is evaluated again: only entering the body again decodes a further record
                        for label, st4, note, why in self._decide(self.loop.test, (y,) + st2[1:]):
                            if label == "true":
                                bad.append((st4[6], "the next record is decoded", nt + note, w or why))
                    else:
                        bad.append((st2[6], "the next record is decoded", nt, w))
                    continue
                if self._yields(y):
                    bad.append((st2[6], f"`{src(self.cfg.stmt[y])[:40]}` is reached", nt, w))
                    continue
                st3 = self._arrive(y, (y,) + st2[1:])
                if st3 not in seen:
                    seen.add(st3)
                    if len(seen) > self.MAXSTATES:
                        return bad, True
                    stack.append((st3, nt, w))
        return bad, False

    def emit(self):
        ctx, f = self.ctx, self.f
        text = "a zero index alone ends the settings"
        if self.stream is None:
            ctx.undecided("R5", "LOOP", f, text, "the struct parse does not read a named stream: the cursor cannot be followed", self.parse)
            return
        try:
            bad, aborted = self.walk()
        except (KeyError, AttributeError, TypeError, ValueError, IndexError, RecursionError) as e:
            ctx.undecided("R5", "LOOP", f, text, f"the loop has a shape the scenario walk does not model ({type(e).__name__}: {e})", self.loop)
            return
        sure = [b for b in bad if b[0]]
        scen = "scenario `the record at the cursor has index 0` (any type, length, value and trailing bytes)"
        if sure:
            _c0, what, notes, _w = min(sure, key=lambda b: len(b[2]))
            s2 = any(x.startswith(f"`{self.sname}` is ") for x in notes)
            ctx.ob("R5", "LOOP", f, text, False,
                   f"{scen}: {what} " + ("when " + " and ".join(notes[:6]) if notes else "whatever the rest of the record is") + " - the settings do not end at the zero index"
                   + (" (the truth value of a parsed structure depends on all of its fields, not on the index alone)" if s2 else ""), self.loop)
        elif aborted:
            ctx.undecided("R5", "LOOP", f, text, "too many paths through the loop body", self.loop)
        elif bad:
            _c0, what, notes, w = bad[0]
            ctx.undecided("R5", "LOOP", f, text, f"{scen}: {what} on a path whose feasibility is not understood ({w})", self.loop)
        elif not self.nforced:
            ctx.undecided("R5", "LOOP", f, text, "no test of the loop could be related to the index of the record at the cursor", self.loop)
        else:
            ctx.ob("R5", "LOOP", f, text, True, f"{scen}: every path of the iteration leaves the loop before a yield and before the next record", self.loop)


_Z_IDX = "__record_index__"
_Z_REM = "__record_start_to_end_of_data__"
_STREAM_DATA = ("read", "read1", "peek", "readline", "readinto")


def _ival_cmp(lo, hi, op, c):
    """Outcome of `x <op> c` for every x of the interval [lo, hi] (hi None = unbounded), or None if it depends on x."""
    inf = float("inf")
    hi = inf if hi is None else hi
    if isinstance(op, ast.Lt):
        return True if hi < c else False if lo >= c else None
    if isinstance(op, ast.LtE):
        return True if hi <= c else False if lo > c else None
    if isinstance(op, ast.Gt):
        return True if lo > c else False if hi <= c else None
    if isinstance(op, ast.GtE):
        return True if lo >= c else False if hi < c else None
    if isinstance(op, (ast.Eq, ast.NotEq)):
        out = c < lo or c > hi or c != int(c)
        if lo == hi == c:
            return isinstance(op, ast.Eq)
        return isinstance(op, ast.NotEq) if out else None
    return None


_MIRROR = {ast.Lt: ast.Gt, ast.Gt: ast.Lt, ast.LtE: ast.GtE, ast.GtE: ast.LtE, ast.Eq: ast.Eq, ast.NotEq: ast.NotEq}


class _CompleteRecord(_ZeroIndex):
    """R5 "a complete record is always yielded" - the dual of `_ZeroIndex`.

    Named scenario (the clause "yields the settings ... ended by a zero index or end of data"): *when an iteration of the
    parse loop starts, the data at the cursor holds a complete record whose index is not 0* - its index is any other
    16-bit value, its type any member of SettingsType, its length any 16-bit value, its value bytes arbitrary, and it
    may be followed by anything or by nothing at all (quantifier of the property).  Decoding such a record raises
    nothing.  Necessary condition: every exception-free control-flow path of that iteration reaches a `yield` before
    it leaves the loop or starts the next iteration.

    Same machinery as `_ZeroIndex` (one walk of the CFG of the loop body per path, symbolic branch facts, cursor offset
    relative to the record start in Z u {unknown}, nothing executed).  What the scenario determines (lemmas C1-C6 of the
    module docstring): the look-ahead at offset 0 is not 00 00 and has its full length, the first field of the parsed
    structure is in [1, 65535], the structure is truthy and not None, type/length lie in their intervals, and the
    number of bytes between the record start and the end of the data is at least the size of the fixed part of the
    structure (taken from the C definitions) - with equality for a record of length 0 that ends the data.  A test on
    that quantity is folded by interval comparison; where the interval does not decide it, both outcomes are possible
    by the quantifier.  Edges into exception handlers are not followed (premise: nothing raises)."""

    def __init__(self, ctx, f, cfg, loop, parse, pst, sname):
        super().__init__(ctx, f, cfg, loop, parse, pst, sname)
        self._pk_now, self._cur = {}, (None, {})
        self.hdr, self.ivals = None, {}
        cd = ctx.cdefs("beacon").get("cs_struct")
        try:
            fields = list(cd.struct("Setting").fields)
            fixed = [_width(ctx, cd, x.type) for x in fields if x.count is None]
            var = [x for x in fields if x.count is not None]
            if all(isinstance(w, int) for w in fixed) and all(isinstance(x.count, str) for x in var):
                self.hdr = sum(fixed)  # a record whose counted arrays are empty is complete with the fixed fields alone
            for x in fields[1:]:
                if x.count is not None:
                    continue
                w = _width(ctx, cd, x.type)
                members = _enums(ctx).get(x.type)
                if members:
                    self.ivals[x.name] = (min(members.values()), max(members.values()))
                elif isinstance(w, int):
                    self.ivals[x.name] = (0, 256 ** w - 1)
            w0 = _width(ctx, cd, fields[0].type)
            self.idx_hi = 256 ** w0 - 1 if isinstance(w0, int) else None
        except Exception:
            self.hdr, self.ivals, self.idx_hi = None, {}, None
        stop = set(self.stop)
        for s in statements(f.node):
            if isinstance(s, ast.Assign) and len(s.targets) == 1 and isinstance(s.targets[0], ast.Name) and self.stream is not None:
                if any(isinstance(c, ast.Call) and isinstance(c.func, ast.Attribute) and c.func.attr == "tell" and dotted(c.func.value) == self.stream
                       for c in ast.walk(s.value)):
                    stop.add(s.targets[0].id)
        self.stop = frozenset(stop)

    # ---------------------------------------------------------------- cursor arithmetic
    def _len_subst(self, pk):
        def subst(e):
            if isinstance(e, ast.Call) and dotted(e.func) == "len" and len(e.args) == 1 and not e.keywords:
                k = self._pk(e.args[0], pk, None)
                if k is not None and self.hdr is not None and k <= self.hdr:
                    return _sympoly().SymPoly.const(k)  # C1: a look at the first k <= header bytes of a complete record has length k
            return None
        return subst

    def _seek_const(self, o):
        k = super()._seek_const(o)
        if k is None:
            p = _sympoly().sympoly(inline(self.f.node, o, stop=self.stop), self._len_subst(self._pk_now))
            c = p.const_value() if p is not None else None
            if c is not None and c.denominator == 1:
                k = int(c)
        return k

    def _is_end(self, e, depth=0):
        """e denotes the offset of the end of the data: stream.seek(0, SEEK_END), len(stream.getvalue() / getbuffer()),
        stream.getbuffer().nbytes - or a single-definition local holding one of these."""
        if isinstance(e, ast.Name):
            o = origin(self.f.node, e)
            return depth < 3 and o is not e and self._is_end(o, depth + 1)
        on_stream = lambda c, names: (isinstance(c, ast.Call) and isinstance(c.func, ast.Attribute) and c.func.attr in names  # noqa: E731
                                      and dotted(c.func.value) == self.stream)
        if on_stream(e, ("seek",)):
            b = {"offset": e.args[0] if e.args else None, "whence": e.args[1] if len(e.args) > 1 else None}
            for k in e.keywords:
                if k.arg in b:
                    b[k.arg] = k.value
            wh = b["whence"]
            return b["offset"] is not None and _c(b["offset"]) == 0 and wh is not None \
                and (dotted(wh) in ("io.SEEK_END", "os.SEEK_END", "SEEK_END") or _c(wh) == 2)
        if isinstance(e, ast.Call) and dotted(e.func) == "len" and len(e.args) == 1 and not e.keywords:
            return on_stream(e.args[0], ("getvalue", "getbuffer")) and not e.args[0].args
        if isinstance(e, ast.Attribute) and e.attr == "nbytes":
            return on_stream(e.value, ("getbuffer",)) and not e.value.args
        return False

    def _pos_subst(self, e):
        sp = _sympoly()
        off, tells = self._cur
        if isinstance(e, (ast.Name, ast.Call, ast.Attribute)) and self._is_end(e):
            return sp.SymPoly.atom("$END")
        if isinstance(e, ast.Call) and isinstance(e.func, ast.Attribute) and e.func.attr == "tell" and dotted(e.func.value) == self.stream and not e.args:
            return None if off is None else sp.SymPoly.atom("$REC") + sp.SymPoly.const(off)
        if isinstance(e, ast.Name):
            if isinstance(tells.get(e.id), int):
                return sp.SymPoly.atom("$REC") + sp.SymPoly.const(tells[e.id])
            if tells.get("~" + e.id) is not None:
                return tells["~" + e.id]
        return None

    def _rem_cmp(self, l, op, r):
        """C6: a comparison that is linear in (end of data - record start) =: R, R >= header size: its outcome by
        interval comparison, or - where R decides it - the comparison over the placeholder of R; None: not of that form."""
        if self.hdr is None:
            return None
        sp = _sympoly()
        pl, pr = sp.sympoly(l, self._pos_subst), sp.sympoly(r, self._pos_subst)
        if pl is None or pr is None:
            return None
        p = pl - pr
        if p.atoms() != {"$END", "$REC"} or any(len(k) > 1 for k in p.terms):
            return None
        a = p.terms.get(("$END",))
        if a is None or p.terms.get(("$REC",)) != -a:
            return None
        b = -p.terms.get((), 0) / a  # a * R + c <op> 0   <=>   R <op'> -c / a
        cmpop = type(op) if a > 0 else _MIRROR[type(op)]
        out = _ival_cmp(self.hdr, None, cmpop(), b)
        if out is not None:
            return ast.Constant(value=out)
        return ast.Compare(left=ast.Name(id=_Z_REM, ctx=ast.Load()), ops=[cmpop()], comparators=[ast.Constant(value=int(b) if b.denominator == 1 else float(b))])

    # ---------------------------------------------------------------- folding the scenario into a test
    def _side(self, e, sval, pk, direct):
        if self._is_idx(e, sval):
            return ("idx",)
        k = self._pk(e, pk, direct)
        if k is not None:
            return ("head", k)
        if isinstance(e, ast.Subscript) and isinstance(e.slice, ast.Slice) and e.slice.step is None and (e.slice.lower is None or is_const(e.slice.lower, 0)):
            m, k = _c(e.slice.upper), self._pk(e.value, pk, direct)
            if k is not None and isinstance(m, int) and not isinstance(m, bool) and 1 <= m <= k:
                return ("head", m)
        if isinstance(e, ast.Call) and dotted(e.func) == "len" and len(e.args) == 1 and not e.keywords:
            k = self._pk(e.args[0], pk, direct)
            if k is not None and self.hdr is not None and k <= self.hdr:
                return ("len", k)
        ic = _int_conv(self.ctx, self.f, e) if isinstance(e, ast.Call) else None
        if ic is not None:
            data, size = ic[3], ic[0]
            if isinstance(data, ast.Subscript) and isinstance(data.slice, ast.Slice) and data.slice.step is None \
                    and (data.slice.lower is None or is_const(data.slice.lower, 0)) and isinstance(_c(data.slice.upper), int) and size is None:
                data, size = data.value, _c(data.slice.upper)
            k = self._pk(data, pk, direct)
            if k is not None and ((k == 2 and (size is None or (isinstance(size, int) and size >= 2))) or size == 2):
                return ("idxint",)
        if sval and self.sname is not None:
            d = dotted(e)
            for name, iv in self.ivals.items():
                if d in (f"{self.sname}.{name}", f"{self.sname}.{name}.value"):
                    return ("fld", iv)
        cv = _cv(self.ctx, e)
        if cv is not None:
            return ("const", cv[1])
        return None

    def _cmp(self, t, sval, pk, direct):
        l, op, r = t.left, t.ops[0], t.comparators[0]
        out = self._rem_cmp(l, op, r)
        if out is not None:
            return out
        a, b = self._side(l, sval, pk, direct), self._side(r, sval, pk, direct)
        if a is None or b is None or (a[0] == "const") == (b[0] == "const"):
            return None
        if a[0] == "const":
            a, b, op = b, a, _MIRROR.get(type(op), type(op))()
        c = b[1]
        isint = isinstance(c, int) and not isinstance(c, bool)
        eqop = isinstance(op, (ast.Eq, ast.NotEq))
        order = isinstance(op, (ast.Lt, ast.LtE, ast.Gt, ast.GtE))
        if not (eqop or order):
            return None
        unequal = ast.Constant(value=isinstance(op, ast.NotEq))
        if a[0] in ("idx", "idxint", "len", "fld"):
            if not isint:
                return unequal if eqop else None
            if a[0] == "len":
                lo, hi = a[1], a[1]
            elif a[0] == "fld":
                lo, hi = a[1]
            elif a[0] == "idx":
                lo, hi = 1, self.idx_hi  # C2
            else:
                # C3: an integer made of exactly the index bytes - in any byte order, signed or not - is not 0
                return ast.Constant(value=isinstance(op, ast.NotEq)) if eqop and c == 0 else None
            out = _ival_cmp(lo, hi, op, c)
            if out is not None:
                return ast.Constant(value=out)
            if a[0] == "idx":
                return ast.Compare(left=ast.Name(id=_Z_IDX, ctx=ast.Load()), ops=[op], comparators=[ast.Constant(value=c)])
            return None  # a field in its interval: the code's own comparison stays (free by the quantifier)
        if a[0] == "head" and eqop:
            k = a[1]
            if not isinstance(c, bytes):
                return unequal
            exact = self.hdr is not None and k <= self.hdr
            if (exact and len(c) != k) or len(c) > k or (self.hdr is not None and len(c) < min(k, self.hdr)):
                return unequal  # C1: the look-ahead has its full length
            if len(c) >= 2 and c[:2] == b"\x00\x00":
                return unequal  # C2: the index bytes are not 00 00
            if not exact:
                return None
            return ast.Compare(left=ast.Name(id=f"__record_head_{k}__", ctx=ast.Load()), ops=[op], comparators=[ast.Constant(value=c)])
        return None

    def _fold(self, t, boolpos, sval, pk, direct):
        rec = lambda x, bp: self._fold(x, bp, sval, pk, direct)  # noqa: E731
        if isinstance(t, ast.UnaryOp) and isinstance(t.op, ast.Not):
            return ast.UnaryOp(op=ast.Not(), operand=rec(t.operand, True))
        if isinstance(t, ast.BoolOp):
            return ast.BoolOp(op=t.op, values=[rec(v, True) for v in t.values])
        if boolpos and isinstance(t, ast.Call) and dotted(t.func) == "bool" and len(t.args) == 1 and not t.keywords:
            return rec(t.args[0], True)
        if isinstance(t, ast.Compare) and len(t.ops) == 1:
            l, op, r = t.left, t.ops[0], t.comparators[0]
            if isinstance(op, (ast.In, ast.NotIn)) and isinstance(r, (ast.Tuple, ast.List, ast.Set)) and r.elts:
                ors = rec(ast.BoolOp(op=ast.Or(), values=[ast.Compare(left=l, ops=[ast.Eq()], comparators=[x]) for x in r.elts]), True)
                return ors if isinstance(op, ast.In) else ast.UnaryOp(op=ast.Not(), operand=ors)
            out = self._cmp(t, sval, pk, direct)
            if out is not None:
                self.nforced += 1
                return out
            return t
        if boolpos:
            a = self._side(t, sval, pk, direct)
            if a is not None and (a[0] in ("idx", "idxint", "head") or (a[0] == "len" and a[1] > 0)):
                self.nforced += 1
                return ast.Constant(value=True)  # C1/C2: a non-zero index, a non-empty look-ahead
            if sval and isinstance(t, ast.Name) and t.id == self.sname:
                self.nforced += 1
                return ast.Constant(value=True)  # C4 (S2): a structure with a non-zero field is truthy
        return t

    @staticmethod
    def _say(key, val):
        def nice(x):
            if x == _Z_REM:
                return "the number of bytes from the start of the record to the end of the data"
            if x == _Z_IDX:
                return "the index of the record"
            m = re.match(r"__record_head_(\d+)__$", x)
            return f"the first {m.group(1)} bytes of the record" if m else f"`{x}`"
        if key[0] == "eq" and key[1].startswith("__record_"):
            return f"{nice(key[1])} {'==' if val else '!='} {key[2][1]!r}"
        if key[0] == "lt" and (key[1].startswith("__record_") or key[2].startswith("__record_")):
            return f"{nice(key[1])} {'<' if val else '>='} {nice(key[2])}".replace("`", "")
        return _ZeroIndex._say(key, val)

    def _subjects(self, t):
        out = set()
        for n in ast.walk(t):
            if isinstance(n, ast.Attribute) and isinstance(n.value, ast.Name) and n.value.id == self.sname:
                out.add("f:" + n.attr)
            elif isinstance(n, ast.Call) and isinstance(n.func, ast.Attribute) and dotted(n.func.value) == self.stream:
                out.add("r:" + src(n))
            elif isinstance(n, ast.Name) and n.id.startswith("__record_"):
                out.add(n.id)
        return out

    def _not_understood(self, t, sval, pk, direct, boolpos=True):
        if isinstance(t, ast.Name) and t.id.startswith("__record_"):
            return None
        if isinstance(t, ast.Call) and isinstance(t.func, ast.Attribute) and dotted(t.func.value) == self.stream and t.func.attr not in _STREAM_DATA:
            return f"`{src(t)[:50]}` (position / size of the stream) is used in a form the scenario does not determine"
        if isinstance(t, (ast.Compare, ast.BinOp, ast.Call, ast.Subscript)):
            subj = self._subjects(t)
            if len(subj) > 1:
                return f"`{src(t)[:60]}` relates several quantities of the record ({', '.join(sorted(x.split(':')[-1] for x in subj))[:80]})"
        return super()._not_understood(t, sval, pk, direct, boolpos)

    # ---------------------------------------------------------------- path walk
    def _decide(self, test, st):
        self._pk_now = dict(st[2])
        ops = self._ops([test])
        still = all(k in ("tell", "peek", "seekable", "readable") for k, _c0 in ops)
        self._cur = (st[5] if still else None, dict(st[3]))
        return super()._decide(test, st)

    def _arrive(self, n, st):
        self._pk_now = dict(st[2])
        out = super()._arrive(n, st)
        s = self.cfg.stmt.get(n)
        if not isinstance(s, (ast.Assign, ast.AnnAssign, ast.AugAssign)):
            return out
        td, changed = dict(out[3]), False
        for x in ast.walk(s):
            if isinstance(x, ast.Name) and isinstance(x.ctx, ast.Store) and td.pop("~" + x.id, None) is not None:
                changed = True
        if isinstance(s, ast.Assign) and len(s.targets) == 1 and isinstance(s.targets[0], ast.Name) and s.targets[0].id not in td:
            ops = self._ops([s])
            if ops and all(k == "tell" for k, _c0 in ops) and st[5] is not None:
                self._cur = (st[5], dict(st[3]))
                p = _sympoly().sympoly(s.value, self._pos_subst)
                if p is not None and "$REC" in p.atoms():
                    td["~" + s.targets[0].id] = p  # a local computed from tell() at a known offset
                    changed = True
        return out[:3] + (frozenset(td.items()),) + out[4:] if changed else out

    def walk(self):
        """(bad, aborted): bad = [(certain, what happens instead of the yield, free decisions on the path, reason of uncertainty)]"""
        start = (self.header, frozenset(), frozenset(), frozenset(), False, 0, True)
        seen, stack = {start}, [(start, (), None)]
        bad = []
        while stack:
            st, notes, unsure = stack.pop()
            n = st[0]
            s = self.cfg.stmt.get(n)
            nexts = []
            if isinstance(s, (ast.If, ast.While)):
                for label, st2, note, why in self._decide(s.test, st):
                    e = self.cfg.edge_node(s, label)
                    if st is start:
                        if label != "true":
                            continue  # premise of the scenario: an iteration starts
                        st2, note, why = st2[:6] + (True,), (), None
                    if self.cfg.g.has_edge(n, e):
                        nexts.append((e, st2, notes + note, unsure or why))
            else:
                for y in self.cfg.g.successors(n):
                    if isinstance(self.cfg.stmt.get(y), ast.ExceptHandler) or (y[0] == "raise" and not isinstance(s, ast.Raise)):
                        continue  # premise of the scenario: decoding a complete record raises nothing
                    st2, w = st, unsure
                    if isinstance(s, (ast.For, ast.AsyncFor)) and y[0] == "e":
                        off, sval = self._move(self._ops([s.iter]), st[5], st[3], st[4])
                        if st is start:
                            if y[2] != "iter":
                                continue
                            st2 = st[:4] + (sval, off, True)
                        else:
                            st2 = st[:4] + (sval, off, False)
                            w = w or "a `for` loop whose trip count the scenario does not determine"
                    nexts.append((y, st2, notes, w))
            for y, st2, nt, w in nexts:
                if y == self.header:
                    bad.append((st2[6], "the next iteration starts", nt, w))
                    continue
                if self._outside(y):
                    if y[0] == "raise":
                        bad.append((False, "an exception leaves the function", nt, w or "whether it concerns records of the quantifier is not analysed"))
                    else:
                        bad.append((st2[6], "the loop is left", nt, w))
                    continue
                if self._yields(y):
                    continue
                st3 = self._arrive(y, (y,) + st2[1:])
                if st3 not in seen:
                    seen.add(st3)
                    if len(seen) > self.MAXSTATES:
                        return bad, True
                    stack.append((st3, nt, w))
        return bad, False

    def emit(self):
        ctx, f = self.ctx, self.f
        text = "a complete record is always yielded"
        if self.stream is None:
            ctx.undecided("R5", "LOOP", f, text, "the struct parse does not read a named stream: the cursor cannot be followed", self.parse)
            return
        try:
            bad, aborted = self.walk()
        except (KeyError, AttributeError, TypeError, ValueError, IndexError, RecursionError) as e:
            ctx.undecided("R5", "LOOP", f, text, f"the loop has a shape the scenario walk does not model ({type(e).__name__}: {e})", self.loop)
            return
        sure = [b for b in bad if b[0]]
        scen = "scenario `a complete record with a non-zero index lies at the cursor` (any type, length, value; anything or nothing behind it)"
        if sure:
            _c0, what, notes, _w = min(sure, key=lambda b: len(b[2]))
            rem = any("to the end of the data" in x for x in notes)
            ctx.ob("R5", "LOOP", f, text, False,
                   f"{scen}: {what} before the record is yielded " + ("when " + " and ".join(notes[:6]) if notes else "whatever the record is")
                   + (f" - that number is exactly {self.hdr} (the fixed fields of struct Setting) for a record of length 0 that ends the data, "
                      f"which is a complete record" if rem else "")
                   + ": a serialized setting is dropped", self.loop)
        elif aborted:
            ctx.undecided("R5", "LOOP", f, text, "too many paths through the loop body", self.loop)
        elif bad:
            _c0, what, notes, w = bad[0]
            ctx.undecided("R5", "LOOP", f, text, f"{scen}: {what} before the record is yielded on a path whose feasibility is not understood ({w})", self.loop)
        else:
            ctx.ob("R5", "LOOP", f, text, True, f"{scen}: every exception-free path of the iteration reaches the yield before it leaves the loop or starts the next iteration", self.loop)


def _sympoly():
    from csverif import absint

    return absint


def r5_r6(ctx):
    f = ctx.repo.func("beacon.iter_settings")
    cfg = ctx.cfg(f)
    fv = FuncView.of(f.node)
    parses = [c for c in fn_calls(f.node) if ctx.rs.resolve_call(f, c).kind == "struct" and ctx.rs.resolve_call(f, c).struct[2] == "Setting"]
    yields = [n for n in body_walk(f.node) if isinstance(n, (ast.Yield, ast.YieldFrom))]
    if len(parses) != 1 or not yields:
        ctx.undecided("R5", "LOOP", f, "parse/yield", f"expected one Setting(...) struct parse and at least one yield, found {len(parses)}/{len(yields)}: a different algorithm", f.node)
        _r6_tables(ctx)
        return
    parse = parses[0]
    loop = fv.enclosing(parse, (ast.While, ast.For))
    pst = fv.stmt_of(parse)
    if loop is None or not cfg.has(pst):
        ctx.undecided("R5", "LOOP", f, "main loop", "the Setting(...) parse is not inside a loop: a different algorithm", parse)
        _r6_tables(ctx)
        return
    header = cfg.node(loop)
    pn = cfg.node(pst)
    sname = dotted(pst.targets[0]) if isinstance(pst, ast.Assign) and len(pst.targets) == 1 and isinstance(pst.targets[0], ast.Name) else None
    in_loop = lambda st: st is loop or loop in fv.ancestors(st)  # noqa: E731
    # ---- every parsed setting is yielded exactly once
    ys = []
    for y in yields:
        yst = fv.stmt_of(y)
        if isinstance(y, ast.Yield) and y.value is not None and sname is not None and dotted(y.value) == sname and cfg.has(yst):
            ys.append(cfg.node(yst))
    if sname is None or len(ys) != len(yields):
        ctx.undecided("R5", "LOOP", f, "yield setting", "the parsed setting is not bound to a local that is yielded as such: not modelled", parse)
    else:
        skipped = cfg.reaches(pn, header, avoiding=ys)
        twice = any(cfg.reaches(a, b, avoiding=[header, pn]) for a in ys for b in ys)
        ctx.ob("R5", "LOOP", f, "yield setting", not skipped and not twice,
               "every parsed setting is yielded exactly once before the next iteration" if not skipped and not twice else
               ("a parsed setting can be skipped: " + " -> ".join(cfg.witness_path(pn, header, avoiding=ys)) if skipped else "a parsed setting can be yielded twice"), yields[0])
    # ---- terminator: a 2-byte peek compared with 00 00 leads out of the loop without parsing
    term = []  # (stmt, edge on which the peek equals 00 00, stream, consuming, peek stmt)
    entangled = False
    for st in [s for s in ast.walk(loop) if isinstance(s, (ast.If, ast.While))]:
        t, neg = st.test, False
        while isinstance(t, ast.UnaryOp) and isinstance(t.op, ast.Not):
            t, neg = t.operand, not neg
        for n in ast.walk(st.test):
            if not (isinstance(n, ast.Compare) and len(n.ops) == 1 and isinstance(n.ops[0], (ast.Eq, ast.NotEq))):
                continue
            l, r = n.left, n.comparators[0]
            if not (is_const(r, b"\x00\x00") or is_const(l, b"\x00\x00")):
                continue
            other = origin(f.node, l if is_const(r, b"\x00\x00") else r)
            pk = _peek2(other)
            if pk is None:
                continue
            ost = fv.stmt_of(other)
            if ost is None or not in_loop(ost):
                continue
            if n is not t:
                entangled = True
                continue
            eq_true = isinstance(n.ops[0], ast.Eq) != neg
            term.append((st, "true" if eq_true else "false", pk[0], pk[1], ost))
    text = "00 00 terminator"
    if len(term) != 1:
        stream = consuming = peek_st = None
        # necessary for any zero-index terminator: the loop can be left other than through an exception handler
        exits = [loop] if not (isinstance(loop, ast.While) and isinstance(loop.test, ast.Constant) and bool(loop.test.value)) else []
        for s in ast.walk(loop):
            if isinstance(s, ast.Return) or (isinstance(s, ast.Break) and fv.enclosing(s, (ast.While, ast.For)) is loop):
                if not any(isinstance(a, ast.ExceptHandler) for a in fv.ancestors(s)):
                    exits.append(s)
        if not term and not entangled and not exits:
            ctx.ob("R5", "LOOP", f, text, False, "the parse loop can only be left through an exception handler (end of data): a zero index no longer terminates the settings", loop)
        else:
            ctx.undecided("R5", "LOOP", f, text, ("the 00 00 test is combined with other conditions" if entangled else f"found {len(term)} tests of a 2-byte peek against b'\\x00\\x00'") + ": cannot locate the terminator test", loop)
    else:
        tst, edge, stream, consuming, peek_st = term[0]
        e = cfg.edge_node(tst, edge)
        # (whether the loop test lets the body start again after that edge is judged by the scenario walk below)
        leaves = not cfg.reaches(e, pn, avoiding=[header]) and not any(cfg.reaches(e, y, avoiding=[header]) for y in ys)
        dom = cfg.dominates(cfg.node(tst), pn)
        ctx.ob("R5", "LOOP", f, text, leaves and dom,
               f"terminator test on a 2-byte peek of {stream}; the 00 00 edge ends the iteration without parsing or yielding={leaves}; the test dominates the parse={dom}", tst)
    # ---- scenario "the record at the cursor has index 0": no path of one iteration reaches a yield or the next record
    _ZeroIndex(ctx, f, cfg, loop, parse, pst, sname).emit()
    # ---- scenario "a complete record lies at the cursor": every exception-free path of one iteration reaches the yield
    _CompleteRecord(ctx, f, cfg, loop, parse, pst, sname).emit()
    # ---- EOF: the parse sits in a try whose EOFError handler leaves the loop
    # (the innermost try - inside or around the loop - whose body holds the parse and that catches EOFError decides)
    eof_ok = False
    for tr in [a for a in fv.ancestors(parse) if isinstance(a, ast.Try)]:
        if not any(parse in list(ast.walk(s)) for s in tr.body):
            continue
        hs = []
        for h in tr.handlers:
            names = [dotted(h.type)] if h.type is not None and not isinstance(h.type, ast.Tuple) else [dotted(e) for e in (h.type.elts if h.type else [])]
            if h.type is None or any(n in ("EOFError", "Exception", "BaseException") for n in names):
                hs.append(h)
        if hs:
            eof_ok = cfg.has(hs[0]) and not cfg.reaches(cfg.node(hs[0]), header)
            break
    ctx.ob("R5", "LOOP", f, "except EOFError", eof_ok, "EOFError from the struct parse ends the iteration" if eof_ok else "EOFError from the Setting(...) parse is not caught with a loop exit", parse)
    # ---- re-read from the peeked position
    text = "seek(-2, SEEK_CUR) before parse"
    if stream is None:
        ctx.undecided("R5", "CURSOR", f, text, "no located 2-byte peek to give back", parse)
    elif not consuming:
        ctx.ob("R5", "CURSOR", f, text, True, "the look-ahead uses peek(): nothing is consumed before the struct parse", parse)
    else:
        pkn = cfg.node(peek_st)
        good, bad, unk = [], [], []
        for c in [c for c in ast.walk(loop) if isinstance(c, ast.Call) and isinstance(c.func, ast.Attribute) and c.func.attr == "seek" and dotted(c.func.value) == stream]:
            cst = fv.stmt_of(c)
            if not cfg.has(cst) or not (cfg.reaches(pkn, cfg.node(cst), avoiding=[header, pn]) or pkn == cfg.node(cst)) or not cfg.reaches(cfg.node(cst), pn, avoiding=[header]):
                continue
            b = {"offset": c.args[0] if c.args else None, "whence": c.args[1] if len(c.args) > 1 else None}
            for k in c.keywords:
                if k.arg in b:
                    b[k.arg] = k.value
            off = inline(f.node, b["offset"]) if b["offset"] is not None else None
            wh = b["whence"]
            cur = wh is not None and (dotted(wh) in ("io.SEEK_CUR", "os.SEEK_CUR", "SEEK_CUR") or _c(wh) == 1)
            absolute = wh is None or dotted(wh) in ("io.SEEK_SET", "os.SEEK_SET", "SEEK_SET") or (isinstance(wh, ast.Constant) and wh.value == 0)
            o0 = origin(f.node, b["offset"]) if b["offset"] is not None else None
            if cur and isinstance(_c(off), int):
                (good if _c(off) == -2 else bad).append((c, cst))
            elif cur and _len_of_peek(f, fv, b["offset"], stream, peek_st):
                # seek(-len(<the look-ahead>), SEEK_CUR): exactly the bytes the look-ahead consumed (2, or fewer at the end of the data)
                good.append((c, cst))
            elif absolute and isinstance(o0, ast.Call) and isinstance(o0.func, ast.Attribute) and o0.func.attr == "tell" and dotted(o0.func.value) == stream \
                    and fv.stmt_of(o0) is not None and in_loop(fv.stmt_of(o0)) and cfg.has(fv.stmt_of(o0)) and cfg.node(fv.stmt_of(o0)) != pkn:
                # the position saved by tell(): the peeked position iff it is taken before the peek in the same iteration
                tn = cfg.node(fv.stmt_of(o0))
                if cfg.dominates(tn, pkn):
                    good.append((c, cst))
                elif cfg.dominates(pkn, tn):
                    bad.append((c, cst))
                else:
                    unk.append((c, cst))
            else:
                unk.append((c, cst))
        if bad:
            ctx.ob("R5", "CURSOR", f, text, False, f"`{src(bad[0][0])}` between the 2-byte peek and the struct parse does not give back exactly the 2 peeked bytes", bad[0][0])
        elif unk:
            ctx.undecided("R5", "CURSOR", f, text, f"`{src(unk[0][0])}` between the peek and the parse: target position not understood", unk[0][0])
        elif not good:
            ctx.ob("R5", "CURSOR", f, text, False, "the struct parse does not start at the peeked position: the 2 peeked bytes are never given back", parse)
        else:
            back = good[0][1]
            dom = all(cfg.dominates(cfg.node(g[1]), pn) for g in good[:1])
            between = False
            for c in ast.walk(loop):
                if isinstance(c, ast.Call) and isinstance(c.func, ast.Attribute) and c.func.attr in ("read", "seek", "readline", "readinto") and dotted(c.func.value) == stream:
                    cst = fv.stmt_of(c)
                    if cst is pst or cst is back or not cfg.has(cst):
                        continue
                    if cfg.reaches(cfg.node(back), cfg.node(cst), avoiding=[pn, header]) and cfg.reaches(cfg.node(cst), pn, avoiding=[header]):
                        between = True
            ctx.ob("R5", "CURSOR", f, text, dom and not between, "the peeked 2 bytes are given back before the struct parse" if dom and not between else
                   "the struct parse does not start at the peeked position (give-back not on every path / other stream access in between)", parse)
    if stream is not None:
        arg = parse.args[0] if parse.args and not isinstance(parse.args[0], ast.Starred) else None
        ctx.ob("R5", "AGREE", f, "Setting parsed from the stream itself", arg is not None and dotted(arg) == stream,
               f"the struct parse reads `{src(arg)}`; the peeked stream is `{stream}`", parse)
    else:
        ctx.undecided("R5", "AGREE", f, "Setting parsed from the stream itself", "no located 2-byte peek to compare the parse argument with", parse)
    # ---- R6
    bs, dep = _r6_tables(ctx)
    if sname is None:
        ctx.undecided("R6", "DOM", f, "index 36 named by its type", "the parsed setting is not bound to a local", parse)
        ctx.undecided("R6", "DOM", f, "User-Agent continuation", "the parsed setting is not bound to a local", parse)
        return
    stop = frozenset([sname])
    base_funcs = set(_baseline().get(f.module.name, {}).get("functions", []))
    new_helpers = [dotted(c.func) for c in fn_calls(f.node) if dotted(c.func) in f.module.funcs and dotted(c.func) not in base_funcs]
    # an edge case handled "elsewhere": the member is still mentioned, or a helper the normaliser could not inline is called
    mentions = lambda name: bool(new_helpers) or any(  # noqa: E731
        (isinstance(n, ast.Attribute) and n.attr == name) or (isinstance(n, ast.Name) and (dotted(_unalias(ctx, n)) or "").split(".")[-1] == name)
        for n in ast.walk(f.node))
    # index 36: renamed to the deprecated INJECT_OPTIONS exactly under index == 36 and type == TYPE_SHORT
    ren = [s for s in ast.walk(loop) if isinstance(s, (ast.Assign, ast.AnnAssign)) and s.value is not None
           and any(dotted(t) == f"{sname}.index" for t in (s.targets if isinstance(s, ast.Assign) else [s.target]))]
    text = "index 36 named by its type"
    st_short = _enums(ctx).get("SettingsType", {}).get("TYPE_SHORT")
    if not ren:
        if mentions("SETTING_INJECT_OPTIONS"):
            ctx.undecided("R6", "DOM", f, text, f"no assignment to {sname}.index found although SETTING_INJECT_OPTIONS is mentioned / a helper is called ({new_helpers}): not modelled", loop)
        else:
            ctx.ob("R6", "DOM", f, text, False, "an index-36 record of TYPE_SHORT is no longer renamed to DeprecatedBeaconSetting.SETTING_INJECT_OPTIONS", loop)
    else:
        agg = _Agg()
        for s in ren:
            v = inline(f.node, s.value, stop=stop)
            facts = _facts_at(ctx, f, s, stop)
            if ".".join((dotted(_unalias(ctx, v)) or "").split(".")[-2:]) != "DeprecatedBeaconSetting.SETTING_INJECT_OPTIONS":
                agg.add(None if _cv(ctx, v) is None else False, f"{sname}.index is set to `{src(v)}`")
                continue
            g1 = _guarded_eq(facts, f"{sname}.index", ("int", 36))
            g2 = False if st_short is None else _guarded_eq(facts, f"{sname}.type", ("int", st_short))
            agg.add(_and3(g1, g2), f"rename to INJECT_OPTIONS guarded by index==WATERMARKHASH(36)={_tv(g1)}, type==TYPE_SHORT={_tv(g2)} (must hold for exactly these records)")
        agg.emit(ctx, "R6", "DOM", f, text, "index 36 is renamed to INJECT_OPTIONS only under index==WATERMARKHASH and type==TYPE_SHORT", loop)
    # over-long User-Agent: the value is extended only for index == USERAGENT and length == 0x80
    ext = []
    for s in ast.walk(loop):
        if isinstance(s, ast.AugAssign) and dotted(s.target) == f"{sname}.value":
            ext.append(s)
        elif isinstance(s, ast.Assign) and any(dotted(t) == f"{sname}.value" for t in s.targets):
            ext.append(s)
    text = "User-Agent continuation"
    if not ext:
        if mentions("SETTING_USERAGENT"):
            ctx.undecided("R6", "DOM", f, text, f"no extension of {sname}.value found although SETTING_USERAGENT is mentioned / a helper is called ({new_helpers}): not modelled", loop)
        else:
            ctx.ob("R6", "DOM", f, text, False, "the over-long User-Agent is no longer continued to its NUL", loop)
    else:
        agg = _Agg()
        for s in ext:
            facts = _facts_at(ctx, f, s, stop)
            g1 = _guarded_eq(facts, f"{sname}.index", ("int", bs.get("SETTING_USERAGENT")))
            g2 = _guarded_eq(facts, f"{sname}.length", ("int", 0x80))
            agg.add(_and3(g1, g2), f"extension of {sname}.value guarded by index==USERAGENT={_tv(g1)}, length==0x80={_tv(g2)}")
        agg.emit(ctx, "R6", "DOM", f, text, f"{sname}.value is extended only under index==USERAGENT and length==0x80 ({len(ext)} site(s))", loop)
        ctx.rep.count("iter_settings_value_extensions", len(ext), floor=1)
    # the continuation is entered for every completely filled field (scenario U1), whatever its other bytes are
    text = "User-Agent continuation entered for every completely filled 128-byte field"
    if ext:
        ff = _FilledField(ctx, sname, bs.get("SETTING_USERAGENT"))
        regions = {}
        for s in ext:
            inner = [a for a in fv.ancestors(s) if isinstance(a, (ast.While, ast.For)) and a is not loop and loop in fv.ancestors(a)]
            outer = [a for a in inner if not any(b is not a and b in fv.ancestors(a) for b in inner)]
            entry = outer[0] if outer else s  # the outermost loop of the continuation, else the extension itself
            regions[id(entry)] = entry
        agg = _Agg()
        for entry in regions.values():
            if not cfg.has(entry) or not cfg.dominates(pn, cfg.node(entry)):
                agg.add(None, "the continuation is not located behind the struct parse of the same iteration")
                continue
            for t, pol in _entry_guards(ctx, f, cfg, fv, entry, pn):
                ti = inline(f.node, t, stop=stop)
                v = ff.truth(ti)
                shown = ("" if pol else "not ") + f"`{src(ti)[:80]}`"
                if v is None:
                    agg.add(None, f"the continuation is entered only if {shown}: the rule cannot evaluate this test for a 128-byte User-Agent field "
                                  "whose last byte is not NUL")
                elif v == _BOTH:
                    agg.add(False, f"the continuation is entered only if {shown}, which depends on the bytes before the last one of the field: a "
                                   "completely filled 128-byte User-Agent field (last byte not NUL) that e.g. holds a NUL earlier is cut at 128 "
                                   "bytes and the rest of the string is parsed as setting records")
                elif v != pol:
                    agg.add(False, f"the continuation is entered only if {shown}, which never holds for a 128-byte User-Agent field whose last byte is not NUL")
                else:
                    agg.add(True)
        if len(regions) > 1 and agg.bad:
            ctx.undecided("R6", "DOM", f, text, f"{len(regions)} continuation sites, one of them not entered for every filled field ({agg.bad[0][:120]}): "
                          "whether the sites cover each other is not modelled", loop)
        else:
            agg.emit(ctx, "R6", "DOM", f, text, "every test between the struct parse and the continuation holds for index==USERAGENT, length==0x80 and a value "
                     "whose last byte is not NUL, whatever the other 127 bytes are", loop, "no test guards the continuation")
    elif mentions("SETTING_USERAGENT"):
        ctx.undecided("R6", "DOM", f, text, f"no extension of {sname}.value found", loop)
    # the continuation reaches a NUL at any distance: no constant bounds the number of bytes appended per record
    text = "User-Agent continuation not bounded by a constant"
    if not ext:
        if mentions("SETTING_USERAGENT"):
            ctx.undecided("R6", "ABS", f, text, f"no extension of {sname}.value found: nothing to bound", loop)
        return
    total, parts = 0, []
    for s in ext:
        terms, keeps = _appended(s, f"{sname}.value")
        trips = _trips(fv, s, loop)
        b = 0
        for t in terms:
            bt = _len_bound(f.node, fv, inline(f.node, t, stop=stop), loop, stop)
            b = None if b is None or bt is None else b + bt
        site = _mul(b, trips)
        parts.append(f"`{src(s)[:60]}`: at most {_show(b)} byte(s) x {_show(trips)} execution(s) per record" + ("" if keeps else " (replaces the value)"))
        total = None if total is None or site is None else total + site
        if site == _INF:
            total = _INF
            break
    if total == _INF:
        ctx.ob("R6", "ABS", f, text, True, "no finite upper bound on the bytes appended per record is derivable in the length domain: " + "; ".join(parts[-1:]), ext[0])
    elif total is None:
        ctx.undecided("R6", "ABS", f, text, "the length of the appended data is not understood: " + "; ".join(parts), ext[0])
    else:
        ctx.ob("R6", "ABS", f, text, False, f"the continuation appends at most {total} byte(s) per record ({'; '.join(parts)}): a User-Agent whose NUL lies farther away is cut "
               "off and the following records are parsed from the middle of the string", ext[0])


# ---- scenario "a completely filled 128-byte User-Agent field" (lemmas U1-U5 of the module docstring)
_BOTH = "both"


def _all_nul(c):
    return isinstance(c, bytes) and len(c) >= 1 and not any(c)


class _FilledField:
    """Abstract value of a guard of the User-Agent continuation under the scenario U1: the record at hand has index
    SETTING_USERAGENT and length N = 0x80, V = <setting>.value has exactly N bytes, its last byte is not NUL and its
    other N - 1 bytes are arbitrary.  Bytes terms are abstracted to (length interval, "last byte is not NUL",
    "is V itself", "every length of the interval occurs"), integer terms to an interval every value of which occurs for
    some admitted V; `truth` returns True / False (the same for every admitted V), _BOTH (each outcome occurs for some
    admitted V - only claimed through U3-U5) or None (not understood)."""

    N = 0x80

    def __init__(self, ctx, sname, ua_index):
        self.ctx, self.sname, self.ua = ctx, sname, ua_index

    def bytes_(self, e, depth=0):
        if depth > 8:
            return None
        rec = lambda x: self.bytes_(x, depth + 1)  # noqa: E731
        if dotted(e) == f"{self.sname}.value":
            return dict(lo=self.N, hi=self.N, nz=True, ident=True, full=True)
        c = _c(e)
        if isinstance(c, bytes):
            return dict(lo=len(c), hi=len(c), nz=bool(c) and c[-1] != 0, ident=False, full=True, const=c)
        if isinstance(e, ast.Call) and dotted(e.func) in ("bytes", "bytearray", "memoryview") and len(e.args) == 1 and not e.keywords:
            return rec(e.args[0])
        if isinstance(e, ast.Call) and isinstance(e.func, ast.Attribute) and not e.keywords and len(e.args) == 1 \
                and e.func.attr in ("rstrip", "strip", "lstrip") and _all_nul(_c(e.args[0])):
            x = rec(e.func.value)
            if x is None or "const" in x or not x["nz"]:
                return None
            if e.func.attr == "rstrip":
                return x  # U2: nothing is stripped behind a last byte that is not NUL
            if x["ident"]:
                return dict(lo=1, hi=self.N, nz=True, ident=False, full=True)  # U3: k leading NULs, k = 0 .. N-1, all occur
            return None
        if isinstance(e, ast.Subscript) and isinstance(e.slice, ast.Slice) and e.slice.step is None:
            x = rec(e.value)
            if x is None or "const" in x or x["lo"] != x["hi"]:
                return None
            n, lo, hi = x["lo"], e.slice.lower, e.slice.upper
            if hi is not None and not (isinstance(_c(hi), int) and _c(hi) >= n):
                return None
            if lo is None or _c(lo) == 0:
                return x
            a = _c(lo)
            if not isinstance(a, int) or isinstance(a, bool):
                return None
            if a < 0:
                a += n
            if 0 < a < n:
                return dict(lo=n - a, hi=n - a, nz=x["nz"], ident=False, full=True)
        return None

    def int_(self, e, depth=0):
        """(lo, hi): the value of e lies in the interval and every value of the interval occurs for some admitted V."""
        if depth > 8:
            return None
        cv = _cv(self.ctx, e)
        if cv is not None and cv[0] in ("int", "bool"):
            return int(cv[1]), int(cv[1])
        d = dotted(e)
        if d == f"{self.sname}.length":
            return self.N, self.N
        if d == f"{self.sname}.index" and isinstance(self.ua, int):
            return self.ua, self.ua
        if isinstance(e, ast.Call) and dotted(e.func) == "len" and len(e.args) == 1 and not e.keywords:
            x = self.bytes_(e.args[0], depth + 1)
            return (x["lo"], x["hi"]) if x is not None and x["full"] else None
        if isinstance(e, ast.Subscript) and not isinstance(e.slice, ast.Slice):
            x, i = self.bytes_(e.value, depth + 1), _c(e.slice)
            if x is None or "const" in x or x["lo"] != x["hi"] or not isinstance(i, int) or isinstance(i, bool) or not -x["lo"] <= i < x["lo"]:
                return None
            if i in (-1, x["lo"] - 1):
                return (1, 255) if x["nz"] else None
            return (0, 255) if x["ident"] else None  # U4: a byte before the last one is arbitrary
        if isinstance(e, ast.Call) and isinstance(e.func, ast.Attribute) and e.func.attr in ("find", "count") and len(e.args) == 1 and not e.keywords:
            x, c = self.bytes_(e.func.value, depth + 1), _c(e.args[0])
            if x is not None and x["ident"] and (c == b"\x00" or (c == 0 and not isinstance(c, bool))):
                # U4: the first NUL of V lies at any offset 0 .. N-2 or nowhere; V holds 0 .. N-1 NULs
                return (-1, self.N - 2) if e.func.attr == "find" else (0, self.N - 1)
        return None

    @staticmethod
    def _rel(a, op, b):
        """a op b for two intervals whose values all occur (at least one of them a single constant)."""
        if a[0] != a[1] and b[0] != b[1]:
            return None
        if a[0] == a[1] and b[0] != b[1]:
            flip = {ast.Lt: ast.Gt, ast.Gt: ast.Lt, ast.LtE: ast.GtE, ast.GtE: ast.LtE}
            return _FilledField._rel(b, flip.get(type(op), type(op))(), a)
        c = b[0]
        res = _ival_cmp(a[0], a[1], op, c)
        return _BOTH if res is None else res

    def truth(self, e, depth=0):
        if depth > 8:
            return None
        rec = lambda x: self.truth(x, depth + 1)  # noqa: E731
        if isinstance(e, ast.UnaryOp) and isinstance(e.op, ast.Not):
            v = rec(e.operand)
            return (not v) if isinstance(v, bool) else v
        if isinstance(e, ast.BoolOp):
            vals = [rec(v) for v in e.values]
            absorbing = not isinstance(e.op, ast.And)
            if any(v is absorbing for v in vals):
                return absorbing
            if any(v is None for v in vals):
                return None
            both = [v for v in vals if v == _BOTH]
            return (not absorbing) if not both else _BOTH if len(both) == 1 else None
        if isinstance(e, ast.Constant):
            return bool(e.value)
        if isinstance(e, ast.Compare) and len(e.ops) == 1:
            l, op, r = e.left, e.ops[0], e.comparators[0]
            if isinstance(op, (ast.In, ast.NotIn)):
                x, c = self.bytes_(r), _c(l)
                if x is not None and x["ident"] and ((_all_nul(c) and len(c) <= self.N - 1) or (c == 0 and isinstance(c, int) and not isinstance(c, bool))):
                    return _BOTH  # U4: V may or may not hold a NUL before its last byte
                return None
            if not isinstance(op, (ast.Eq, ast.NotEq, ast.Lt, ast.LtE, ast.Gt, ast.GtE)):
                return None
            a, b = self.int_(l), self.int_(r)
            if a is not None and b is not None:
                return self._rel(a, op, b)
            if isinstance(op, (ast.Eq, ast.NotEq)):
                x, y = self.bytes_(l), self.bytes_(r)
                if x is None or y is None:
                    return None
                eq = None
                if x["ident"] and y["ident"]:
                    eq = True
                elif ("const" in x) != ("const" in y):
                    k, v = (x, y) if "const" in x else (y, x)
                    cb = k["const"]
                    if not v["lo"] <= len(cb) <= v["hi"] or (v["nz"] and v["lo"] >= 1 and not k["nz"]):
                        eq = False  # another length, or a NUL where V has none
                if eq is None:
                    return None
                return eq == isinstance(op, ast.Eq)
            return None
        if isinstance(e, ast.Call) and isinstance(e.func, ast.Attribute) and e.func.attr == "endswith" and len(e.args) == 1 and not e.keywords:
            x, c = self.bytes_(e.func.value), _c(e.args[0])
            if x is not None and "const" not in x and x["nz"] and x["lo"] >= 1 and isinstance(c, bytes) and c and c[-1] == 0:
                return False
            return None
        x = self.bytes_(e)
        if x is not None:
            return True if x["lo"] >= 1 else False if x["hi"] == 0 else None
        a = self.int_(e)
        if a is not None:
            return False if a == (0, 0) else True if (a[0] > 0 or a[1] < 0) else _BOTH
        return None


def _entry_guards(ctx, f, cfg, fv, target, after):
    """[(test, outcome)] of the branch edges that dominate statement `target` and whose test is evaluated after statement
    node `after` (the struct parse) in the same iteration; and/or/not decomposed as far as the edge determines them."""
    out = []

    def emit(e, pol):
        while isinstance(e, ast.UnaryOp) and isinstance(e.op, ast.Not):
            e, pol = e.operand, not pol
        if isinstance(e, ast.BoolOp) and isinstance(e.op, ast.And) == pol:
            for v in e.values:
                emit(v, pol)
            return
        out.append((e, pol))

    tn = cfg.node(target)
    for n, s in cfg.stmt.items():
        if not isinstance(s, (ast.If, ast.While)) or s is target or not cfg.dominates(after, n):
            continue
        if cfg.dominates(cfg.edge_node(s, "true"), tn):
            emit(s.test, True)
        elif cfg.dominates(cfg.edge_node(s, "false"), tn):
            emit(s.test, False)
    return out


def _len_of_peek(f, fv, e, stream, peek_st):
    """e is `-len(x)` where x is a local whose single definition is the consuming 2-byte look-ahead of statement peek_st."""
    if not (isinstance(e, ast.UnaryOp) and isinstance(e.op, ast.USub) and isinstance(e.operand, ast.Call) and dotted(e.operand.func) == "len"
            and len(e.operand.args) == 1 and not e.operand.keywords and isinstance(e.operand.args[0], ast.Name)):
        return False
    o = origin(f.node, e.operand.args[0])
    return o is not e.operand.args[0] and _peek2(o) == (stream, True) and fv.stmt_of(o) is peek_st


def _guarded_eq(facts, subj, want):
    """Do the dominating facts establish `subj == want`?  True: they do.  False: they do not - `subj` is compared with
    constants only (or not at all), so the site is reached with other values of it.  None: `subj` is established equal
    to a term that is not a constant of the code (a parameter, an attribute, a name of another module ...) - what the
    guard selects cannot be told from the source at hand."""
    if facts.get(("eq", subj, want)) is True:
        return True
    for k, v in facts.items():
        if v is True and k[0] == "t" and " == " in k[1] and subj in k[1].split(" == "):
            return None
    return False


def _and3(a, b):
    return False if a is False or b is False else None if a is None or b is None else True


def _tv(v):
    return "not understood" if v is None else v


# ---- abstract length domain N u {inf} (None = not understood); transfer rules = lemma L5 of the module docstring
_INF = float("inf")
_NOT_LONGER = ("rstrip", "lstrip", "strip", "removeprefix", "removesuffix")
_PIECES = ("split", "rsplit", "partition", "rpartition", "splitlines")


def _show(b):
    return "?" if b is None else "unboundedly many" if b == _INF else str(b)


def _mul(a, b):
    if a is None or b is None:
        return None
    if a == 0 or b == 0:
        return 0
    return a * b


def _loop_trips(lp):
    """Upper bound of the trip count of one loop statement: while -> inf; for over range(<const>) -> the constant;
    for over iter(callable, sentinel) -> inf; any other for -> not understood."""
    if isinstance(lp, ast.While):
        return _INF
    it = lp.iter
    if isinstance(it, ast.Call) and dotted(it.func) == "range" and not it.keywords and 1 <= len(it.args) <= 2:
        vals = [_c(a) for a in it.args]
        if all(isinstance(v, int) and not isinstance(v, bool) for v in vals):
            return max(0, vals[0] if len(vals) == 1 else vals[1] - vals[0])
        return None
    if isinstance(it, ast.Call) and dotted(it.func) == "iter" and len(it.args) == 2 and not it.keywords:
        return _INF
    if isinstance(it, ast.Call) and dotted(it.func) in ("itertools.count", "count", "itertools.repeat", "itertools.cycle"):
        return _INF
    return None


def _trips(fv, st, outer):
    """Upper bound on how often statement st is executed during one iteration of loop `outer` (product over the loops
    between them)."""
    n = 1
    for a in fv.ancestors(st):
        if a is outer:
            break
        if isinstance(a, (ast.While, ast.For, ast.AsyncFor)):
            n = _mul(n, _loop_trips(a))
            if n is None:
                return None
    return n


def _appended(s, target):
    """(terms appended by extension statement s to `target`, True) - or ([the new value], False) if s replaces it."""
    if isinstance(s, ast.AugAssign):
        return [s.value], isinstance(s.op, ast.Add)
    ops, todo = [], [s.value]
    while todo:
        e = todo.pop()
        if isinstance(e, ast.BinOp) and isinstance(e.op, ast.Add):
            todo.extend([e.right, e.left])
        else:
            ops.append(e)
    own = [e for e in ops if dotted(e) == target]
    if len(own) == 1:
        return [e for e in ops if e is not own[0]], True
    return [s.value], False


def _len_bound(fn, fv, e, outer, stop, depth=0):
    """Upper bound of len(e) for a bytes-valued term."""
    if depth > 8:
        return None
    rec = lambda x: _len_bound(fn, fv, x, outer, stop, depth + 1)  # noqa: E731
    if isinstance(e, ast.Constant):
        return len(e.value) if isinstance(e.value, (bytes, str)) else None
    if isinstance(e, ast.BinOp) and isinstance(e.op, ast.Add):
        a, b = rec(e.left), rec(e.right)
        return None if a is None or b is None else a + b
    if isinstance(e, ast.IfExp):
        a, b = rec(e.body), rec(e.orelse)
        return None if a is None or b is None else max(a, b)
    if isinstance(e, ast.Subscript):
        if isinstance(e.slice, ast.Slice):
            return rec(e.value)  # a slice is not longer than the sliced sequence
        v = e.value
        if isinstance(v, ast.Call) and isinstance(v.func, ast.Attribute) and v.func.attr in _PIECES and isinstance(_c(e.slice), int):
            return rec(v.func.value)  # a piece of a split/partition is not longer than the whole
        return None
    if isinstance(e, ast.Call):
        d = dotted(e.func)
        if d in ("bytes", "bytearray", "memoryview") and len(e.args) == 1 and not e.keywords:
            a = e.args[0]
            return None if isinstance(_c(a), int) else rec(a)
        if isinstance(e.func, ast.Attribute):
            if e.func.attr in ("read", "read1") and not e.keywords and len(e.args) <= 1 and not any(isinstance(a, ast.Starred) for a in e.args):
                if not e.args:
                    return _INF
                if is_none(e.args[0]):
                    return _INF
                n = _c(e.args[0])
                if isinstance(n, int) and not isinstance(n, bool):
                    return _INF if n < 0 else n  # read(n) returns at most n bytes
                return None
            if e.func.attr in _NOT_LONGER:
                return rec(e.func.value)
        return None
    if isinstance(e, ast.Name):
        if e.id in params(fn) or e.id in stop:
            return None
        plain, total = None, 0
        defs = assignments_to(fn, e.id)
        if not defs:
            return None
        for st, v in defs:
            if v is not None:
                if any(isinstance(x, ast.Name) and x.id == e.id for x in ast.walk(v)):
                    return None
                b = rec(v)
                if b is None:
                    return None
                plain = b if plain is None else max(plain, b)
            elif isinstance(st, ast.AugAssign) and isinstance(st.op, ast.Add) and isinstance(st.target, ast.Name):
                if any(isinstance(x, ast.Name) and x.id == e.id for x in ast.walk(st.value)):
                    return None
                b = _mul(rec(st.value), _trips(fv, st, outer))  # an accumulator grows by the sum of what is added
                if b is None:
                    return None
                total += b
            else:
                return None
        return (plain or 0) + total
    return None


def _r6_tables(ctx):
    cd = ctx.cdefs("beacon")["cs_struct"]
    bs, dep = cd.enum("BeaconSetting").by_name(), cd.enum("DeprecatedBeaconSetting").by_name()
    ctx.ob("R6", "TABLE", "beacon.py::CS_DEF", "index 36", bs.get("SETTING_WATERMARKHASH") == 36 and dep.get("SETTING_INJECT_OPTIONS") == 36,
           f"SETTING_WATERMARKHASH={bs.get('SETTING_WATERMARKHASH')} SETTING_INJECT_OPTIONS={dep.get('SETTING_INJECT_OPTIONS')} (both 36)")
    ctx.ob("R6", "TABLE", "beacon.py::CS_DEF", "user agent index", bs.get("SETTING_USERAGENT") == 9, f"SETTING_USERAGENT={bs.get('SETTING_USERAGENT')}")
    return bs, dep


def r7(ctx):
    cd = ctx.cdefs("beacon")["cs_struct"]
    names = set(cd.enum("BeaconSetting").by_name()) | set(cd.enum("DeprecatedBeaconSetting").by_name())
    n = 0
    pat = re.compile(r"^SETTING_[A-Z0-9_]+$")
    mods = list(ctx.repo.modules.values()) + list(ctx.repo.scripts.values())
    for mod in mods:
        for node in ast.walk(mod.tree):
            key = None
            if isinstance(node, ast.Subscript) and isinstance(node.slice, ast.Constant) and isinstance(node.slice.value, str):
                key = node.slice
            elif isinstance(node, ast.Call) and isinstance(node.func, ast.Attribute) and node.func.attr == "get" and node.args and isinstance(node.args[0], ast.Constant) and isinstance(node.args[0].value, str):
                key = node.args[0]
            if key is not None and pat.match(key.value):
                n += 1
                ctx.rep.ob("R7", "VOCAB", f"{mod.relpath.split('/')[-1]}::{key.value}", key.value in names,
                           f"settings key {key.value!r} " + ("is" if key.value in names else "is NOT") + " a BeaconSetting/DeprecatedBeaconSetting member name",
                           mod.relpath, key.lineno, nontrivial=True)
            # attribute access on the enums
            if isinstance(node, ast.Attribute) and dotted(node.value) in ("BeaconSetting", "DeprecatedBeaconSetting") and pat.match(node.attr):
                en = cd.enum(dotted(node.value)).by_name()
                if node.attr not in en:
                    ctx.rep.ob("R7", "VOCAB", f"{mod.relpath.split('/')[-1]}::{dotted(node)}", False, f"{dotted(node)} is not a member of the enum", mod.relpath, node.lineno)
    ctx.rep.count("setting_key_literals", n, floor=20)
