"""C02 - Settings are decoded exactly and all views agree (structural part)."""

from __future__ import annotations

import ast
import re

from csverif.astutil import (
    assignments_to, body_walk, compare_parts, conjuncts, const_eval, dotted, fn_calls, is_const, kwarg, NotConst,
    param_defaults, params, src, statements, strip_cast,
)
from csverif.cfg import ENTRY, EXIT
from csverif.q import FuncView, calls_to, dominating_conditions, guarded_by, inline, origin

VIEWS = {
    "raw_settings": ("name", False),
    "raw_settings_by_index": ("const", False),
    "settings": ("name", True),
    "settings_by_index": ("const", True),
}


def _c(node):
    try:
        return const_eval(node) if node is not None else None
    except NotConst:
        return None


def _type_test(test, member):
    """True if test contains the conjunct `<x>.type == SettingsType.<member>`."""
    for cj in conjuncts(test):
        for l, op, r in compare_parts(cj):
            if isinstance(op, ast.Eq):
                for a, b in ((l, r), (r, l)):
                    if (dotted(a) or "").endswith(".type") and dotted(b) == f"SettingsType.{member}":
                        return True
    return False


def run(ctx):
    rep = ctx.rep
    rep.explanation = (
        "Static analysis of beacon.py: Setting TLV layout parsed from CS_DEF (field order, widths, endianness of the "
        "owning cstruct), resolution of the integer conversions in settings_map through functools.partial to "
        "(size, byteorder, signed), per-view cache-slot and (index_type, pretty) agreement of the four cached views, "
        "MappingProxyType exit and insertion order, CFG exit/yield analysis of iter_settings, index-36 tables and "
        "guards, and the SETTING_* key vocabulary used across the package."
    )
    rep.not_decided = ["the numeric values themselves", "alias-name choice for duplicated enum values (16/17/48)", "behaviour for arbitrary trailing bytes"]
    rep.trusted_base = ["CPython ast", "networkx dominators", "C-definition parser (csverif.cdefs)", "dissect.cstruct parses fields in declaration order"]
    r1(ctx)
    r2_r4(ctx)
    r3(ctx)
    r5_r6(ctx)
    r7(ctx)


def r1(ctx):
    cd = ctx.cdefs("beacon").get("cs_struct")
    if cd is None:
        ctx.rep.error("anchor vanished: cs_struct")
        return
    s = cd.struct("Setting")
    got = [(f.name, cd.type_size(f.type)[0] if cd.type_size(f.type) else None, f.count) for f in s.fields]
    want = [("index", 2, None), ("type", 2, None), ("length", 2, None), ("value", 1, "length")]
    ctx.ob("R1", "TABLE", "beacon.py::CS_DEF::struct Setting", "fields", got == want and cd.endian == ">",
           f"Setting fields (name,width,array)={got} endian={cd.endian!r}; required {want} big-endian")
    types = [f.type for f in s.fields[:2]]
    ctx.ob("R1", "TABLE", "beacon.py::CS_DEF::struct Setting", "field types", types == ["BeaconSetting", "SettingsType"],
           f"index/type are parsed as enums {types}")
    st = cd.enum("SettingsType").by_name()
    ctx.ob("R1", "TABLE", "beacon.py::CS_DEF::enum SettingsType", "members", st == {"TYPE_NONE": 0, "TYPE_SHORT": 1, "TYPE_INT": 2, "TYPE_PTR": 3},
           f"SettingsType = {st}")


def r2_r4(ctx):
    f = ctx.repo.func("beacon.BeaconConfig.settings_map")
    fv = FuncView.of(f.node)
    cfg = ctx.cfg(f)
    # loop over self.settings_tuple
    loops = [s for s in statements(f.node) if isinstance(s, ast.For) and dotted(s.iter) == "self.settings_tuple"]
    if len(loops) != 1:
        ctx.ob("R4", "EXIT", f, "for setting in self.settings_tuple", False, f"expected one loop over self.settings_tuple (in stored order), found {len(loops)}: "
               + ", ".join(src(s.iter) for s in statements(f.node) if isinstance(s, ast.For)), f.node)
        return
    loop = loops[0]
    sv = dotted(loop.target)
    # the one store into the result mapping inside the loop names the key and value variables
    stores_ = [s2 for s2 in ast.walk(loop) if isinstance(s2, ast.Assign) and isinstance(s2.targets[0], ast.Subscript) and isinstance(s2.value, ast.Name) and isinstance(s2.targets[0].slice, ast.Name)]
    if len(stores_) != 1:
        ctx.ob("R4", "AGREE", f, "mapping store", False, f"expected one `<mapping>[<key>] = <value>` store in the loop, found {len(stores_)}", loop)
        return
    VAL, KEY = stores_[0].value.id, stores_[0].targets[0].slice.id
    val_defs = assignments_to(f.node, VAL)
    want = {"TYPE_SHORT": (2, "big", False), "TYPE_INT": (4, "big", False)}
    seen = set()
    for st, v in val_defs:
        if v is None:
            ctx.ob("R2", "AGREE", f, src(st), False, "val bound by a non-expression binding", st)
            continue
        if dotted(v) == f"{sv}.value":
            continue  # initial raw value
        if isinstance(v, ast.Call):
            cal = ctx.rs.resolve_call(f, v)
            if cal.kind == "func" and cal.func.fq == "utils.unpack":
                size = _c(cal.bound.get("size")) if "size" in cal.bound else _c(kwarg(v, "size"))
                bo = _c(cal.bound.get("byteorder")) if "byteorder" in cal.bound else (_c(kwarg(v, "byteorder")) or "little")
                sg = _c(cal.bound.get("signed")) if "signed" in cal.bound else (_c(kwarg(v, "signed")) or False)
                member = None
                for m in want:
                    if guarded_by(ctx, f, v, lambda t, m=m: True if _type_test(t, m) else None):
                        member = m
                arg_ok = v.args and dotted(v.args[0]) == VAL
                ok = member is not None and want[member] == (size, bo, bool(sg)) and arg_ok
                if member:
                    seen.add(member)
                pp = guarded_by(ctx, f, v, lambda t: True if {dotted(x) for x in (t.values if isinstance(t, ast.BoolOp) else [t])} >= {"parse"} else None)
                ctx.ob("R2", "AGREE", f, src(st), ok and pp,
                       f"under type=={member}: unpack(size={size}, byteorder={bo}, signed={sg}) of val; required {want.get(member)}; applied when parse/pretty={pp}", st)
                # whether a SHORT/INT record is converted depends on the requested view and the record's type only,
                # never on its value or length (a zero-length record is still an integer in every view)
                dep = []
                for _t, _pol, e in dominating_conditions(ctx, f, v):
                    e = inline(f.node, e)
                    for n in ast.walk(e):
                        if isinstance(n, ast.Name) and n.id == VAL:
                            dep.append(src(e))
                        elif isinstance(n, ast.Attribute) and dotted(n.value) == sv and n.attr != "type":
                            dep.append(src(e))
                ctx.ob("R2", "DOM", f, src(st) + " unconditional in the value", not dep,
                       "conversion is guarded by view flags and the record type only" if not dep else f"conversion also depends on the record's value/length: {sorted(set(dep))}", st)
                continue
            # pretty function application
            if isinstance(origin(f.node, v.func), ast.Call) and "SETTING_TO_PRETTYFUNC" in src(origin(f.node, v.func)) and v.args and dotted(v.args[0]) == VAL:
                pg = guarded_by(ctx, f, v, lambda t: True if dotted(t) == "pretty" else None)
                ctx.ob("R2", "AGREE", f, src(st), pg, "pretty function applied only under `pretty`" if pg else "pretty function applied when pretty is off (raw views would differ)", st)
                continue
        ctx.ob("R2", "AGREE", f, src(st), False, f"unexpected conversion of the setting value: {src(v)} (pointer values must stay raw bytes)", st)
    ctx.ob("R2", "AGREE", f, "int conversions present", seen == set(want), f"conversions found for {sorted(seen)}; required {sorted(want)}", f.node)
    dflt = param_defaults(f.node)
    ctx.ob("R2", "AGREE", f, "parse default", is_const(dflt.get("parse"), True) and is_const(dflt.get("pretty"), False), f"defaults parse={src(dflt.get('parse'))} pretty={src(dflt.get('pretty'))}", f.node)
    # key selection
    key_defs = assignments_to(f.node, KEY)
    kmap = {}
    for st, v in key_defs:
        for name in ("name", "const"):
            if guarded_by(ctx, f, st, lambda t, name=name: True if any(isinstance(op, ast.Eq) and dotted(l) == "index_type" and is_const(r, name) for l, op, r in compare_parts(t)) else None):
                kmap[name] = v
                break
        else:
            kmap["enum"] = v
    def base(v):
        if isinstance(v, ast.BoolOp):
            v = v.values[0]
        return dotted(v)
    k_ok = base(kmap.get("name")) == f"{sv}.index.name" and base(kmap.get("const")) == f"{sv}.index.value" and base(kmap.get("enum")) == f"{sv}.index"
    ctx.ob("R2", "AGREE", f, "key by index_type", k_ok, "name->index.name, const->index.value, otherwise the enum: " + str({k: src(v) for k, v in kmap.items()}), f.node)
    # R4: mapping construction and exit
    rets = cfg.return_stmts()
    acc = None
    for r in rets:
        v = r.value
        ok = isinstance(v, ast.Call) and dotted(v.func) in ("MappingProxyType", "types.MappingProxyType") and len(v.args) == 1
        if ok:
            acc = dotted(v.args[0])
        ctx.ob("R4", "EXIT", f, "return " + src(v), ok, "returns a MappingProxyType (read-only view)" if ok else "returns a mutable mapping / something else", r)
    ctx.ob("R4", "EXIT", f, "falls off end", not cfg.falls_off_end(), "cannot return None implicitly", f.node)
    if acc:
        defs = [v for st, v in assignments_to(f.node, acc)]
        d_ok = len(defs) == 1 and isinstance(defs[0], ast.Call) and dotted(defs[0].func) in ("OrderedDict", "dict", "collections.OrderedDict") and not defs[0].args
        stores = [s for s in ast.walk(loop) if isinstance(s, ast.Assign) and isinstance(s.targets[0], ast.Subscript) and dotted(s.targets[0].value) == acc]
        s_ok = len(stores) == 1 and dotted(stores[0].targets[0].slice) == KEY and dotted(stores[0].value) == VAL
        reorder = [src(c) for c in fn_calls(f.node) if (isinstance(c.func, ast.Attribute) and c.func.attr in ("sort", "reverse", "move_to_end", "popitem", "pop", "clear")) or dotted(c.func) in ("sorted", "reversed")]
        ctx.ob("R4", "AGREE", f, "mapping[key] = val", d_ok and s_ok and not reorder,
               f"fresh ordered mapping={d_ok}; one insertion per setting in iteration order={s_ok}; reordering calls={reorder}", loop)
    init = ctx.repo.func("beacon.BeaconConfig.__init__")
    ok = False
    for st in statements(init.node):
        tgt = st.targets[0] if isinstance(st, ast.Assign) else st.target if isinstance(st, ast.AnnAssign) else None
        if tgt is not None and dotted(tgt) == "self.settings_tuple":
            v = st.value
            ok = isinstance(v, ast.Call) and dotted(v.func) == "tuple" and len(v.args) == 1 and isinstance(v.args[0], ast.Call) \
                and ctx.rs.resolve_call(init, v.args[0]).fq == "beacon.iter_settings" and dotted(v.args[0].args[0]) == params(init.node)[1]
    ctx.ob("R4", "AGREE", init, "self.settings_tuple = tuple(iter_settings(config_block))", ok, "settings tuple is the parser's output in order" if ok else "settings_tuple is not tuple(iter_settings(<config_block>))", init.node)


def r3(ctx):
    slots = {}
    for name, (itype, pretty) in VIEWS.items():
        f = ctx.repo.func(f"beacon.BeaconConfig.{name}")
        cfg = ctx.cfg(f)
        rets = cfg.return_stmts()
        ret_slots = {dotted(r.value) for r in rets}
        fills = [s for s in statements(f.node) if isinstance(s, ast.Assign) and (dotted(s.targets[0]) or "").startswith("self._")]
        ok = False
        detail = "shape not recognised: expected `if self._slot is None: self._slot = self.settings_map(...)` / `return self._slot`"
        if len(ret_slots) == 1 and len(fills) == 1:
            slot = ret_slots.pop()
            fill = fills[0]
            call = fill.value
            same = dotted(fill.targets[0]) == slot
            tested = guarded_by(ctx, f, fill, lambda t, slot=slot: True if any(isinstance(op, ast.Is) and dotted(l) == slot and isinstance(r, ast.Constant) and r.value is None for l, op, r in compare_parts(t)) else None)
            args_ok = False
            got = None
            if isinstance(call, ast.Call) and dotted(call.func) == "self.settings_map":
                it = kwarg(call, "index_type") if kwarg(call, "index_type") is not None else (call.args[0] if call.args else None)
                pr = kwarg(call, "pretty") if kwarg(call, "pretty") is not None else (call.args[1] if len(call.args) > 1 else None)
                pa = kwarg(call, "parse") if kwarg(call, "parse") is not None else (call.args[2] if len(call.args) > 2 else None)
                got = (_c(it) if it is not None else "enum", bool(_c(pr)) if pr is not None else False)
                args_ok = got == (itype, pretty) and (pa is None or _c(pa) is True)
            ok = same and tested and args_ok
            detail = f"returns {slot}; fills the same slot={same}; fill guarded by `{slot} is None`={tested}; settings_map(index_type,pretty)={got} required {(itype, pretty)}"
            slots[name] = slot
        ctx.ob("R3", "AGREE", f, name, ok, detail, f.node)
    dup = len(set(slots.values())) != len(slots)
    ctx.ob("R3", "AGREE", "beacon.py::BeaconConfig", "cache slots distinct", not dup and len(slots) == 4, f"cache slots per view: {slots}")
    # the cache slots start empty
    init = ctx.repo.func("beacon.BeaconConfig.__init__")
    inits = {dotted(s.target if isinstance(s, ast.AnnAssign) else s.targets[0]): s.value for s in statements(init.node) if isinstance(s, (ast.Assign, ast.AnnAssign))}
    ok = all(sl in inits and isinstance(inits[sl], ast.Constant) and inits[sl].value is None for sl in slots.values())
    ctx.ob("R3", "AGREE", init, "cache slots initialised to None", ok, f"slots {sorted(slots.values())} start as None={ok}", init.node)


def r5_r6(ctx):
    f = ctx.repo.func("beacon.iter_settings")
    cfg = ctx.cfg(f)
    fv = FuncView.of(f.node)
    fobj = params(f.node)[0]
    parses = calls_to(ctx, f, target_fq=None, attr=None)
    parses = [c for c in fn_calls(f.node) if ctx.rs.resolve_call(f, c).kind == "struct" and ctx.rs.resolve_call(f, c).struct[2] == "Setting"]
    yields = [n for n in body_walk(f.node) if isinstance(n, (ast.Yield, ast.YieldFrom))]
    if len(parses) != 1 or len(yields) != 1:
        ctx.ob("R5", "LOOP", f, "parse/yield", False, f"expected one Setting(...) parse and one yield, found {len(parses)}/{len(yields)}", f.node)
        return
    parse, y = parses[0], yields[0]
    loop = fv.enclosing(parse, (ast.While,))
    if loop is None:
        ctx.ob("R5", "LOOP", f, "main loop", False, "Setting(...) parse is not inside a while loop", parse)
        return
    header = cfg.node(loop)
    pst, yst = fv.stmt_of(parse), fv.stmt_of(y)
    sname = dotted(pst.targets[0]) if isinstance(pst, ast.Assign) else None
    ok = dotted(y.value) == sname and cfg.all_paths_pass(cfg.node(pst), header, [cfg.node(yst)]) and not cfg.reaches(cfg.node(yst), cfg.node(yst), avoiding=[header])
    ctx.ob("R5", "LOOP", f, "yield setting", ok, "every parsed setting is yielded exactly once before the next iteration" if ok else
           "a parsed setting can be skipped or yielded twice: " + " -> ".join(cfg.witness_path(cfg.node(pst), header, avoiding=[cfg.node(yst)])), y)
    # terminator: 2-byte peek compared with 00 00 leads out of the loop without parsing
    peeks = [s for s in ast.walk(loop) if isinstance(s, ast.Assign) and isinstance(s.value, (ast.Subscript, ast.Call)) and "read(2)" in src(s.value).replace(" ", "") or (isinstance(s, ast.Assign) and "peek(2)" in src(s.value))]
    term_ok = False
    detail = "no `== b'\\x00\\x00'` terminator test on a 2-byte peek"
    for st in [s for s in ast.walk(loop) if isinstance(s, ast.If)]:
        for l, op, r in compare_parts(st.test):
            if isinstance(op, ast.Eq) and (is_const(r, b"\x00\x00") or is_const(l, b"\x00\x00")):
                var = dotted(l) if is_const(r, b"\x00\x00") else dotted(r)
                pk = [p for p in peeks if dotted(p.targets[0]) == var]
                t = cfg.edge_node(st, "true")
                leaves = not cfg.reaches(t, header) and not cfg.reaches(t, cfg.node(pst))
                term_ok = bool(pk) and leaves and cfg.dominates(cfg.node(st), cfg.node(pst))
                detail = f"terminator test on {var} (2-byte peek={bool(pk)}); true edge leaves the loop without parsing={leaves}; test dominates the parse={cfg.dominates(cfg.node(st), cfg.node(pst))}"
    ctx.ob("R5", "LOOP", f, "00 00 terminator", term_ok, detail, loop)
    # EOF: the parse sits in a try whose EOFError handler leaves the loop
    tr = fv.enclosing(parse, (ast.Try,))
    eof_ok = False
    if tr is not None:
        for h in tr.handlers:
            names = [dotted(h.type)] if h.type is not None and not isinstance(h.type, ast.Tuple) else [dotted(e) for e in (h.type.elts if h.type else [])]
            if "EOFError" in names or h.type is None or "Exception" in names:
                hn = cfg.node(h)
                eof_ok = not cfg.reaches(hn, header)
    ctx.ob("R5", "LOOP", f, "except EOFError", eof_ok, "EOFError from the struct parse ends the iteration" if eof_ok else "EOFError from Setting(fobj) is not caught with a loop exit", parse)
    # re-read from the peeked position
    seeks = [c for c in ast.walk(loop) if isinstance(c, ast.Call) and isinstance(c.func, ast.Attribute) and c.func.attr == "seek" and dotted(c.func.value) == fobj]
    back = [c for c in seeks if len(c.args) == 2 and _c(c.args[0]) == -2 and (dotted(c.args[1]) in ("io.SEEK_CUR", "os.SEEK_CUR", "SEEK_CUR") or _c(c.args[1]) == 1)]
    rr_ok = bool(back) and cfg.dominates(cfg.node(fv.stmt_of(back[0])), cfg.node(pst))
    between = False
    if rr_ok:
        for c in ast.walk(loop):
            if isinstance(c, ast.Call) and isinstance(c.func, ast.Attribute) and c.func.attr == "read" and dotted(c.func.value) == fobj:
                cst = fv.stmt_of(c)
                if cfg.reaches(cfg.node(fv.stmt_of(back[0])), cfg.node(cst), avoiding=[cfg.node(pst), header]) and cst is not pst and cfg.reaches(cfg.node(cst), cfg.node(pst), avoiding=[header]):
                    between = True
    ctx.ob("R5", "CURSOR", f, "seek(-2, SEEK_CUR) before parse", rr_ok and not between, "the peeked 2 bytes are given back before the struct parse" if rr_ok and not between else "struct parse does not start at the peeked position", parse)
    arg_ok = parse.args and dotted(parse.args[0]) == fobj
    ctx.ob("R5", "AGREE", f, src(parse), bool(arg_ok), "Setting parsed from the stream itself", parse)
    # ---- R6
    cd = ctx.cdefs("beacon")["cs_struct"]
    bs, dep = cd.enum("BeaconSetting").by_name(), cd.enum("DeprecatedBeaconSetting").by_name()
    ctx.ob("R6", "TABLE", "beacon.py::CS_DEF", "index 36", bs.get("SETTING_WATERMARKHASH") == 36 and dep.get("SETTING_INJECT_OPTIONS") == 36,
           f"SETTING_WATERMARKHASH={bs.get('SETTING_WATERMARKHASH')} SETTING_INJECT_OPTIONS={dep.get('SETTING_INJECT_OPTIONS')} (both 36)")
    ctx.ob("R6", "TABLE", "beacon.py::CS_DEF", "user agent index", bs.get("SETTING_USERAGENT") == 9, f"SETTING_USERAGENT={bs.get('SETTING_USERAGENT')}")

    def idx_is(member):
        def p(t):
            for l, op, r in compare_parts(t):
                if isinstance(op, ast.Eq) and {dotted(l), dotted(r)} == {f"{sname}.index", f"BeaconSetting.{member}"}:
                    return True
            return None
        return p

    ren = [s for s in ast.walk(loop) if isinstance(s, ast.Assign) and dotted(s.targets[0]) == f"{sname}.index"]
    r_ok = len(ren) == 1 and dotted(ren[0].value) == "DeprecatedBeaconSetting.SETTING_INJECT_OPTIONS" and guarded_by(ctx, f, ren[0], idx_is("SETTING_WATERMARKHASH")) \
        and guarded_by(ctx, f, ren[0], lambda t: True if _type_test(t, "TYPE_SHORT") else None)
    ctx.ob("R6", "DOM", f, f"{sname}.index = DeprecatedBeaconSetting.SETTING_INJECT_OPTIONS", r_ok,
           "index 36 is renamed to INJECT_OPTIONS only under index==WATERMARKHASH and type==TYPE_SHORT" if r_ok else f"rename sites={[src(s) for s in ren]} not guarded by index==WATERMARKHASH and type==TYPE_SHORT", loop)
    inner = [w for w in ast.walk(loop) if isinstance(w, ast.While) and w is not loop]
    for w in inner:
        g1 = guarded_by(ctx, f, w, idx_is("SETTING_USERAGENT"))
        g2 = guarded_by(ctx, f, w, lambda t: True if any(isinstance(op, ast.Eq) and dotted(l) == f"{sname}.length" and _c(r) == 0x80 for l, op, r in compare_parts(t)) else None)
        ext = [s for s in ast.walk(w) if isinstance(s, ast.AugAssign) and dotted(s.target) == f"{sname}.value" and isinstance(s.op, ast.Add)]
        ctx.ob("R6", "DOM", f, "User-Agent continuation", g1 and g2 and bool(ext), f"continuation loop guarded by index==USERAGENT={g1}, length==0x80={g2}; extends {sname}.value={bool(ext)}", w)
    ctx.rep.count("iter_settings_inner_loops", len(inner), floor=1)


def r7(ctx):
    cd = ctx.cdefs("beacon")["cs_struct"]
    names = set(cd.enum("BeaconSetting").by_name()) | set(cd.enum("DeprecatedBeaconSetting").by_name())
    n = 0
    pat = re.compile(r"^SETTING_[A-Z0-9_]+$")
    mods = list(ctx.repo.modules.values()) + list(ctx.repo.scripts.values())
    for mod in mods:
        for node in ast.walk(mod.tree):
            key = None
            if isinstance(node, ast.Subscript) and isinstance(node.slice, ast.Constant) and isinstance(node.slice.value, str):
                key = node.slice
            elif isinstance(node, ast.Call) and isinstance(node.func, ast.Attribute) and node.func.attr == "get" and node.args and isinstance(node.args[0], ast.Constant) and isinstance(node.args[0].value, str):
                key = node.args[0]
            if key is not None and pat.match(key.value):
                n += 1
                ctx.rep.ob("R7", "VOCAB", f"{mod.relpath.split('/')[-1]}::{key.value}", key.value in names,
                           f"settings key {key.value!r} " + ("is" if key.value in names else "is NOT") + " a BeaconSetting/DeprecatedBeaconSetting member name",
                           mod.relpath, key.lineno, nontrivial=True)
            # attribute access on the enums
            if isinstance(node, ast.Attribute) and dotted(node.value) in ("BeaconSetting", "DeprecatedBeaconSetting") and pat.match(node.attr):
                en = cd.enum(dotted(node.value)).by_name()
                if node.attr not in en:
                    ctx.rep.ob("R7", "VOCAB", f"{mod.relpath.split('/')[-1]}::{dotted(node)}", False, f"{dotted(node)} is not a member of the enum", mod.relpath, node.lineno)
    ctx.rep.count("setting_key_literals", n, floor=20)
