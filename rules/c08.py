"""C08 - Untrusted input never crashes or hangs the parsers.

The property is a proof obligation ("no exception class outside the documented one can escape", "every loop ends"), so
these rules stay two-valued: what cannot be shown impossible is reported, with the entry point, the call path and the
primitive site.  The facts the proofs use are derived from the current source on every run (csverif/effects.py,
csverif/loops.py) and listed under `facts_used` in the evidence.

Technique (numbers: ALLOWED devices of RULES_GUIDE.md, "What counts as static here")
  R1  1 (resolved call graph from the untrusted-input entry points), 4 (interprocedural may-raise analysis: a frozen table
      of primitive effects - struct parse -> EOFError, seek with a possibly negative offset -> ValueError/OSError, subscript,
      division, unpacking, int()/decode ... - and per-site facts that discharge a primitive: sign facts of seek offsets
      (unsigned struct fields from the C definitions, range/tell/len, parameters over all reachable call sites, return
      values, for-targets over generators, tuple unpacking of tuple literals), length facts of sequences (dominating
      `len(x) <op> k` / truthiness tests, short-circuit operands, element lengths of most_common()/items()/grouper()),
      non-zero divisors, stream kind (BytesIO clips relative seeks), the give-back fact, the validated-DOS-header fact,
      the scanner summary (C15.R1 and C15.R3 evaluated on the current tree)), 2 (try/except context of each site on the
      CFG; dominating conditions), 3 (definitions followed through copies, tuple unpacking, `next(<genexp>, None)`, lazily
      evaluated generator expressions charged where they are consumed), 6 (constants).  Lemmas: a relative seek of
      n - <bytes this function consumed from the stream> cannot pass the start; `k * q` and `x % k` facts as listed in
      effects.py; `seq[x % k]` is in range when len(seq) >= k > 0.
  R2  2 (every cycle of a `while` loop, restricted to the loop's own nodes, passes a progress-and-exhaustion node: a struct
      parse; the non-exhausted edge of an exhaustion test on a value read in the loop whose exhausted edge leaves the
      loop; the found edge of a search that restarts at the previous match + 1 - also when the search drives the loop
      header; `next(it)` in a loop whose header asks the same iterator), 3 (tests in negation normal form, definitions of
      the tested value), position-variable progress (`v += k` / `v = v + k`, k > 0) on every cycle; self-recursion must
      switch its own guard off.  `for` loops over finite iterables are taken as terminating.
  R3  2 (from the exhaustion edge of the scan loop only `return None` is reachable, other returns are behind an
      `is None` separation; no `raise`), exits of the other entry points by class.
  R4  imported C17.R2 (rules/c17.py)."""

from __future__ import annotations

import ast

from csverif import effects, loops
from csverif.astutil import dotted, is_const, src, statements
from csverif.cfg import ENTRY, EXIT
from csverif.q import FuncView, dominating_conditions, raise_class, specialise

ENTRIES = [
    "beacon.BeaconConfig.from_bytes", "beacon.BeaconConfig.from_file", "beacon.BeaconConfig.from_path",
    "xordecode.XorEncodedFile.from_file",
    "pe.find_mz_offset", "pe.find_architecture", "pe.find_compile_stamps", "pe.find_magic_mz", "pe.find_magic_pe", "pe.find_stage_prepend_append",
    "artifact.iter_artifactkit_payloads",
    "c2.parse_raw_http",
]

# loops that are not parsers of untrusted input; one line of reason each
LOOP_EXEMPT = {
    "client.HttpBeaconClient._beacon_loop": "the beacon's main loop is infinite by design (ends on KeyboardInterrupt)",
    "utils.random_stager_uri": "rejection sampling over random URIs: terminates with probability 1, no input involved",
    "xordecode.main": "CLI copy loop",
}


def run(ctx):
    rep = ctx.rep
    rep.explanation = (
        "Interprocedural exception-escape (may-raise) analysis of every untrusted-input entry point over the resolved call "
        "graph: sources are explicit raise/assert, callees, and a frozen primitive-effect table (struct parse -> EOFError, "
        "seeks with offsets not provably >= 0 -> ValueError/OSError, int()/decode -> ValueError, to_bytes -> OverflowError, "
        "division -> ZeroDivisionError, subscripts -> IndexError/KeyError ...); try/except subtracts by class hierarchy. "
        "The escape set of each entry point must be a subset of {ValueError}. Every `while` loop of the package is analysed "
        "on its CFG for an input-exhaustion exit / progress on every cycle. The documented not-found exits are checked."
    )
    rep.not_decided = ["wall-clock bounds", "that the returned values are right (other properties)", "MemoryError / RecursionError / KeyboardInterrupt (out of scope by declaration)",
                       "TypeError/AttributeError from ill-typed values (not modelled)"]
    rep.trusted_base = ["CPython ast", "networkx", "primitive-effect table in csverif/effects.py (PRIMITIVES, EXTERNAL_RAISES)", "builtin exception hierarchy table"]
    rep.assumptions = [
        "external calls not listed in EXTERNAL_RAISES are total",
        "parameter annotations `bytes` are honoured by callers inside the package (stream-kind fact)",
        "integer parameters of the entry points (start_offset, maxrange) are non-negative (API precondition; the property quantifies over byte contents)",
    ]
    esc = effects.check_escape(ctx, "R1", ENTRIES, {"ValueError"})
    rep.count("entry_points", len(ENTRIES), floor=12)
    rep.count("functions_reached", len(esc.visited_funcs), floor=25)
    rep.count("struct_parse_sites", esc.struct_parse_sites, floor=15)
    rep.count("seek_sites", esc.seek_sites, floor=20)
    rep.extra["primitive_sites_examined"] = esc.primitive_sites
    rep.extra["subscript_sites_examined"] = esc.subscript_sites
    rep.extra["functions_analysed"] = sorted(esc.visited_funcs)
    rep.extra["facts_used"] = sorted(set(esc.facts_used))
    rep.extra["exemptions_used"] = sorted(set(esc.exempt_used))
    rep.extra["external_calls_assumed_total"] = sorted(esc.external_unknown)
    rep.extra["primitive_effect_table"] = [list(p) for p in effects.PRIMITIVES]
    r2(ctx, esc)
    r3(ctx)
    # AttributeError/TypeError are outside the escape model; the one place where a None reaches a parser is the
    # Guardrails fallback of from_file, whose guard is C17.R2 - imported here as a necessary condition
    from rules import c17

    ctx.import_obligations("R4", c17.r2)


def r2(ctx, esc):
    n = 0
    reach = esc.reach or set()
    for f in ctx.repo.all_funcs():
        for st in statements(f.node):
            if not isinstance(st, ast.While):
                continue
            n += 1
            key = f"while {src(st.test)}"
            if f.fq in LOOP_EXEMPT:
                ctx.ob("R2", "LOOP", f, key + " [exempt]", True, "exempt: " + LOOP_EXEMPT[f.fq], st, nontrivial=False)
                continue
            drv = _driven_by_exempt(ctx, esc, f, st)
            if drv:
                ctx.ob("R2", "LOOP", f, key + " [exempt]", True, "exempt: " + drv, st, nontrivial=False)
                continue
            ok, detail, info = loops.analyse_loop(ctx, f, st)
            in_reach = f.fq in reach
            # construct key: the loop header plus its first body statement, so that two `while True` in one function differ
            first = src(st.body[0])[:50] if st.body else ""
            ctx.ob("R2", "LOOP", f, f"{key} :: {first}", ok, ("[reachable from an untrusted-input entry point] " if in_reach else "[not reachable from the C08 entry points] ") + detail, st)
    ctx.rep.count("while_loops", n, floor=14)
    # bounded recursion: a function that calls itself must pass a constant that disables the recursive branch
    g = ctx.rs.callgraph()
    for f in ctx.repo.all_funcs():
        if f.fq in (esc.reach or set()) and g.has_edge(f.fq, f.fq):
            calls = [d["call"] for _u, v, d in g.out_edges(f.fq, data=True) if v == f.fq]
            for c in calls:
                conds = [t for t, pol, _n in dominating_conditions(ctx, f, c) if pol]
                off = [k.arg for k in c.keywords if k.arg in conds and is_const(k.value, False)]
                ctx.ob("R2", "LOOP", f, "recursion " + src(c)[:60], bool(off), f"self-recursion is guarded by {conds} and the recursive call passes {off}=False (depth <= 1)" if off else
                       f"self-recursion under {conds} does not switch its guard off: unbounded depth", c)


def _driven_by_exempt(ctx, esc, f, loop):
    """A generator loop that hands control back to its consumer on every cycle (each way round the loop passes a `yield`)
    runs exactly as long as the consumer keeps asking; when every call site of the generator lies in a function whose own
    loop is exempt by design, the exemption covers this producer half of that loop too.  Otherwise: ''."""
    cfg = ctx.cfg(f)
    fv = FuncView.of(f.node)
    ys = [fv.stmt_of(y) for y in ast.walk(loop) if isinstance(y, (ast.Yield, ast.YieldFrom))]
    ys = [y for y in ys if y is not None and cfg.has(y)]
    if not ys:
        return ""
    H = cfg.node(loop)
    if cfg.reaches(cfg.edge_node(loop, "true"), H, avoiding=[cfg.node(y) for y in ys]):
        return ""
    sites = esc.callsites().get(f.fq, [])
    if not sites or not all(g.fq in LOOP_EXEMPT for g, _c in sites):
        return ""
    return "producer half of " + ", ".join(sorted({g.fq for g, _c in sites})) + " (" + LOOP_EXEMPT[sites[0][0].fq] + "): every cycle yields to that consumer"


def r3(ctx):
    # pe.find_*: None / (None, None) when no MZ header is found
    for fq, want in (("pe.find_compile_stamps", "(None, None)"), ("pe.find_magic_mz", "None"), ("pe.find_magic_pe", "None"), ("pe.find_stage_prepend_append", "(None, None)")):
        f = ctx.repo.func(fq)
        cfg = ctx.cfg(f)
        mz = [dotted(s2.targets[0]) for s2 in statements(f.node) if isinstance(s2, ast.Assign) and isinstance(s2.value, ast.Call) and ctx.rs.resolve_call(f, s2.value).fq == "pe.find_mz_offset"]
        mzv = mz[0] if mz else "mz_offset"
        spec = specialise(cfg, {f"{mzv} is None": True, mzv: False})
        rets = [r for r in cfg.return_stmts() if spec.reaches(ENTRY, cfg.node(r))]
        ok = bool(rets) and all(src(r.value) == want for r in rets)
        ctx.ob("R3", "EXIT", f, "mz_offset is None", ok, f"with no MZ header found returns {[src(r.value) for r in rets]} (documented {want})")
    for fq in ("pe.find_mz_offset", "pe.find_architecture"):
        # when the scan is exhausted without an accepted candidate the function returns None: from the exhaustion edge of
        # the scan loop no `raise` is reachable, and a `return None` (or a return of a local that holds None on that path)
        # is; every exit from there that returns something else must be separated from it by an `is None` test
        f = ctx.repo.func(fq)
        cfg = ctx.cfg(f)
        scans = [s2 for s2 in statements(f.node) if isinstance(s2, (ast.For, ast.While)) and FuncView.of(f.node).enclosing(s2, (ast.For, ast.While)) is None]
        if len(scans) != 1:
            ctx.undecided("R3", "EXIT", f, "not found -> None", f"{len(scans)} top-level loops: the scan loop cannot be identified")
            continue
        loop = scans[0]
        ex = cfg.edge_node(loop, "exhaust" if isinstance(loop, ast.For) else "false")
        raises = [r for r in cfg.raise_stmts() if cfg.reaches(ex, cfg.node(r))]
        rets = [r for r in cfg.return_stmts() if cfg.reaches(ex, cfg.node(r))]
        none_rets = [r for r in rets if r.value is None or (isinstance(r.value, ast.Constant) and r.value.value is None)]
        # a returned local that can only hold None when the scan was exhausted: every definition that is live at the
        # exhaustion edge (or made after it) is the constant None
        from csverif.astutil import assignments_to as _asg

        def _none_there(r):
            if not isinstance(r.value, ast.Name):
                return False
            fv3 = FuncView.of(f.node)
            defs = []
            for st3, v3 in _asg(f.node, r.value.id):
                s3 = st3 if isinstance(st3, ast.stmt) else fv3.stmt_of(st3)
                if s3 is None or not cfg.has(s3):
                    return False
                defs.append((cfg.node(s3), v3))
            if not defs or r.value.id in [a.arg for a in f.node.args.args + f.node.args.kwonlyargs]:
                return False
            rn = cfg.node(r)
            live = []
            from csverif.q import tv_eval

            for n3, v3 in defs:
                others = [m for m, _v in defs if m != n3]
                # while this definition is live the local is known not to be None (a non-None constant, an arithmetic
                # result): branch edges that contradict it are not taken
                assume = {}
                if isinstance(v3, ast.Constant) and v3.value is not None:
                    assume = {f"{r.value.id} is None": False, r.value.id: bool(v3.value)}
                elif isinstance(v3, ast.BinOp):
                    assume = {f"{r.value.id} is None": False}
                if assume:
                    for st4 in statements(f.node):
                        if isinstance(st4, (ast.If, ast.While)) and cfg.has(st4):
                            t4 = tv_eval(st4.test, assume)
                            if t4 is not None:
                                others = others + [cfg.edge_node(st4, "false" if t4 else "true")]
                at_ex = cfg.reaches(n3, ex, avoiding=others) and cfg.reaches(ex, rn, avoiding=others)
                after = cfg.reaches(ex, n3) and cfg.reaches(n3, rn, avoiding=others)
                if at_ex or after:
                    live.append(v3)
            return bool(live) and all(isinstance(v3, ast.Constant) and v3.value is None for v3 in live)

        none_rets += [r for r in rets if r not in none_rets and _none_there(r)]
        other = [r for r in rets if r not in none_rets]
        sep = all(any(t.endswith(" is None") and not pol or t.endswith(" is not None") and pol or (not t.count(" ") and pol) for t, pol, _n in dominating_conditions(ctx, f, r)) for r in other)
        ok = not raises and (bool(none_rets) or cfg.falls_off_end()) and sep
        ctx.ob("R3", "EXIT", f, "not found -> None", ok,
               "after an exhausted scan only `return None` is reachable (other returns are behind an `is None` separation)" if ok else
               f"after an exhausted scan: raises={[src(r)[:40] for r in raises]} returns={[src(r)[:30] for r in rets]} separated={sep}", loop)
    for fq in ("xordecode.XorEncodedFile.from_file", "beacon.BeaconConfig.from_file"):
        f = ctx.repo.func(fq)
        cfg = ctx.cfg(f)
        fv = FuncView.of(f.node)
        # "nothing found" ends in ValueError: the function cannot fall off its end (which would return None), a
        # `raise ValueError` is reachable from the entry without passing a `return`, and no reachable raise names another class
        rs = [r for r in cfg.raise_stmts() if cfg.reaches(ENTRY, cfg.node(r))]
        ve = [r for r in rs if raise_class(r) == "ValueError" and fv.enclosing(r, (ast.Try,)) is None]
        other = [raise_class(r) for r in rs if raise_class(r) not in ("ValueError", None)]
        ok = bool(ve) and not cfg.falls_off_end() and not other
        ctx.ob("R3", "EXIT", f, "not found -> ValueError", ok,
               "a `raise ValueError` outside any try is reachable, the function cannot fall off its end, no other class is raised" if ok else
               f"raise ValueError reachable={bool(ve)}; falls off end={cfg.falls_off_end()}; other raised classes={other}")
    f = ctx.repo.func("c2.parse_raw_http")
    cfg = ctx.cfg(f)
    ok = not cfg.falls_off_end() and all(raise_class(r) == "ValueError" for r in cfg.raise_stmts())
    ctx.ob("R3", "EXIT", f, "exits", ok, "returns a request/response or raises ValueError; never falls off the end")
