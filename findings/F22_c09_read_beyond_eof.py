"""F22 demonstration (property C09): a read after a seek beyond the end of the decoded data moves the position although
no byte is returned; a plain file over the decoded bytes stays where it was."""
import io, os, sys
sys.path.insert(0, os.getcwd())
from dissect.cobaltstrike.xordecode import XorEncodedFile
from dissect.cobaltstrike.utils import xor, p32

plain = bytes(range(256)) * 2 + b"xyz"          # 515 bytes, not a multiple of 4
nonce = b"\x11\x22\x33\x44"
enc = nonce + xor(p32(len(plain)), nonce)
prev = nonce
padded = plain + b"\x00" * (-len(plain) % 4)
for i in range(0, len(padded), 4):
    w = xor(padded[i:i + 4], prev)
    enc += w
    prev = w
enc = enc[: 8 + len(plain)]
bad = 0
for pos in (len(plain), len(plain) + 1, len(plain) + 2, len(plain) + 7, len(plain) + 100):
    for n in (1, 5, -1):
        xf, ref = XorEncodedFile(io.BytesIO(enc)), io.BytesIO(plain)
        xf.seek(pos); ref.seek(pos)
        a, b = xf.read(n), ref.read(n)
        if a != b or xf.tell() != ref.tell():
            bad += 1
            print(f"FAIL seek({pos}); read({n}) -> {a!r} tell()={xf.tell()}   plain file: {b!r} tell()={ref.tell()}")
print("deviations:", bad)
sys.exit(1 if bad else 0)
