"""F20 / F21 demonstration (property C16): a message without header lines was parsed to headers == {b"": b""}; a request
path containing `;` was cut at the semicolon.  Run from a repository root: /venv/bin/python <this file>  (exit 0 = ok)."""
import os, sys
sys.path.insert(0, os.getcwd())
from dissect.cobaltstrike.c2 import parse_raw_http

bad = 0
for raw, want_uri, want_headers in (
    (b"GET /x HTTP/1.1\r\n\r\n", b"/x", {}),
    (b"HTTP/1.1 200 OK\r\n\r\nbody", None, {}),
    (b"GET /a;b?x=1 HTTP/1.1\r\nA: b\r\n\r\n", b"/a;b", {b"A": b"b"}),
    (b"POST /submit;jsessionid=1234 HTTP/1.1\r\nA: b\r\n\r\n", b"/submit;jsessionid=1234", {b"A": b"b"}),
):
    r = parse_raw_http(raw)
    ok = getattr(r, "uri", None) == want_uri and r.headers == want_headers
    bad += not ok
    print("ok  " if ok else "FAIL", raw, "-> uri", getattr(r, "uri", None), "headers", r.headers)
sys.exit(1 if bad else 0)
