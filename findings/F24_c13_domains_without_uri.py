"""F24 demonstration (property C13, also C03): a configuration whose SETTING_DOMAINS carries no URI (empty value as in
SMB/TCP beacons, or a lone domain) made BeaconConfig.uris contain None; profile generation raised TypeError."""
import os, struct, sys
sys.path.insert(0, os.getcwd())
from dissect.cobaltstrike.beacon import BeaconConfig
from dissect.cobaltstrike.c2profile import C2Profile


def rec(idx, typ, val):
    return struct.pack(">HHH", idx, typ, len(val)) + val


bad = 0
for dom in (b"\x00" * 256, b"a.com".ljust(256, b"\x00"), b"a.com,/x,b.com".ljust(256, b"\x00")):
    cfg = BeaconConfig(rec(8, 3, dom) + b"\x00" * 6)
    try:
        text = C2Profile.from_beacon_config(cfg).as_text()
        ok = None not in cfg.uris and ('set uri' in text) == bool(cfg.uris)
        C2Profile.from_text(text)
    except Exception as e:  # noqa
        ok, text = False, f"{type(e).__name__}: {e}"
    bad += not ok
    print("ok  " if ok else "FAIL", dom.rstrip(b"\x00"), "uris", cfg.uris, "->", repr(text)[:70])
sys.exit(1 if bad else 0)
