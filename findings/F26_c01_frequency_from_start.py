"""F26 demonstration (property C01): in all-keys mode the left-over keys are tried by byte frequency of the payload, but
the count started at the position the failed XorEncoded detection left the handle at (offset 8192, or EOF for smaller
files), so for raw payloads the first 8192 bytes were never counted and the order depended on the amount of filler."""
import io, os, struct, sys
sys.path.insert(0, os.getcwd())
from dissect.cobaltstrike.beacon import BeaconConfig


def rec(idx, typ, val):
    return struct.pack(">HHH", idx, typ, len(val)) + val


def block(key, port, size):
    cfg = rec(1, 1, struct.pack(">H", 0)) + rec(2, 1, struct.pack(">H", port)) + rec(3, 2, struct.pack(">I", 60000))
    cfg = cfg.ljust(size, b"\x00")
    return bytes(b ^ key for b in cfg)


def filler(n):
    return bytes((i * 7 + 3) % 251 + 1 for i in range(n))


bad = 0
for front, back in ((500, 300), (9000, 300), (500, 9000)):
    # key 0xcc dominates the padding (2048 byte patch area), key 0x41 has a 64 byte block in front of it
    data = filler(front) + block(0x41, 80, 64) + filler(500) + block(0xCC, 443, 2048) + filler(back)
    cfg = BeaconConfig.from_bytes(data, all_xor_keys=True)
    ok = cfg.xorkey == b"\xcc"
    bad += not ok
    print("ok  " if ok else "FAIL", f"filler {front}/{back}: key used {cfg.xorkey.hex()} (most frequent padding byte: cc)")
sys.exit(1 if bad else 0)
