"""F25 demonstration (property C09): XorEncodedFile.seek() returned the offset in the underlying file, not the position in
the decoded data that tell() reports (a file object returns its new position from seek())."""
import io, os, struct, sys
sys.path.insert(0, os.getcwd())
from dissect.cobaltstrike.utils import xor
from dissect.cobaltstrike.xordecode import XorEncodedFile

plain = bytes(range(10))
nonce = b"\x01\x02\x03\x04"
out, prev = nonce, nonce
size = xor(struct.pack("<I", len(plain)), prev)
out, prev = out + size, size
for i in range(0, len(plain), 4):
    blk = plain[i:i + 4]
    c = xor(blk, prev[:len(blk)])
    out, prev = out + c, (c + prev[len(c):])
bad = 0
for stub in (b"", b"STUB", b"x" * 33):
    xf = XorEncodedFile(io.BytesIO(stub + out), nonce_offset=len(stub))
    ref = io.BytesIO(plain)
    for args in ((0,), (3,), (2, io.SEEK_CUR), (0, io.SEEK_END), (-4, io.SEEK_END), (25,)):
        got, want = xf.seek(*args), ref.seek(*args)
        ok = got == want == xf.tell()
        bad += not ok
        print("ok  " if ok else "FAIL", f"stub={len(stub)} seek{args} -> {got} (file over the decoded bytes: {want}, tell() {xf.tell()})")
sys.exit(1 if bad else 0)
