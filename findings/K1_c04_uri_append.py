"""K1 demonstration (properties C04 / C07): data placed with the `uri-append` termination cannot be recovered as soon as the
initial request has a URI (which it always has in real traffic): recover() returns the whole URI."""
import os, sys
sys.path.insert(0, os.getcwd())
from dissect.cobaltstrike.c2 import HttpDataTransform, HttpRequest, ClientC2Data

steps = [("BUILD", "metadata"), ("BASE64URL", True), ("URI_APPEND", True)]
t = HttpDataTransform(steps)
bad = 0
for uri in (b"", b"/updates/check"):
    req = t.transform(ClientC2Data(metadata=b"\x01\x02\x03hello"), request=HttpRequest(b"GET", uri, {}, {}, b""))
    try:
        got = t.recover(req).metadata
    except Exception as e:  # noqa
        got = e
    ok = got == b"\x01\x02\x03hello"
    bad += not ok
    print("ok  " if ok else "FAIL", "initial uri", uri, "-> message uri", req.uri, "-> recovered", got)
sys.exit(1 if bad else 0)
