"""F23 demonstration (property C20): a URI followed by a newline was classified as a x64 stager URI."""
import os, sys
sys.path.insert(0, os.getcwd())
from dissect.cobaltstrike.utils import is_stager_x64, checksum8
bad = 0
for uri, want in (("/UUUT\n", False), ("/UUU^", False)):
    got = is_stager_x64(uri)
    bad += got != want
    print("ok  " if got == want else "FAIL", repr(uri), "checksum8", checksum8(uri), "is_stager_x64 ->", got)
sys.exit(1 if bad else 0)
