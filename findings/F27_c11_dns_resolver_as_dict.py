#!/venv/bin/python
"""F27 (C11.R13): the dictionary view of a built profile with the `# dns_resolver ".."` statement.

Before 525074c: AttributeError: 'str' object has no attribute 'type' (c2profile.py, as_dict, header/parameter branch).
Run from the repository root: /venv/bin/python /verif/findings/F27_c11_dns_resolver_as_dict.py   (exit 0 = holds)"""
import os
import sys

sys.path.insert(0, os.getcwd())
from dissect.cobaltstrike.c2profile import C2Profile, DnsBeaconBlock  # noqa: E402

p = C2Profile()
d = DnsBeaconBlock()
d.set_option("comment_dns_resolver", "8.8.8.8")
d.set_option("maxdns", "200")
p.set_config_block("dns_beacon", d)
text = p.as_text()
try:
    built = p.as_dict()
except AttributeError as e:
    print("BROKEN: as_dict() of the built profile raises", repr(e))
    sys.exit(1)
parsed = C2Profile.from_text(text).as_dict()
print("built :", built)
print("parsed:", parsed)
sys.exit(0 if built == parsed == {"dns-beacon.maxdns": ["200"]} else 1)
