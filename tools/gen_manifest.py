#!/usr/local/bin/python3-vt
"""Regenerate MANIFEST.json from the table below + the rule modules that exist."""

import json
import os
import sys

HERE = os.path.dirname(os.path.dirname(os.path.abspath(__file__)))

CLAIMS = {
    "C01": ("TABLE/AGREE/DOM/EXIT rules over the extraction spine (default keys, needle, key def-use, search order, first-candidate-wins, exits)",
            "static analysis: table comparison, def-use agreement, CFG dominance, exit analysis"),
    "C02": ("struct layout from the C definition, resolved unpack partials per settings type, per-view cache slot agreement, MappingProxyType exit, loop exits of iter_settings, index-36 tables, SETTING_* vocabulary",
            "static analysis: C-definition parsing, call resolution through functools.partial, CFG exit/loop analysis, vocabulary check"),
    "C03": ("opcode tables against the reference, arity classes disjoint and complete, per-branch literal agreement in the recover parser, BeaconGate group partition, cstruct API attribute existence, pretty-function table sibling agreement",
            "static analysis: exhaustive table comparison, branch/literal agreement, third-party API attribute check from installed sources"),
    "C04": ("transform/recover step vocabularies agree and cover the parser's output, inverse-pair callees, placement agreement, static-decoration taint, prepend/append slice mirror incl. the -0 slice hazard, mask split constant, build selector fields",
            "static analysis: sibling dispatch cross-check, vocabulary inclusion, interval analysis of slice bounds"),
    "C05": ("signature check dominates decryption on every verify path, verifier exit analysis, signer/verifier HMAC agreement, one signature-length constant, interval proof of pad() in [1,16], cipher construction agreement, framing writer/reader agreement",
            "static analysis: CFG dominance with branch specialisation, exit analysis, interval abstract interpretation, writer/reader agreement"),
    "C06": ("BeaconMetadata layout arithmetic (59 fixed bytes, size-51, len-8), sentinel and magic tests dominate the return, magic writer/reader agreement, key-derivation sites structurally identical",
            "static analysis: C-definition layout arithmetic, CFG dominance, sibling expression agreement"),
    "C07": ("routing exits (verb + URI prefix, no fall-through to None), setting-to-transform binding, key-validation dominance in C2Http.__init__, client/decoder binding agreement",
            "static analysis: exit analysis, keyword/def-use agreement, CFG dominance"),
    "C08": ("exception-escape analysis of every untrusted-input entry point against {ValueError}, loop exhaustion analysis of every reachable while loop, documented not-found exits",
            "static analysis: interprocedural may-raise (escape) analysis over the resolved call graph with a frozen primitive-effect table, loop-exit analysis on the CFG"),
    "C09": ("one header-length polynomial across tell/seek/__init__/iter_nonce_offsets, read accounting (bytes consumed = bytes returned), ciphertext chaining of the rolling key, candidate validation before return",
            "static analysis: symbolic cursor typestate (polynomial normal form), def-use agreement, CFG dominance"),
    "C10": ("reconstruction ambiguity of the compiled grammar (same tree name + same kept symbols => same keywords), terminal kinds, postproc token preservation",
            "static analysis of the compiled Lark grammar (exhaustive over the finite rule set) and taint check of the post-processor"),
    "C11": ("list_props entries are grammar block paths and cover the reference data-transform paths, cache coherence by dominance, builder attribute -> grammar alias/arity agreement",
            "static analysis: grammar/keyword-path enumeration, CFG dominance, builder-vs-grammar cross-check"),
    "C12": ("escape-then-quote order in value_to_string, decoder escape table equals the documented set, encoder output vocabulary accepted by decoder, STRING terminal regex structure",
            "static analysis: taint/order check, table comparison, regex AST inspection"),
    "C13": ("every tree name the generator can emit is a grammar alias of matching arity, BeaconGate and execute-list producer/consumer vocabularies, escaping taint of byte arguments, sibling branch summaries, non-empty attachment",
            "static analysis: producer/consumer vocabulary check against the compiled grammar, taint analysis, sibling cross-check"),
    "C14": ("no mutation of any object that may alias a value read from the cached settings views (interprocedural), MappingProxyType exits, who-may-write BeaconConfig attributes",
            "static analysis: flow-insensitive field-sensitive may-alias + mutation analysis with call summaries, who-may-write check"),
    "C15": ("byte provenance of the scan haystack, non-zero tail-slice bound, symbolic offset algebra, inner search restart and carry length, limit test operands, ArtifactKit header layout and loop progress",
            "static analysis: provenance taint, interval analysis, polynomial offset algebra, loop progress analysis"),
    "C16": ("first-occurrence head/body split, length test dominates each unpack, start-line positions bound to the like-named fields, response/request branch selection, header line partition, escape set",
            "static analysis: def-use agreement, CFG dominance, escape analysis"),
    "C17": ("unmasked config assigned only under the checksum-equality edge with the compared value, from_file guard on unmasked config, marker table from the C definition, geometry constants",
            "static analysis: CFG dominance with def-use, table comparison against the C definition"),
    "C18": ("PE struct layouts vs the PE/COFF reference, symbolic parse positions in every pe.find_* function, sibling constraint agreement, version tables monotone and well-formed (exhaustive), version precedence",
            "static analysis: layout table comparison, symbolic cursor typestate, exhaustive table check, CFG dominance"),
    "C19": ("handler lists never mutated through get_handlers (alias analysis), fallback dominance, parity/interval proof of the beacon id, seed-before-getrandbits dominance, info length bound, sleep-time symbolic bounds",
            "static analysis: may-alias + mutation analysis, parity/interval abstract interpretation, polynomial bounds, CFG dominance"),
    "C20": ("xor length preservation and identity shortcut, partial table (size/byteorder per name), classifier constants, generated URI returned only under its classifier, staged-beacon gate dominance, NetBIOS nibble agreement",
            "static analysis: length/interval analysis, table check, CFG dominance with flag propagation, encoder/decoder agreement"),
}

NOT_YET = "check not built yet in this revision of /verif (planned as DESIGN.md section 4.%s); not claimed until it runs"


def main():
    impl = sorted(f[:-3].upper() for f in os.listdir(os.path.join(HERE, "rules")) if f.startswith("c") and f.endswith(".py"))
    na_path = os.path.join(HERE, "tools", "not_applicable.json")
    forced_na = {}
    if os.path.exists(na_path):
        with open(na_path) as f:
            forced_na = json.load(f)
    checks = []
    na = []
    for pid, (what, tech) in CLAIMS.items():
        if pid in forced_na:
            na.append({"property_id": pid, "reason": forced_na[pid]})
            continue
        if pid not in impl:
            na.append({"property_id": pid, "reason": NOT_YET % pid})
            continue
        checks.append({
            "property_id": pid,
            "quick_cmd": f"./check {pid} --tier quick",
            "thorough_cmd": f"./check {pid} --tier thorough",
            "evidence_file": f"/verif/evidence/{pid}.json",
            "replay_cmd_template": f"./check {pid} --replay {{path}}",
            "engine": "csverif",
            "level_claimed": {
                "category": "other",
                "text": "Static analysis. Decides, on every path / for every table row of the current source, the structural "
                        f"necessary conditions of the property: {what}. It decides these clauses and not the value-level behaviour "
                        "(the V-clauses of DESIGN.md section 4), which no sound static argument in reach can bound.",
                "design_ref": f"RULES.md section {pid} (as built, per rule with the static device used); DESIGN.md sections 4 ({pid}: plan) and 13",
            },
            "level_note": "Trusted: CPython ast, networkx dominators, lark's grammar loader, the primitive-effect and reference tables "
                          "frozen in csverif (DESIGN.md section 2); call resolution is by construction/annotation, unresolved calls are "
                          "reported in the evidence. Nothing from /repo is imported or executed.",
            "technique": tech + "; subjects located by role through def-use / reaching definitions, path-wise value flow with symbolic terms "
                         "(no solver, no concrete inputs), polynomial normal forms and stated algebraic lemmas; three-valued verdicts (an unlocatable "
                         "subject is undecided, never a violation)",
        })
    man = {
        "version": 1,
        "setup_cmd": "python3-vt -m compileall -q csverif rules selftest && python3-vt check --self-validate",
        "hooks": {
            "guard": "DISSECT_COBALTSTRIKE_VERIF",
            "enable": "none needed: the checks read /repo's sources statically, no instrumentation is compiled in",
            "baseline_off_cmd": "cd /repo && /venv/bin/python -m pytest -ra -q -p no:cacheprovider --timeout=900 --continue-on-collection-errors",
            "source_commits": [],
            "add_only": True,
        },
        "engines": [{
            "name": "csverif",
            "path": "/verif/csverif",
            "serves_properties": [c["property_id"] for c in checks],
            "kind_free_text": "repository-specific static analyser: ast-based CFG/dominators, call resolution, escape (may-raise) analysis, "
                              "may-alias/mutation analysis, interval/parity/length abstract interpretation, symbolic cursor typestate, "
                              "C-definition and Lark-grammar table checks",
        }],
        "checks": checks,
        "not_applicable": na,
        "notes": "All checks are static (no code from /repo is imported, executed or interpreted on concrete inputs; technique policy in "
                 "RULES_GUIDE.md). Thorough tier = quick rules + scripts/ + the mutant/twin self-test corpus of the property (selftest/) + the "
                 "independently written patches under seeded/ (breaking, must be reported) and benign/ (behaviour-preserving, listed if they "
                 "alarm) applied to scratch copies of the committed tree. Obligations end discharged, violated (exit 1) or undecided (listed "
                 "in the evidence, exit status unaffected). Exit 2 + ANALYSIS-ERROR means the analysis itself is broken (vanished anchor, "
                 "a rule matching nothing, self-test mismatch) and nothing is claimed.",
    }
    with open(os.path.join(HERE, "MANIFEST.json"), "w") as f:
        json.dump(man, f, indent=1)
        f.write("\n")
    try:
        import jsonschema
        with open("/root/.vp/MANIFEST.schema.json") as f:
            jsonschema.validate(man, json.load(f))
        print("MANIFEST.json valid;", len(checks), "checks,", len(na), "not_applicable")
    except ImportError:
        print("written (jsonschema unavailable)")


if __name__ == "__main__":
    main()
