#!/usr/local/bin/python3-vt
"""Generate the one-module rule-maintenance prompts ("wave" prompts) that follow a seeding / refactoring round.

    tools/gen_fix_prompts.py <out-dir> <wave-label> <benign-scan.log> <seed-scan.log> [--minutes=N] [--also=Cnn,..] [Cnn ...]

<benign-scan.log> / <seed-scan.log> are the outputs of
    tools/seed_scan.py --benign --verbose <new benign ids>      and      tools/seed_scan.py --verbose <new seeded ids>
(either may be /dev/null).  For every rule module that raised a false alarm on a new refactoring (Part A) or whose
property has a new seeded change its own check does not report (Part B), <out-dir>/<Cnn>.<wave-label>.txt is written.
The text is the same template every earlier wave used (tools/prompts/ keeps examples).
"""
import json
import os
import re
import sys

V = os.path.dirname(os.path.dirname(os.path.abspath(__file__)))


def props():
    out = {}
    for line in open(os.path.join(V, "properties.jsonl")):
        if line.strip():
            d = json.loads(line)
            out[d["id"]] = d
    return out


def parse(log):
    """-> {label: {"own": [...], "other": [...], "constructs": [...]}}"""
    res, cur = {}, None
    if not os.path.exists(log):
        return res
    for line in open(log):
        m = re.match(r"^(\S+)\s+own=(\S+)\s+other=(\S+)", line)
        if m:
            cur = {"own": [] if m.group(2) == "-" else m.group(2).split(","), "other": [] if m.group(3) == "-" else m.group(3).split(","),
                   "constructs": []}
            res[m.group(1)] = cur
        elif cur is not None and line.startswith("       ") and line.strip():
            cur["constructs"].append(line.strip())
    return res


def owner(construct):
    m = re.search(r"\[(C\d\d)\.R", construct)
    if m:
        return m.group(1)
    m = re.match(r"(C\d\d)\.", construct)
    return m.group(1) if m else None


TEMPLATE = """You are a maintainer of a repository-specific static checker that lives in /verif (python, stdlib `ast` + networkx; run with `python3-vt`). It decides 20 semantic properties of the Python library in /repo (fox-it/dissect.cobaltstrike) WITHOUT running it. Your assignment is ONE rule module: /verif/rules/{low}.py (property {pid}) and its corpus file /verif/selftest/extra/{low}.py.

READ FIRST: /verif/RULES_GUIDE.md completely (obligations and the three outcomes discharged/violated/undecided; engine API; regression commands; and the BINDING technique policy in the last section: no running/interpreting /repo code on inputs chosen by the checker, no enumeration of numeric inputs, no sample strings), then the module docstring of /verif/rules/{low}.py (its `Technique` section says what each rule does and with which device).

The property (fixed): {pid}: {title}
{statement}
Quantifier: {quant}

PART A - FALSE ALARMS. {parta}

PART B - MISSED BREAKING CHANGES. {partb}

Tools: `python3-vt tools/show_norm.py <patch.diff> <module.func> ...` prints the (normalised) code the rules see with a patch applied; `python3-vt tools/seed_scan.py --props={pid} --verbose <ids or patch files>` evaluates your check on scratch copies (never touches /repo).

REGRESSION - all must hold at the end:
 - `./check {pid}` on unchanged /repo: violations=0, exit 0; nothing that is decided today may become undecided without a stated reason. (A new rule must hold on the current tree; if it does not, either it demands more than the property or you found a genuine defect of /repo - report that, do not suppress it.)
 - `python3-vt tools/seed_scan.py --props={pid} --verbose $(ls seeded | grep '^{pid}')`: every seeded change of this property reported by the own check wherever a sound rule can;
 - `python3-vt selftest/runner.py {pid}`: 0 problems. Add `M` entries for new rules (a different mutation of the same kind than the seed) and `T` twins for the refactoring kinds you make rules robust against, in selftest/extra/{low}.py;
 - `python3-vt tools/seed_scan.py --benign --props={pid} --rules={pid} --verbose`: silent on ALL benign refactorings (undecided is fine){extra_props};
 - `python3-vt selftest/autotwins.py --props={pid}`: 0 false alarms.
Keep the module docstring (`Technique` section, rule list) and `rep.explanation` / `rep.trusted_base` / `rep.not_decided` accurate.

CONSTRAINTS: edit ONLY /verif/rules/{low}.py and /verif/selftest/extra/{low}.py. Do not edit csverif/, other rule modules, tools, selftest/corpus.py, benign/ or seeded/, or anything in /repo (other people edit other modules at the same time; keep the names and signatures of `run` and the `r*` functions - some are imported elsewhere). Never import or execute code from /repo. No state-changing git commands. Keep `./check {pid}` fast.

REPORT: Part A per benign alarm: what it was and how it is handled (generalised / undecided + why). Part B per seeded change: the necessary condition added (rule id, one paragraph) or why it is out of reach. Final last lines of the five regression commands. Anything that looks like a genuine defect of the unchanged /repo.

If a seeded change breaks a clause that no sound static necessary condition within the technique policy can catch, say so plainly (with the reason) instead of forcing a rule: an honest 'out of reach' is acceptable for an individual change; a brittle recogniser is not. Known-finding note: `./check C04` / `./check C07` print one KNOWN-FINDING line (uri_append) - that is expected.
BINDING, REPEATED: no state-changing git command whatsoever in /verif or /repo (no stash, checkout, reset, restore, commit, clean) - other people edit other files of this working tree at the same time; to look at the committed version of a file use `git show HEAD:<path>` only. TIME: you have about {minutes} minutes; prefer one well-tested general rule per item over breadth; FALSE ALARMS (Part A) come first.
"""


def main():
    args = [a for a in sys.argv[1:] if not a.startswith("--")]
    out_dir, wave, blog, slog = args[:4]
    only = set(args[4:])
    minutes = 60
    for a in sys.argv[1:]:
        if a.startswith("--minutes="):
            minutes = int(a.split("=")[1])
    P = props()
    ben, seeds = parse(blog), parse(slog)
    alarms = {}  # module -> {benign id: [constructs]}
    users = {}  # module -> properties whose check showed the alarm
    for lab, r in ben.items():
        for c in r["constructs"]:
            o = owner(c)
            if o:
                alarms.setdefault(o, {}).setdefault(lab, []).append(c)
                m = re.match(r"(C\d\d)\.", c)
                if m:
                    users.setdefault(o, set()).add(m.group(1))
    missed = {}
    for lab, r in seeds.items():
        if not r["own"] and os.path.exists(os.path.join(V, "seeded", lab, "meta.json")):
            meta = json.load(open(os.path.join(V, "seeded", lab, "meta.json")))
            missed.setdefault(meta["property"], []).append((lab, r["other"], " ".join(str(meta.get("summary", "")).split())[:900]))
    os.makedirs(out_dir, exist_ok=True)
    made = []
    also = set()
    for a in sys.argv[1:]:
        if a.startswith("--also="):
            also = set(a.split("=")[1].split(","))
    for pid in sorted(set(alarms) | set(missed) | also):
        if only and pid not in only:
            continue
        p = P[pid]
        if pid in alarms:
            lines = []
            for lab, cs in sorted(alarms[pid].items()):
                note = os.path.join(V, "benign", lab, "note.json")
                kind = json.load(open(note)).get("kind", "") if os.path.exists(note) else ""
                lines.append(f"  - benign/{lab} ({kind[:160]}):")
                lines += [f"        {c[:260]}" for c in cs[:14]]
                if len(cs) > 14:
                    lines.append(f"        ... and {len(cs) - 14} more")
            up = ",".join(sorted(users.get(pid, {pid}) | {pid}))
            parta = ("A new, independent batch of behaviour-preserving refactorings (under /verif/benign/, each with note.json explaining the "
                     "change and why it is equivalent) makes rules of YOUR module report violations:\n" + "\n".join(lines) +
                     f"\n(list them yourself with `python3-vt tools/seed_scan.py --benign --props={up} --rules={pid} --verbose <ids>`.) Make the rules "
                     "silent on these and on refactorings of the same kinds, by generalising the rule (preferred) or - only when the subject "
                     "cannot be located any more - by `ctx.undecided`. Never special-case a patch. First make sure the refactoring really is "
                     "behaviour-preserving for the property (read note.json); if you can show it is NOT, say so in the report and keep the alarm.")
        else:
            parta = (f"None are known for your module: `python3-vt tools/seed_scan.py --benign --props={pid} --rules={pid} --verbose` is silent on all "
                     "behaviour-preserving refactorings under /verif/benign/. It must stay that way after your changes (never demand a spelling, "
                     "never special-case a patch; `ctx.undecided` when the subject cannot be located).")
        if pid in missed:
            lines = [f"  - seeded/{lab} (other properties' checks that do report it: {', '.join(o) or 'none'}): {s}" for lab, o, s in missed[pid]]
            partb = ("Independent developers planted new realistic breaking changes for this property (confirmed: the repo's whole suite still "
                     "passes; demo.py fails with the change, passes without). The property's own check does NOT report these:\n" + "\n".join(lines) +
                     "\nFor each: read patch.diff, demo.py and meta.json, work out which clause of the property breaks, and add the *general "
                     "structural necessary condition of the property that the change violates* (a rule that would catch other changes of the same "
                     "kind too, NOT a recogniser for this patch). If no sound static necessary condition within the technique policy can catch it, "
                     "say so in your report with the reason - do not force a brittle rule.")
        else:
            partb = "None this round: every new seeded change of this property is reported by its own check. Keep it that way."
        ups = sorted(users.get(pid, set()) - {pid})
        extra = f"; also `--props={','.join(ups)} --rules={pid}` (those checks import your rules)" if ups else ""
        txt = TEMPLATE.format(low=pid.lower(), pid=pid, title=p["title"], statement=p["statement"], quant=p["quantifier"]["text"],
                              parta=parta, partb=partb, extra_props=extra, minutes=minutes)
        fn = os.path.join(out_dir, f"{pid}.{wave}.txt")
        open(fn, "w").write(txt)
        made.append((pid, len(alarms.get(pid, {})), len(missed.get(pid, []))))
    for pid, a, b in made:
        print(f"{pid}: false alarms on {a} refactorings, {b} missed seeds")


if __name__ == "__main__":
    main()
