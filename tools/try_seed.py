#!/usr/local/bin/python3-vt
"""Apply a seeded patch to /repo, run the quick checks, undo the patch.

usage: tools/try_seed.py <patch.diff> [Cnn ...]     (default: all properties)
Prints, per property, exit status and the violated rules.  /repo is always restored
(git checkout -- .) even on error.
"""

import json
import os
import subprocess
import sys

import signal

try:
    signal.signal(signal.SIGPIPE, signal.SIG_DFL)
except (AttributeError, ValueError):
    pass

VERIF = os.path.dirname(os.path.dirname(os.path.abspath(__file__)))
REPO = "/repo"


def main():
    patch = os.path.abspath(sys.argv[1])
    props = [p.upper() for p in sys.argv[2:]] or [f"C{i:02d}" for i in range(1, 21)]
    st = subprocess.run(["git", "-C", REPO, "status", "--porcelain"], capture_output=True, text=True).stdout.strip()
    if st:
        print("refusing: /repo has uncommitted changes:\n" + st)
        return 2
    r = subprocess.run(["git", "-C", REPO, "apply", patch], capture_output=True, text=True)
    if r.returncode != 0:
        print("patch does not apply:", r.stderr.strip())
        return 2
    caught = {}
    try:
        for p in props:
            r = subprocess.run([os.path.join(VERIF, "check"), p, "--tier", "quick"], capture_output=True, text=True, cwd=VERIF)
            rules = []
            rp = os.path.join(VERIF, "out", f"{p}.violations.json")
            if r.returncode == 1 and os.path.exists(rp):
                with open(rp) as f:
                    rules = sorted({f"{v['rule']} {v['construct'][:70]}" for v in json.load(f)["violations"]})
            if r.returncode != 0:
                caught[p] = (r.returncode, rules, [l for l in r.stdout.splitlines() if "ANALYSIS-ERROR" in l][:3])
    finally:
        subprocess.run(["git", "-C", REPO, "checkout", "--", "."], check=False)
        # evidence files were rewritten on the mutated tree: regenerate them on the clean tree
        for p in caught:
            subprocess.run([os.path.join(VERIF, "check"), p, "--tier", "quick"], capture_output=True, text=True, cwd=VERIF)
    if not caught:
        print("NOT DETECTED by", ",".join(props))
    for p, (rc, rules, errs) in caught.items():
        print(f"{p}: exit {rc}")
        for x in rules[:8]:
            print("   ", x)
        for e in errs:
            print("   ", e)
    return 0


if __name__ == "__main__":
    sys.exit(main())
