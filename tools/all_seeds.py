#!/usr/local/bin/python3-vt
"""Run every seeded change under /verif/seeded against the check of the property it breaks (and update meta.json)."""
import json, os, subprocess, sys
V = os.path.dirname(os.path.dirname(os.path.abspath(__file__)))
missed = 0
for sid in sorted(os.listdir(os.path.join(V, "seeded"))):
    d = os.path.join(V, "seeded", sid)
    mp = os.path.join(d, "meta.json")
    if not os.path.exists(mp):
        continue
    meta = json.load(open(mp))
    prop = meta["property"]
    out = subprocess.run(["python3-vt", os.path.join(V, "tools", "try_seed.py"), os.path.join(d, "patch.diff"), prop], capture_output=True, text=True, cwd=V).stdout
    rules = sorted({l.strip().split(" ")[0] for l in out.splitlines() if l.startswith("    C")})
    meta["detected_by"], meta["detected"] = rules, bool(rules)
    if "--all" in sys.argv:
        out2 = subprocess.run(["python3-vt", os.path.join(V, "tools", "try_seed.py"), os.path.join(d, "patch.diff")], capture_output=True, text=True, cwd=V).stdout
        meta["detected_by_all_checks"] = sorted({l.strip().split(" ")[0] for l in out2.splitlines() if l.startswith("    C")})
    json.dump(meta, open(mp, "w"), indent=1)
    if not rules:
        missed += 1
    print(f"{sid:8s} {'caught by ' + ','.join(rules) if rules else 'NOT DETECTED'}")
print("missed:", missed)
sys.exit(1 if missed else 0)
