#!/usr/local/bin/python3-vt
"""Install sub-agent deliveries into the stored corpora.

    tools/install_deliveries.py benign <round-dir> <round-no> <first-letter> [Cnn ...]   <round-dir>/Cnn/{a,b,c}/ -> benign/Cnn<letter..>
    tools/install_deliveries.py seed   <round-dir> <round-no> <first-letter> [Cnn ...]   <round-dir>/Cnn/{a,b}/   -> seeded/Cnn<letter..>

Only copies (patch.diff, note.json | demo.py, meta.json); seeds must have been confirmed with tools/verify_seeds.py first.
Existing targets are left alone."""
import json
import os
import shutil
import sys

V = os.path.dirname(os.path.dirname(os.path.abspath(__file__)))


def main():
    kind, src, rnd, first = sys.argv[1:5]
    props = sys.argv[5:] or sorted(d for d in os.listdir(src) if os.path.isdir(os.path.join(src, d)) and d.startswith("C"))
    base = os.path.join(V, "benign" if kind == "benign" else "seeded")
    for p in props:
        for k, v in enumerate("abc" if kind == "benign" else "ab"):
            d = os.path.join(src, p, v)
            if not os.path.exists(os.path.join(d, "patch.diff")):
                print("missing", d)
                continue
            tid = p + chr(ord(first) + k)
            t = os.path.join(base, tid)
            if os.path.exists(t):
                print("exists", tid)
                continue
            os.makedirs(t)
            shutil.copy(os.path.join(d, "patch.diff"), t)
            mf = "note.json" if kind == "benign" else "meta.json"
            try:
                m = json.load(open(os.path.join(d, mf)))
            except Exception as e:
                m = {"property": p, "summary": f"({mf} unreadable: {e})"}
            m["property"] = p
            m["round"] = int(rnd)
            json.dump(m, open(os.path.join(t, mf), "w"), indent=1)
            if kind != "benign":
                for f in ("demo.py", "demo_test.py"):
                    if os.path.exists(os.path.join(d, f)):
                        shutil.copy(os.path.join(d, f), t)
            print("installed", tid)


if __name__ == "__main__":
    main()
