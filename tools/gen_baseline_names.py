#!/usr/local/bin/python3-vt
"""Write csverif/baseline_names.json: per module of the package at /repo HEAD, the module-level names and the
function qualnames (module-level functions and methods of module-level classes).  This is the vocabulary the rules were
written against; csverif/normalise.py expands names that are *not* in it (new helpers, new constants)."""
import ast, json, os, subprocess
V = os.path.dirname(os.path.dirname(os.path.abspath(__file__)))
files = subprocess.run(["git", "-C", "/repo", "ls-tree", "--name-only", "HEAD", "dissect/cobaltstrike/"], capture_output=True, text=True, check=True).stdout.split()
out = {}
for f in sorted(files):
    if not f.endswith(".py"):
        continue
    src = subprocess.run(["git", "-C", "/repo", "show", f"HEAD:{f}"], capture_output=True, text=True, check=True).stdout
    tree = ast.parse(src)
    names, funcs = set(), set()
    for st in tree.body:
        if isinstance(st, (ast.FunctionDef, ast.AsyncFunctionDef)):
            funcs.add(st.name); names.add(st.name)
        elif isinstance(st, ast.ClassDef):
            names.add(st.name)
            for s2 in st.body:
                if isinstance(s2, (ast.FunctionDef, ast.AsyncFunctionDef)):
                    funcs.add(f"{st.name}.{s2.name}")
        else:
            for n in ast.walk(st):
                if isinstance(n, ast.Name) and isinstance(n.ctx, ast.Store):
                    names.add(n.id)
                elif isinstance(n, ast.alias):
                    names.add((n.asname or n.name).split(".")[0])
    out[os.path.basename(f)[:-3]] = {"names": sorted(names), "functions": sorted(funcs)}
json.dump(out, open(os.path.join(V, "csverif", "baseline_names.json"), "w"), indent=0, sort_keys=True)
print({k: (len(v["names"]), len(v["functions"])) for k, v in out.items()})
