#!/usr/local/bin/python3-vt
"""Debug aid: apply a patch to a scratch copy of /repo HEAD and print the normalised source of the given functions.
usage: tools/show_norm.py <patch.diff|-> module.func [module.func ...]"""
import ast, os, shutil, subprocess, sys
V = os.path.dirname(os.path.dirname(os.path.abspath(__file__)))
sys.path.insert(0, V); os.chdir(V)
from tools.seed_scan import head_copy
from csverif.loader import Repo
tmp = head_copy()
try:
    if sys.argv[1] != "-":
        r = subprocess.run(["git", "apply", "--whitespace=nowarn", os.path.abspath(sys.argv[1])], cwd=tmp, capture_output=True, text=True)
        if r.returncode: print(r.stderr)
    repo = Repo(tmp)
    print("norm stats:", {k: v for k, v in repo.norm_stats.items() if v})
    for fq in sys.argv[2:]:
        f = repo.func(fq)
        print("#", fq); print(ast.unparse(f.node)); print()
finally:
    shutil.rmtree(tmp, ignore_errors=True)
