#!/usr/local/bin/python3-vt
"""Evaluate every seeded change under /verif/seeded (or the given patch files) against ALL 20 checks, in parallel,
without touching /repo's working tree.

For each patch a scratch copy of the package *as committed at /repo HEAD* is written under a fresh temporary directory
(outside /repo and /verif), the patch is applied there with `git apply`, the rule modules are evaluated in-process with
that directory as the analysis root (no evidence is written), and the directory is removed.  A rule counts as reporting
the change when it has a violated obligation that the unchanged tree does not have.

usage: tools/seed_scan.py [--update] [--own-only] [seeded-id | patch.diff ...]
  --update   rewrite detected_by / detected_by_all_checks in seeded/<id>/meta.json
This is a development aid equivalent to `git -C /repo apply <patch>; ./check Cnn; git -C /repo checkout -- .`
(tools/try_seed.py does exactly that for one patch and is what DESIGN.md section 11 describes).
"""

import importlib
import io
import json
import os
import shutil
import subprocess
import sys
import tarfile
import tempfile
from concurrent.futures import ProcessPoolExecutor

V = os.path.dirname(os.path.dirname(os.path.abspath(__file__)))
sys.path.insert(0, V)
os.chdir(V)
REPO = "/repo"
ALL = [f"C{i:02d}" for i in range(1, 21)]


def head_copy() -> str:
    tmp = tempfile.mkdtemp(prefix="csverif-seed-")
    paths = ["dissect/cobaltstrike", "scripts"]
    if subprocess.run(["git", "-C", REPO, "cat-file", "-e", "HEAD:docs"], capture_output=True).returncode == 0:
        paths.append("docs")  # some patches also touch the documentation sources
    data = subprocess.run(["git", "-C", REPO, "archive", "HEAD"] + paths, capture_output=True, check=True).stdout
    with tarfile.open(fileobj=io.BytesIO(data)) as t:
        t.extractall(tmp)
    return tmp


def violations(prop, root):
    from csverif import AnalysisError
    from csverif.context import Ctx

    mod = importlib.import_module(f"rules.{prop.lower()}")
    ctx = Ctx(prop, "quick", root)
    try:
        mod.run(ctx)
    except AnalysisError as e:
        return set(), [str(e)]
    except Exception as e:  # internal error = analysis error
        return set(), [f"internal: {type(e).__name__}: {e}"]
    return {(o.rule, o.construct) for o in ctx.rep.obs if not o.ok and not o.undecided}, list(ctx.rep.analysis_errors)


def baseline(prop):
    tmp = head_copy()
    try:
        return prop, sorted(violations(prop, tmp)[0])
    finally:
        shutil.rmtree(tmp, ignore_errors=True)


def scan(args):
    label, patch, props, base = args
    tmp = head_copy()
    try:
        r = subprocess.run(["git", "apply", "--whitespace=nowarn", patch], cwd=tmp, capture_output=True, text=True)
        if r.returncode != 0:
            return label, None, "patch does not apply: " + r.stderr.strip()[:200]
        out = {}
        for p in props:
            bad, errs = violations(p, tmp)
            new = sorted(b for b in bad if list(b) not in base[p] and tuple(b) not in [tuple(x) for x in base[p]])
            if new or errs:
                out[p] = {"rules": sorted({b[0] for b in new}), "constructs": [f"{b[0]} {b[1][:100]}" for b in new][:40], "errors": errs[:2]}
        return label, out, None
    finally:
        shutil.rmtree(tmp, ignore_errors=True)


def main():
    args = [a for a in sys.argv[1:] if not a.startswith("--")]
    update = "--update" in sys.argv
    own_only = "--own-only" in sys.argv
    benign = "--benign" in sys.argv
    props = ALL
    rules_prefix = None
    for a in sys.argv[1:]:
        if a.startswith("--props="):
            props = [x.upper() for x in a.split("=", 1)[1].split(",")]
        if a.startswith("--rules="):
            rules_prefix = a.split("=", 1)[1].upper()
    items = []
    sd = os.path.join(V, "benign" if benign else "seeded")
    if not args:
        args = sorted(d for d in os.listdir(sd) if os.path.exists(os.path.join(sd, d, "patch.diff")))
    for a in args:
        if os.path.exists(os.path.join(sd, a, "patch.diff")):
            own = None
            if not benign:
                own = json.load(open(os.path.join(sd, a, "meta.json")))["property"]
            items.append((a, os.path.join(sd, a, "patch.diff"), own))
        else:
            items.append((a, os.path.abspath(a), None))
    with ProcessPoolExecutor(max_workers=16) as ex:
        base = dict(ex.map(baseline, props))
        dirty = {p: b for p, b in base.items() if b}
        if dirty:
            print("NOTE: unchanged HEAD already has violations:", dirty)
        work = [(lab, patch, ([own] if own_only and own and own in props else props), base) for lab, patch, own in items]
        res = list(ex.map(scan, work))
    own_hit = other_hit = none = 0
    for (lab, patch, own), (_l, out, err) in zip(items, res):
        if err:
            print(f"{lab:10s} ERROR {err}")
            continue
        if rules_prefix:
            # keep only alarms raised by rules of that module (own id, or imported: "[Cnn.Rk]" in the construct)
            flt = {}
            for p, v in out.items():
                cs = [c for c in v["constructs"] if c.startswith(rules_prefix + ".") or f"[{rules_prefix}." in c]
                if cs or v["errors"]:
                    flt[p] = {"rules": sorted({c.split(" ")[0] for c in cs}), "constructs": cs, "errors": v["errors"]}
            out = flt
        mine = out.get(own, {}).get("rules", []) if own else []
        errs_own = out.get(own, {}).get("errors", []) if own else []
        others = sorted(r for p, v in out.items() if p != own for r in v["rules"])
        others += sorted(f"{p}:ANALYSIS-ERROR" for p, v in out.items() if p != own and v["errors"] and not v["rules"])
        if mine:
            own_hit += 1
        elif others:
            other_hit += 1
        else:
            none += 1
        print(f"{lab:10s} own={','.join(mine) or '-':28s} other={','.join(others) or '-'}" + (f"  [analysis-error in own check: {errs_own[0][:80]}]" if errs_own and not mine else ""))
        if "--verbose" in sys.argv:
            for p, v in sorted(out.items()):
                for c in v["constructs"]:
                    print("      ", c)
                for e in v["errors"]:
                    print("       ANALYSIS-ERROR", p, e[:120])
        if update and own:
            mp = os.path.join(sd, lab, "meta.json")
            meta = json.load(open(mp))
            meta["detected_by"] = mine
            meta["detected"] = bool(mine)
            meta["detected_by_all_checks"] = sorted(set(mine) | set(others))
            json.dump(meta, open(mp, "w"), indent=1)
    if benign or not any(own for _l, _p, own in items):
        print(f"total {len(items)}: silent {none}, with alarms {own_hit + other_hit}")
        return 0 if own_hit + other_hit == 0 else 1
    print(f"total {len(items)}: own-property check {own_hit}, other checks only {other_hit}, none {none}")
    return 0 if none == 0 else 1


if __name__ == "__main__":
    sys.exit(main())
