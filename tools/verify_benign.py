#!/usr/local/bin/python3-vt
"""Confirm behaviour-preserving deliveries as far as the repository's own suite can: for each benign/<id> (or directory
with patch.diff) a scratch copy of /repo HEAD is made under /tmp, the patch applied and the whole suite run.

usage: tools/verify_benign.py <id or dir> [...]     prints one line per patch; exit 1 if any fails"""
import io
import os
import shutil
import subprocess
import sys
import tarfile
import tempfile
from concurrent.futures import ThreadPoolExecutor

V = os.path.dirname(os.path.dirname(os.path.abspath(__file__)))
REPO = "/repo"


def one(a):
    d = a if os.path.isdir(a) else os.path.join(V, "benign", a)
    tmp = tempfile.mkdtemp(prefix="csverif-benign-")
    try:
        data = subprocess.run(["git", "-C", REPO, "archive", "HEAD"], capture_output=True, check=True).stdout
        with tarfile.open(fileobj=io.BytesIO(data)) as t:
            t.extractall(tmp)
        r = subprocess.run(["git", "apply", "--whitespace=nowarn", os.path.join(os.path.abspath(d), "patch.diff")], cwd=tmp, capture_output=True, text=True)
        if r.returncode:
            return a, False, "patch does not apply: " + r.stderr.strip()[:200]
        r = subprocess.run(["/venv/bin/python", "-m", "pytest", "-q", "-p", "no:cacheprovider", "-x"], cwd=tmp, capture_output=True, text=True, timeout=1800)
        last = (r.stdout.strip().splitlines() or [""])[-1]
        return a, r.returncode == 0, last
    finally:
        shutil.rmtree(tmp, ignore_errors=True)


def main():
    bad = 0
    with ThreadPoolExecutor(max_workers=8) as ex:
        for a, ok, msg in ex.map(one, sys.argv[1:]):
            print(("ok   " if ok else "FAIL ") + a + "  " + msg, flush=True)
            bad += not ok
    return 1 if bad else 0


if __name__ == "__main__":
    sys.exit(main())
