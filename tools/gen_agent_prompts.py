#!/usr/bin/env python3
"""Generate the prompts given to independent sub-agents that (a) plant breaking changes ("seed") or (b) write
behaviour-preserving refactorings ("benign") for one property.  The agents get ONLY the property text, the anchors and
one-line summaries of what others already delivered - nothing from /verif.

    tools/gen_agent_prompts.py seed   <round-dir> <worktree-dir> [Cnn ...]
    tools/gen_agent_prompts.py benign <round-dir> <worktree-dir> [Cnn ...]

writes <round-dir>/<Cnn>.prompt.txt and creates <round-dir>/<Cnn>/.
"""
import json
import os
import sys

HERE = os.path.dirname(os.path.dirname(os.path.abspath(__file__)))


def props():
    out = {}
    for line in open(os.path.join(HERE, "properties.jsonl")):
        if line.strip():
            d = json.loads(line)
            out[d["id"]] = d
    return out


def header(p):
    mech = "\n".join(f"  - {m['name']} ({m['where']})" for m in p["anchors"]["mechanism"])
    return (f"{p['id']}: {p['title']}\n\nSTATEMENT:\n{p['statement']}\n\nQUANTIFIER:\n{p['quantifier']['text']}\n\n"
            f"The code this property is about:\n{mech}\n")


def earlier(kind, pid):
    base = os.path.join(HERE, "seeded" if kind == "seed" else "benign")
    out = []
    for d in sorted(os.listdir(base)):
        if not d.startswith(pid):
            continue
        f = os.path.join(base, d, "meta.json" if kind == "seed" else "note.json")
        if not os.path.exists(f):
            continue
        m = json.load(open(f))
        if kind == "seed":
            out.append("  - " + " ".join(str(m.get("summary", "")).split())[:420])
        else:
            out.append("  - " + (str(m.get("kind", "")) + ": " + " ".join(str(m.get("summary", "")).split()))[:320])
    return "\n".join(out)


SEED = """You are helping to evaluate a verification tool. Your job is to plant ONE realistic, subtle defect (plus a SECOND, mechanistically different one) in a Python library, fox-it/dissect.cobaltstrike (parsers for Cobalt Strike beacon configs, Malleable C2 profiles, XOR-encoded payloads and beacon HTTP C2 traffic).

Your scratch copy of the repository is the git worktree at {wt} (work ONLY there; never touch /repo or /verif, never write any file under /repo, and do not read anything under /verif). Run things with the interpreter /venv/bin/python and with the current directory set to the worktree, e.g.
    cd {wt} && /venv/bin/python -m pytest -q -p no:cacheprovider
(the whole suite takes about a minute; the package imported is then the worktree's copy - scripts run from another directory import the installed copy in /repo instead, so always run from the worktree root or insert it at the front of sys.path). There is no network.

The semantic property your change must BREAK is:

{header}
Other contributors have ALREADY planted the following changes for this property; yours must be mechanistically DIFFERENT from all of them (different function, or a different kind of mistake), so do not repeat them:
{earlier}

Requirements for each change:
1. It is a change to the library source under dissect/cobaltstrike/ (Python or the .lark grammar), a few lines up to a small restructuring, the kind of mistake or "simplification"/"optimisation"/"clean-up" a real contributor could make (a dropped guard, an off-by-one, a copy-pasted branch, a wrong constant, an alias typo, an object returned or stored by reference, a swapped operand, an exception class changed, a check moved after its use, a loop rewritten with a subtly different exit condition, a helper extracted that loses a case, state updated in the wrong order, a default argument changed, a cache introduced that is not invalidated, a standard-library call swapped for a near-equivalent ...). Prefer a change that is dressed as a plausible refactoring. Not sabotage that any reader would spot as nonsense, and not a change that merely renames things.
2. The code must still import/compile and the ENTIRE existing test suite must still pass with the change (run it and confirm the same number of passing tests as before the change; currently all tests pass).
3. The change must need something specific to manifest: an unusual input, a boundary value, a particular sequence of operations, two cooperating sites that each look fine alone, a rarely used option - NOT something ordinary use would expose at once.
4. Write a demonstration (a plain script) that FAILS (exit status non-zero) with the change applied and PASSES (exit 0) on the unchanged code. Verify both directions yourself (flip with `git diff > <file>; git checkout -- .` and `git apply <file>`; do NOT use git stash).

Deliver, in the directories {out}/a/ and {out}/b/ (one per change; each patch relative to the UNCHANGED tree):
  - patch.diff   : output of `git -C {wt} diff` for exactly this change (applies with `git apply` to the unchanged tree)
  - demo.py      : the demonstration; runnable as `/venv/bin/python demo.py` from the repository root (it should insert os.getcwd() at the front of sys.path); exit status 0 = property holds, non-zero = broken
  - meta.json    : {{"property": "{pid}", "summary": "<what was changed and why it breaks the property>", "needs": "<what is needed for it to manifest>", "files": ["..."], "ran": ["<commands you ran and their outcome>"]}}
IMPORTANT: never use `git stash` (the stash is shared with other people's worktrees of the same repository).
Leave the worktree CLEAN at the end (`git -C {wt} checkout -- .` and remove untracked files); the deliverables live only in {out}.
In your final message, state for each variant: the file(s)/function(s) changed, one sentence on the defect, and the test-suite result with the change applied. If while reading you notice something that looks like a genuine defect of the UNCHANGED code with respect to the property, say so separately (with the input that shows it).
"""

BENIGN = """You are helping to evaluate a verification tool for false alarms. Your job is to make THREE realistic, behaviour-PRESERVING refactorings (each as a separate patch) in a Python library, fox-it/dissect.cobaltstrike (parsers for Cobalt Strike beacon configs, Malleable C2 profiles, XOR-encoded payloads and beacon HTTP C2 traffic). The tool under evaluation must stay silent on such changes; we want to find out whether it does.

Your scratch copy of the repository is the git worktree at {wt} (work ONLY there; never touch /repo or /verif, never write any file under /repo, and do not read anything under /verif). Run things with the interpreter /venv/bin/python and with the current directory set to the worktree, e.g.
    cd {wt} && /venv/bin/python -m pytest -q -p no:cacheprovider
(the whole suite takes about a minute; the package imported is then the worktree's copy; scripts run from outside the worktree import the installed copy in /repo instead - run everything from the worktree root or put it first on sys.path). There is no network.

The semantic property that must KEEP HOLDING (exactly as before, for every input, not only the tested ones) is:

{header}
Other contributors have ALREADY delivered the following refactorings for this property; yours must be of DIFFERENT kinds or touch different functions (do not repeat them):
{earlier}

Requirements for each of the three refactorings:
1. It changes the library source under dissect/cobaltstrike/ in the functions/classes/grammar the property is about (see the list above) - the kind of clean-up, modernisation or restructuring a maintainer would plausibly merge: e.g. early returns instead of nested ifs (or the reverse), a loop rewritten (while <-> for, comprehension <-> loop), a helper function extracted or inlined, a condition rewritten into an equivalent form (De Morgan, chained comparison, `in` tuple vs `or`), intermediate variables introduced/removed/renamed, equivalent standard-library call used (e.g. int.from_bytes vs struct.unpack, bytes slicing vs partition where EXACTLY equivalent), constants hoisted to module level (immutable ones), table-driven dispatch instead of an if-chain (or the reverse), statements reordered where independent, keyword vs positional arguments, type annotations/docstrings/logging added, dict/tuple literal style, f-string vs format, a class split or two functions merged. Each of the three should be a DIFFERENT kind of refactoring and touch roughly 5-40 lines. Be bold enough that a tool matching code shapes would be stressed - but behaviour must be EXACTLY the same for ALL inputs (same return values, same exceptions of the same class in the same situations, same file-position side effects, same mutation/aliasing behaviour of returned and stored objects, same generator laziness).
2. The code must still import and the ENTIRE existing test suite must still pass (run it and confirm the same number of passing tests as before: all tests pass now).
3. Convince yourself of equivalence by reasoning about edge cases (empty input, boundary values, EOF, None arguments, zero lengths) and additionally by a small differential script comparing old and new behaviour on a range of generated inputs where practical. If you are not sure a rewrite is exactly equivalent, do not deliver it - pick a safer one.

Deliver, in the directories {out}/a/, {out}/b/, {out}/c/ (one per refactoring; each patch is relative to the UNCHANGED tree, not stacked):
  - patch.diff : output of `git -C {wt} diff` for exactly this refactoring (applies with `git apply` to the unchanged tree)
  - note.json  : {{"property": "{pid}", "kind": "<kind of refactoring>", "summary": "<what was changed>", "why_equivalent": "<argument incl. edge cases>", "files": ["..."], "ran": ["<commands and outcomes>"]}}
IMPORTANT: never use `git stash` (the stash is shared with other people's worktrees of the same repository); to switch between variants use `git diff > {out}/<x>/patch.diff; git checkout -- .`.
Leave the worktree CLEAN at the end (`git -C {wt} checkout -- .` and remove untracked files); the deliverables live only in {out}.
In your final message, state for each variant: the file(s)/function(s) changed, the kind of refactoring, and the test-suite result with it applied.
"""


def main():
    kind, rdir, wdir, *ids = sys.argv[1:]
    ps = props()
    ids = ids or sorted(ps)
    os.makedirs(rdir, exist_ok=True)
    for pid in ids:
        p = ps[pid]
        out = os.path.join(rdir, pid)
        os.makedirs(out, exist_ok=True)
        text = (SEED if kind == "seed" else BENIGN).format(
            wt=os.path.join(wdir, pid), out=out, pid=pid, header=header(p), earlier=earlier(kind, pid) or "  (none)")
        open(os.path.join(rdir, pid + ".prompt.txt"), "w").write(text)
        print(pid, len(text))


if __name__ == "__main__":
    main()
