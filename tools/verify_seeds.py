#!/usr/local/bin/python3-vt
"""Confirm candidate seeded changes: for each <dir> with patch.diff + demo.py (or demo_test.py)

  1. a scratch git worktree of /repo HEAD is created under /tmp (removed afterwards)
  2. demo on the unchanged tree must pass
  3. patch applied: the whole existing suite must still pass, the demo must fail

usage: tools/verify_seeds.py <seed dir> [...]     prints one JSON line per seed
"""

import json
import os
import shutil
import subprocess
import sys
import tempfile
from concurrent.futures import ThreadPoolExecutor

REPO = "/repo"
PY = "/venv/bin/python"


def sh(cmd, cwd, timeout=900):
    try:
        r = subprocess.run(cmd, cwd=cwd, capture_output=True, text=True, timeout=timeout)
        return r.returncode, (r.stdout + r.stderr)[-1500:]
    except subprocess.TimeoutExpired:
        return 124, "timeout"


def demo_cmd(d, wt):
    if os.path.exists(os.path.join(d, "demo.py")):
        shutil.copy(os.path.join(d, "demo.py"), os.path.join(wt, "demo.py"))
        return [PY, "demo.py"]
    shutil.copy(os.path.join(d, "demo_test.py"), os.path.join(wt, "demo_test.py"))
    return [PY, "-m", "pytest", "-q", "-p", "no:cacheprovider", "demo_test.py"]


def verify(d):
    d = os.path.abspath(d)
    wt = tempfile.mkdtemp(prefix="seedwt-")
    os.rmdir(wt)
    out = {"seed": d}
    try:
        rc, o = sh(["git", "-C", REPO, "worktree", "add", "-q", "--detach", wt, "HEAD"], REPO)
        if rc:
            out["error"] = "worktree: " + o
            return out
        cmd = demo_cmd(d, wt)
        rc0, o0 = sh(cmd, wt, 600)
        out["demo_clean_rc"] = rc0
        rc, o = sh(["git", "apply", os.path.join(d, "patch.diff")], wt)
        if rc:
            out["error"] = "patch does not apply: " + o[-300:]
            return out
        rc1, o1 = sh(cmd, wt, 600)
        out["demo_patched_rc"] = rc1
        out["demo_patched_tail"] = o1[-300:]
        for f in ("demo.py", "demo_test.py"):
            p = os.path.join(wt, f)
            if os.path.exists(p):
                os.remove(p)
        rc2, o2 = sh([PY, "-m", "pytest", "-q", "-p", "no:cacheprovider", "-x"], wt, 900)
        out["suite_rc"] = rc2
        out["suite_tail"] = o2.strip().splitlines()[-1] if o2.strip() else ""
        out["ok"] = rc0 == 0 and rc1 != 0 and rc2 == 0
        return out
    finally:
        sh(["git", "-C", REPO, "worktree", "remove", "--force", wt], REPO)
        shutil.rmtree(wt, ignore_errors=True)


if __name__ == "__main__":
    dirs = sys.argv[1:]
    with ThreadPoolExecutor(max_workers=6) as ex:
        for r in ex.map(verify, dirs):
            print(json.dumps(r))
            sys.stdout.flush()
