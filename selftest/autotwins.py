"""Automatic behaviour-preserving transformations of the whole package (false-alarm hunting).

Each transformation rewrites every module of a scratch copy with an AST pass that cannot
change behaviour, then all property checks are evaluated on the copy.  Any obligation that
is violated on the transformed tree but not on the original is a false alarm of the
checker (the property still holds).

  rename-locals   every function-local variable (not parameters, not globals/nonlocals,
                  not names used in nested functions) gets a new name
  unparse         the module is regenerated with ast.unparse (layout, comments, redundant
                  parentheses and string quote style are lost)
  noop-prologue   a `pass`-like no-op statement is inserted at the start of every function
  reorder-defs    top-level functions of each module are emitted in reverse order (classes
                  and other statements keep their place)

usage: python3-vt selftest/autotwins.py [transform ...] [--props C01,C02]
"""

from __future__ import annotations

import ast
import builtins
import os
import shutil
import sys
from concurrent.futures import ProcessPoolExecutor
from typing import Dict, List, Set

HERE = os.path.dirname(os.path.abspath(__file__))
VERIF = os.path.dirname(HERE)
if VERIF not in sys.path:
    sys.path.insert(0, VERIF)

from csverif.loader import PKG_REL, repo_root  # noqa: E402
from selftest.runner import _violations, make_copy  # noqa: E402

ALL = [f"C{i:02d}" for i in range(1, 21)]


class _Renamer(ast.NodeTransformer):
    def __init__(self, mapping: Dict[str, str]):
        self.mapping = mapping

    def visit_Name(self, node: ast.Name):
        if node.id in self.mapping:
            return ast.copy_location(ast.Name(id=self.mapping[node.id], ctx=node.ctx), node)
        return node

    def visit_FunctionDef(self, node):
        return node  # nested functions untouched (their free variables are excluded from the mapping anyway)

    visit_AsyncFunctionDef = visit_FunctionDef
    visit_Lambda = visit_FunctionDef
    visit_ClassDef = visit_FunctionDef


def _locals_to_rename(fn: ast.AST) -> Set[str]:
    params = {a.arg for a in fn.args.posonlyargs + fn.args.args + fn.args.kwonlyargs}
    if fn.args.vararg:
        params.add(fn.args.vararg.arg)
    if fn.args.kwarg:
        params.add(fn.args.kwarg.arg)
    stored: Set[str] = set()
    excluded: Set[str] = set(params) | set(dir(builtins))
    nested_names: Set[str] = set()

    def walk(n, top=True):
        for c in ast.iter_child_nodes(n):
            if isinstance(c, (ast.FunctionDef, ast.AsyncFunctionDef, ast.Lambda, ast.ClassDef)):
                for x in ast.walk(c):
                    if isinstance(x, ast.Name):
                        nested_names.add(x.id)
                if isinstance(c, (ast.FunctionDef, ast.AsyncFunctionDef, ast.ClassDef)):
                    excluded.add(c.name)
                continue
            if isinstance(c, (ast.Global, ast.Nonlocal)):
                excluded.update(c.names)
            if isinstance(c, (ast.Import, ast.ImportFrom)):
                for a in c.names:
                    excluded.add((a.asname or a.name).split(".")[0])
            if isinstance(c, ast.Name) and isinstance(c.ctx, ast.Store):
                stored.add(c.id)
            if isinstance(c, (ast.ListComp, ast.SetComp, ast.DictComp, ast.GeneratorExp)):
                # comprehension variables have their own scope; leave them alone
                for g in c.generators:
                    for x in ast.walk(g.target):
                        if isinstance(x, ast.Name):
                            excluded.add(x.id)
            walk(c, False)

    walk(fn)
    return {n for n in stored if n not in excluded and n not in nested_names and not n.startswith("__")}


def t_rename_locals(tree: ast.Module) -> ast.Module:
    for fn in [n for n in ast.walk(tree) if isinstance(n, (ast.FunctionDef, ast.AsyncFunctionDef))]:
        names = _locals_to_rename(fn)
        if not names:
            continue
        mapping = {n: f"{n}_rn" for n in names}
        r = _Renamer(mapping)
        fn.body = [r.visit(s) if not isinstance(s, (ast.FunctionDef, ast.AsyncFunctionDef, ast.ClassDef)) else s for s in fn.body]
    return tree


def t_unparse(tree: ast.Module) -> ast.Module:
    return tree


def t_noop_prologue(tree: ast.Module) -> ast.Module:
    for fn in [n for n in ast.walk(tree) if isinstance(n, (ast.FunctionDef, ast.AsyncFunctionDef))]:
        i = 1 if (fn.body and isinstance(fn.body[0], ast.Expr) and isinstance(fn.body[0].value, ast.Constant) and isinstance(fn.body[0].value.value, str)) else 0
        fn.body.insert(i, ast.Expr(value=ast.Constant(value=None)))
    return tree


def t_reorder_defs(tree: ast.Module) -> ast.Module:
    idx = [i for i, s in enumerate(tree.body) if isinstance(s, ast.FunctionDef) and not s.decorator_list]
    # only reorder runs of functions that are not referenced at module level between them
    fns = [tree.body[i] for i in idx]
    module_level_names = set()
    for s in tree.body:
        if not isinstance(s, (ast.FunctionDef, ast.ClassDef)):
            for x in ast.walk(s):
                if isinstance(x, ast.Name):
                    module_level_names.add(x.id)
    if any(f.name in module_level_names for f in fns):
        # functions used in module-level tables (e.g. dispatch dicts) must stay defined before use:
        # reverse only those that are not referenced at module level
        movable = [i for i in idx if tree.body[i].name not in module_level_names]
    else:
        movable = idx
    rev = [tree.body[i] for i in reversed(movable)]
    for i, f in zip(movable, rev):
        tree.body[i] = f
    return tree


TRANSFORMS = {"rename-locals": t_rename_locals, "unparse": t_unparse, "noop-prologue": t_noop_prologue, "reorder-defs": t_reorder_defs}


def build(transform: str, src_root: str) -> str:
    tmp = make_copy(src_root)
    pkg = os.path.join(tmp, PKG_REL)
    for fn in os.listdir(pkg):
        if not fn.endswith(".py"):
            continue
        p = os.path.join(pkg, fn)
        with open(p, encoding="utf-8") as f:
            text = f.read()
        tree = ast.parse(text)
        tree = TRANSFORMS[transform](tree)
        ast.fix_missing_locations(tree)
        out = ast.unparse(tree)
        compile(out, p, "exec")
        with open(p, "w", encoding="utf-8") as f:
            f.write(out + "\n")
    return tmp


def _one(args):
    prop, tmp, base = args
    try:
        bad, errs = _violations(prop, tmp)
    except Exception as e:  # AnalysisError etc.
        return prop, [], [f"{type(e).__name__}: {e}"]
    return prop, sorted(bad - set(map(tuple, base))), errs


def run(transforms: List[str], props: List[str], src_root: str = None) -> int:
    src_root = src_root or repo_root()
    baselines = {}
    for p in props:
        baselines[p] = sorted(_violations(p, src_root)[0])
    problems = 0
    for t in transforms:
        tmp = build(t, src_root)
        try:
            with ProcessPoolExecutor(max_workers=16) as ex:
                res = list(ex.map(_one, [(p, tmp, baselines[p]) for p in props]))
        finally:
            shutil.rmtree(tmp, ignore_errors=True)
        for prop, new_bad, errs in res:
            if new_bad or errs:
                problems += 1
                print(f"[{t}] {prop}: FALSE ALARM")
                for b in new_bad[:12]:
                    print("     ", b[0], "|", b[1][:140])
                for e in errs[:4]:
                    print("      analysis-error:", e[:200])
        print(f"[{t}] done, {sum(1 for _p, nb, er in res if nb or er)} properties with false alarms")
    return problems


if __name__ == "__main__":
    args = [a for a in sys.argv[1:] if not a.startswith("--")]
    props = ALL
    for a in sys.argv[1:]:
        if a.startswith("--props"):
            props = a.split("=", 1)[1].split(",")
    ts = args or list(TRANSFORMS)
    sys.exit(1 if run(ts, props) else 0)
