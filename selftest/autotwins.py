"""Automatic behaviour-preserving transformations of the whole package (false-alarm hunting).

Each transformation rewrites every module of a scratch copy with an AST pass that cannot
change behaviour, then all property checks are evaluated on the copy.  Any obligation that
is violated on the transformed tree but not on the original is a false alarm of the
checker (the property still holds).

  rename-locals   every function-local variable (not parameters, not globals/nonlocals,
                  not names used in nested functions) gets a new name
  unparse         the module is regenerated with ast.unparse (layout, comments, redundant
                  parentheses and string quote style are lost)
  noop-prologue   a `pass`-like no-op statement is inserted at the start of every function
  reorder-defs    top-level functions of each module are emitted in reverse order (classes
                  and other statements keep their place)

usage: python3-vt selftest/autotwins.py [transform ...] [--props C01,C02]
"""

from __future__ import annotations

import ast
import builtins
import os
import shutil
import sys
from concurrent.futures import ProcessPoolExecutor
from typing import Dict, List, Set

HERE = os.path.dirname(os.path.abspath(__file__))
VERIF = os.path.dirname(HERE)
if VERIF not in sys.path:
    sys.path.insert(0, VERIF)

from csverif.loader import PKG_REL, repo_root  # noqa: E402
from selftest.runner import _violations, make_copy  # noqa: E402

ALL = [f"C{i:02d}" for i in range(1, 21)]


class _Renamer(ast.NodeTransformer):
    def __init__(self, mapping: Dict[str, str]):
        self.mapping = mapping

    def visit_Name(self, node: ast.Name):
        if node.id in self.mapping:
            return ast.copy_location(ast.Name(id=self.mapping[node.id], ctx=node.ctx), node)
        return node

    def visit_FunctionDef(self, node):
        return node  # nested functions untouched (their free variables are excluded from the mapping anyway)

    visit_AsyncFunctionDef = visit_FunctionDef
    visit_Lambda = visit_FunctionDef
    visit_ClassDef = visit_FunctionDef


def _locals_to_rename(fn: ast.AST) -> Set[str]:
    params = {a.arg for a in fn.args.posonlyargs + fn.args.args + fn.args.kwonlyargs}
    if fn.args.vararg:
        params.add(fn.args.vararg.arg)
    if fn.args.kwarg:
        params.add(fn.args.kwarg.arg)
    stored: Set[str] = set()
    excluded: Set[str] = set(params) | set(dir(builtins))
    nested_names: Set[str] = set()

    def walk(n, top=True):
        for c in ast.iter_child_nodes(n):
            if isinstance(c, (ast.FunctionDef, ast.AsyncFunctionDef, ast.Lambda, ast.ClassDef)):
                for x in ast.walk(c):
                    if isinstance(x, ast.Name):
                        nested_names.add(x.id)
                if isinstance(c, (ast.FunctionDef, ast.AsyncFunctionDef, ast.ClassDef)):
                    excluded.add(c.name)
                continue
            if isinstance(c, (ast.Global, ast.Nonlocal)):
                excluded.update(c.names)
            if isinstance(c, (ast.Import, ast.ImportFrom)):
                for a in c.names:
                    excluded.add((a.asname or a.name).split(".")[0])
            if isinstance(c, ast.Name) and isinstance(c.ctx, ast.Store):
                stored.add(c.id)
            if isinstance(c, (ast.ListComp, ast.SetComp, ast.DictComp, ast.GeneratorExp)):
                # comprehension variables have their own scope; leave them alone
                for g in c.generators:
                    for x in ast.walk(g.target):
                        if isinstance(x, ast.Name):
                            excluded.add(x.id)
            walk(c, False)

    walk(fn)
    return {n for n in stored if n not in excluded and n not in nested_names and not n.startswith("__")}


def t_rename_locals(tree: ast.Module) -> ast.Module:
    for fn in [n for n in ast.walk(tree) if isinstance(n, (ast.FunctionDef, ast.AsyncFunctionDef))]:
        names = _locals_to_rename(fn)
        if not names:
            continue
        mapping = {n: f"{n}_rn" for n in names}
        r = _Renamer(mapping)
        fn.body = [r.visit(s) if not isinstance(s, (ast.FunctionDef, ast.AsyncFunctionDef, ast.ClassDef)) else s for s in fn.body]
    return tree


def t_unparse(tree: ast.Module) -> ast.Module:
    return tree


def t_noop_prologue(tree: ast.Module) -> ast.Module:
    for fn in [n for n in ast.walk(tree) if isinstance(n, (ast.FunctionDef, ast.AsyncFunctionDef))]:
        i = 1 if (fn.body and isinstance(fn.body[0], ast.Expr) and isinstance(fn.body[0].value, ast.Constant) and isinstance(fn.body[0].value.value, str)) else 0
        fn.body.insert(i, ast.Expr(value=ast.Constant(value=None)))
    return tree


def t_reorder_defs(tree: ast.Module) -> ast.Module:
    idx = [i for i, s in enumerate(tree.body) if isinstance(s, ast.FunctionDef) and not s.decorator_list]
    # only reorder runs of functions that are not referenced at module level between them
    fns = [tree.body[i] for i in idx]
    module_level_names = set()
    for s in tree.body:
        if not isinstance(s, (ast.FunctionDef, ast.ClassDef)):
            for x in ast.walk(s):
                if isinstance(x, ast.Name):
                    module_level_names.add(x.id)
    if any(f.name in module_level_names for f in fns):
        # functions used in module-level tables (e.g. dispatch dicts) must stay defined before use:
        # reverse only those that are not referenced at module level
        movable = [i for i in idx if tree.body[i].name not in module_level_names]
    else:
        movable = idx
    rev = [tree.body[i] for i in reversed(movable)]
    for i, f in zip(movable, rev):
        tree.body[i] = f
    return tree


class _FlipCompare(ast.NodeTransformer):
    """a == b -> b == a ; a != b -> b != a ; a < b -> b > a ... (single comparisons without side effects)"""
    FLIP = {ast.Eq: ast.Eq, ast.NotEq: ast.NotEq, ast.Lt: ast.Gt, ast.Gt: ast.Lt, ast.LtE: ast.GtE, ast.GtE: ast.LtE}

    def visit_Compare(self, node: ast.Compare):
        self.generic_visit(node)
        if len(node.ops) == 1 and type(node.ops[0]) in self.FLIP and _pure(node.left) and _pure(node.comparators[0]):
            return ast.copy_location(ast.Compare(left=node.comparators[0], ops=[self.FLIP[type(node.ops[0])]()], comparators=[node.left]), node)
        return node


def _pure(e: ast.AST) -> bool:
    return not any(isinstance(n, (ast.Call, ast.Yield, ast.YieldFrom, ast.Await, ast.NamedExpr)) for n in ast.walk(e))


def t_flip_compare(tree: ast.Module) -> ast.Module:
    return _FlipCompare().visit(tree)


class _SwapIf(ast.NodeTransformer):
    """if c: A else: B  ->  if not c: B else: A   (only plain if/else, not elif chains)"""

    def visit_If(self, node: ast.If, in_chain: bool = False):
        # an if that is the `elif` of another if, or that has an elif itself, is part of a dispatch chain: left alone
        has_elif = len(node.orelse) == 1 and isinstance(node.orelse[0], ast.If)
        node.body = [self.visit(s) for s in node.body]
        if has_elif:
            node.orelse = [self.visit_If(node.orelse[0], True)]
            return node
        node.orelse = [self.visit(s) for s in node.orelse]
        if node.orelse and not in_chain:
            return ast.copy_location(ast.If(test=ast.UnaryOp(op=ast.Not(), operand=node.test), body=node.orelse, orelse=node.body), node)
        return node


def t_swap_if(tree: ast.Module) -> ast.Module:
    return _SwapIf().visit(tree)


def t_log_branches(tree: ast.Module) -> ast.Module:
    """A side-effect free expression statement at the start of every loop body and if-branch."""
    for n in ast.walk(tree):
        if isinstance(n, (ast.For, ast.While, ast.If)) and n.body:
            n.body.insert(0, ast.Expr(value=ast.Constant(value="trace")))
            if isinstance(n, ast.If) and n.orelse and not (len(n.orelse) == 1 and isinstance(n.orelse[0], ast.If)):
                n.orelse.insert(0, ast.Expr(value=ast.Constant(value="trace")))
    return tree


class _ExtractTemp(ast.NodeTransformer):
    """`return f(g(x))` / `v = f(g(x))`: the innermost nested call argument is bound to a fresh local first."""

    def __init__(self):
        self.n = 0

    def _extract(self, st, value):
        if not isinstance(value, ast.Call):
            return None
        for i, a in enumerate(value.args):
            if isinstance(a, ast.Call) and not any(isinstance(x, (ast.Yield, ast.YieldFrom, ast.Lambda, ast.ListComp, ast.GeneratorExp, ast.SetComp, ast.DictComp, ast.Starred, ast.IfExp, ast.BoolOp)) for x in ast.walk(value)):
                # evaluation order: only safe when every earlier argument is a plain name/constant and the callee expr is pure
                if all(isinstance(b, (ast.Name, ast.Constant, ast.Attribute)) for b in value.args[:i]) and _pure(value.func):
                    self.n += 1
                    name = f"tmp_x{self.n}"
                    pre = ast.Assign(targets=[ast.Name(id=name, ctx=ast.Store())], value=a)
                    value.args[i] = ast.Name(id=name, ctx=ast.Load())
                    return pre
        return None

    def _block(self, body):
        out = []
        for st in body:
            st = self.visit(st)
            if isinstance(st, ast.Return) and st.value is not None:
                pre = self._extract(st, st.value)
                if pre is not None:
                    out.append(ast.copy_location(pre, st))
            elif isinstance(st, ast.Assign) and len(st.targets) == 1 and isinstance(st.targets[0], ast.Name):
                pre = self._extract(st, st.value)
                if pre is not None:
                    out.append(ast.copy_location(pre, st))
            out.append(st)
        return out

    def generic_visit(self, node):
        for name in ("body", "orelse", "finalbody"):
            b = getattr(node, name, None)
            if isinstance(b, list) and b and isinstance(b[0], ast.stmt):
                setattr(node, name, self._block(b))
        if isinstance(node, ast.Try):
            for h in node.handlers:
                h.body = self._block(h.body)
        return node

    def visit_Lambda(self, node):
        return node

    def visit_ClassDef(self, node):
        # class bodies: only methods
        for st in node.body:
            if isinstance(st, (ast.FunctionDef, ast.AsyncFunctionDef)):
                self.visit(st)
        return node

    def visit_Module(self, node):
        for st in node.body:
            if isinstance(st, (ast.FunctionDef, ast.AsyncFunctionDef, ast.ClassDef)):
                self.visit(st)
        return node


def t_extract_temp(tree: ast.Module) -> ast.Module:
    return _ExtractTemp().visit(tree)


TRANSFORMS = {"rename-locals": t_rename_locals, "unparse": t_unparse, "noop-prologue": t_noop_prologue, "reorder-defs": t_reorder_defs,
              "flip-compare": t_flip_compare, "swap-if": t_swap_if, "log-branches": t_log_branches, "extract-temp": t_extract_temp}


def build(transform: str, src_root: str) -> str:
    tmp = make_copy(src_root)
    pkg = os.path.join(tmp, PKG_REL)
    for fn in os.listdir(pkg):
        if not fn.endswith(".py"):
            continue
        p = os.path.join(pkg, fn)
        with open(p, encoding="utf-8") as f:
            text = f.read()
        tree = ast.parse(text)
        tree = TRANSFORMS[transform](tree)
        ast.fix_missing_locations(tree)
        out = ast.unparse(tree)
        compile(out, p, "exec")
        with open(p, "w", encoding="utf-8") as f:
            f.write(out + "\n")
    return tmp


def _one(args):
    prop, tmp, base = args
    try:
        bad, errs = _violations(prop, tmp)
    except Exception as e:  # AnalysisError etc.
        return prop, [], [f"{type(e).__name__}: {e}"]
    return prop, sorted(bad - set(map(tuple, base))), errs


def run(transforms: List[str], props: List[str], src_root: str = None) -> int:
    src_root = src_root or repo_root()
    baselines = {}
    for p in props:
        baselines[p] = sorted(_violations(p, src_root)[0])
    problems = 0
    for t in transforms:
        tmp = build(t, src_root)
        try:
            with ProcessPoolExecutor(max_workers=16) as ex:
                res = list(ex.map(_one, [(p, tmp, baselines[p]) for p in props]))
        finally:
            shutil.rmtree(tmp, ignore_errors=True)
        for prop, new_bad, errs in res:
            if new_bad or errs:
                problems += 1
                print(f"[{t}] {prop}: FALSE ALARM")
                for b in new_bad[:12]:
                    print("     ", b[0], "|", b[1][:140])
                for e in errs[:4]:
                    print("      analysis-error:", e[:200])
        print(f"[{t}] done, {sum(1 for _p, nb, er in res if nb or er)} properties with false alarms")
    return problems


if __name__ == "__main__":
    args = [a for a in sys.argv[1:] if not a.startswith("--")]
    props = ALL
    for a in sys.argv[1:]:
        if a.startswith("--props"):
            props = a.split("=", 1)[1].split(",")
    ts = args or list(TRANSFORMS)
    sys.exit(1 if run(ts, props) else 0)
