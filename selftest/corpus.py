"""Mutant / twin corpus.  One entry = one textual edit of a repository source file.

M(prop, id, file, old, new, expect)  - breaking edit; `expect` is the rule prefix that must fire
T(prop, id, file, old, new)          - behaviour-preserving edit; must stay silent
Entries whose `old` text is no longer found exactly once are reported as "stale" and skipped.
"""

from __future__ import annotations

from typing import List

_E: List[dict] = []


def M(prop, id, file, old, new, expect, edits=None):
    _E.append(dict(prop=prop, id=f"{prop}-{id}", kind="mutant", file=file, old=old, new=new, expect=expect, edits=edits))


def T(prop, id, file, old, new, edits=None):
    _E.append(dict(prop=prop, id=f"{prop}-{id}", kind="twin", file=file, old=old, new=new, expect=None, edits=edits))


def entries() -> List[dict]:
    return list(_E)


# =============================================================================== C05
M("C05", "verify-only-if-key", "c2.py",
  "    if verify:\n        if not hmac_key:\n            raise ValueError(\"Cannot verify signature without hmac_key.\")\n        packet.raise_for_signature(hmac_key)",
  "    if verify and hmac_key:\n        packet.raise_for_signature(hmac_key)", "C05.R1")
M("C05", "decrypt-before-verify", "c2.py",
  "        packet.raise_for_signature(hmac_key)\n    return decrypt_data(packet.ciphertext, aes_key, iv)",
  "        plaintext = decrypt_data(packet.ciphertext, aes_key, iv)\n        packet.raise_for_signature(hmac_key)\n        return plaintext\n    return decrypt_data(packet.ciphertext, aes_key, iv)",
  "C05.R1")
M("C05", "swallow-signature-error", "c2.py",
  "        packet.raise_for_signature(hmac_key)\n    return decrypt_data",
  "        try:\n            packet.raise_for_signature(hmac_key)\n        except ValueError:\n            logger.warning(\"bad signature\")\n    return decrypt_data",
  "C05.R1")
M("C05", "compare-prefix-only", "c2.py",
  "        if signature != self.signature:\n            raise ValueError(f\"Invalid HMAC",
  "        if signature[:4] != self.signature[:4]:\n            raise ValueError(f\"Invalid HMAC", "C05.R2")
M("C05", "mismatch-logs-only", "c2.py",
  "            raise ValueError(f\"Invalid HMAC signature, expected {signature.hex()} got {self.signature.hex()}\")",
  "            logger.error(f\"Invalid HMAC signature, expected {signature.hex()} got {self.signature.hex()}\")", "C05.R2")
M("C05", "sign-plaintext", "c2.py",
  "    signature = hmac.new(hmac_key, ciphertext, \"sha256\").digest()[:16]\n    return EncryptedPacket",
  "    signature = hmac.new(hmac_key, plaintext, \"sha256\").digest()[:16]\n    return EncryptedPacket", "C05.R3")
M("C05", "verifier-sha1", "c2.py",
  "        signature = hmac.new(hmac_key, self.ciphertext, \"sha256\").digest()[:16]",
  "        signature = hmac.new(hmac_key, self.ciphertext, \"sha1\").digest()[:16]", "C05.R3")
M("C05", "siglen-8-client", "c2.py",
  "            ciphertext = fobj.read(size - 16)\n            signature = fobj.read(16)",
  "            ciphertext = fobj.read(size - 8)\n            signature = fobj.read(8)", "C05.R4")
M("C05", "pad-no-pad-when-aligned", "c2.py",
  "    to_pad = block_size - len(data) % block_size\n",
  "    to_pad = (block_size - len(data) % block_size) % block_size\n", "C05.R5")
M("C05", "pad-byte", "c2.py", "    return data + b\"A\" * to_pad", "    return data + b\"\\x00\" * to_pad", "C05.R5")
M("C05", "decrypt-unpads", "c2.py", "    return cipher.decrypt(data)\n", "    return cipher.decrypt(data).rstrip(b\"A\")\n", "C05.R5")
M("C05", "ecb-on-decrypt", "c2.py",
  "    cipher = AES.new(aes_key, AES.MODE_CBC, iv=iv)\n    # Beacon and Team Server does not unpad data",
  "    cipher = AES.new(aes_key, AES.MODE_ECB)\n    # Beacon and Team Server does not unpad data", "C05.R6")
M("C05", "dumps-little-endian", "c2.py", "        return p32be(len(payload)) + payload", "        return p32(len(payload)) + payload", "C05.R7",
  edits=[("c2.py", "    p32be,\n    xor,\n)", "    p32be,\n    p32,\n    xor,\n)"), ("c2.py", "        return p32be(len(payload)) + payload", "        return p32(len(payload)) + payload")])
M("C05", "only-first-packet", "c2.py", "            data = fobj.read()\n            yield EncryptedPacket(ciphertext, signature)",
  "            data = b\"\"\n            yield EncryptedPacket(ciphertext, signature)", "C05.R7")
M("C05", "verify-not-forwarded", "c2.py", "decrypt_packet(enc_packet, verify=self.verify_hmac, **keys._asdict())",
  "decrypt_packet(enc_packet, verify=bool(keys.hmac_key), **keys._asdict())", "C05.R8")
T("C05", "twin-compare-digest", "c2.py", "        if signature != self.signature:", "        if not hmac.compare_digest(signature, self.signature):")
T("C05", "twin-rename-local", "c2.py",
  "    to_pad = block_size - len(data) % block_size\n    return data + b\"A\" * to_pad",
  "    n = len(data)\n    fill = block_size - n % block_size\n    return data + b\"A\" * fill")
T("C05", "twin-early-return", "c2.py",
  "    if verify:\n        if not hmac_key:\n            raise ValueError(\"Cannot verify signature without hmac_key.\")\n        packet.raise_for_signature(hmac_key)\n    return decrypt_data(packet.ciphertext, aes_key, iv)",
  "    if not verify:\n        return decrypt_data(packet.ciphertext, aes_key, iv)\n    if not hmac_key:\n        raise ValueError(\"Cannot verify signature without hmac_key.\")\n    packet.raise_for_signature(hmac_key)\n    return decrypt_data(packet.ciphertext, aes_key, iv)")
