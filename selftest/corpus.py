"""Mutant / twin corpus.  One entry = one textual edit of a repository source file.

M(prop, id, file, old, new, expect)  - breaking edit; `expect` is the rule prefix that must fire
T(prop, id, file, old, new)          - behaviour-preserving edit; must stay silent
Entries whose `old` text is no longer found exactly once are reported as "stale" and skipped.
"""

from __future__ import annotations

from typing import List

_E: List[dict] = []


def M(prop, id, file, old, new, expect, edits=None):
    _E.append(dict(prop=prop, id=f"{prop}-{id}", kind="mutant", file=file, old=old, new=new, expect=expect, edits=edits))


def T(prop, id, file, old, new, edits=None):
    _E.append(dict(prop=prop, id=f"{prop}-{id}", kind="twin", file=file, old=old, new=new, expect=None, edits=edits))


def entries() -> List[dict]:
    _load_extra()
    return list(_E)


_EXTRA_LOADED = False


def _load_extra():
    """selftest/extra/cNN.py: additional entries kept per property (same M/T helpers)."""
    global _EXTRA_LOADED
    if _EXTRA_LOADED:
        return
    _EXTRA_LOADED = True
    import importlib
    import os

    d = os.path.join(os.path.dirname(os.path.abspath(__file__)), "extra")
    if os.path.isdir(d):
        for fn in sorted(os.listdir(d)):
            if fn.endswith(".py") and fn != "__init__.py":
                importlib.import_module(f"selftest.extra.{fn[:-3]}")


# =============================================================================== C05
M("C05", "verify-only-if-key", "c2.py",
  "    if verify:\n        if not hmac_key:\n            raise ValueError(\"Cannot verify signature without hmac_key.\")\n        packet.raise_for_signature(hmac_key)",
  "    if verify and hmac_key:\n        packet.raise_for_signature(hmac_key)", "C05.R1")
M("C05", "decrypt-before-verify", "c2.py",
  "        packet.raise_for_signature(hmac_key)\n    return decrypt_data(packet.ciphertext, aes_key, iv)",
  "        plaintext = decrypt_data(packet.ciphertext, aes_key, iv)\n        packet.raise_for_signature(hmac_key)\n        return plaintext\n    return decrypt_data(packet.ciphertext, aes_key, iv)",
  "C05.R1")
M("C05", "swallow-signature-error", "c2.py",
  "        packet.raise_for_signature(hmac_key)\n    return decrypt_data",
  "        try:\n            packet.raise_for_signature(hmac_key)\n        except ValueError:\n            logger.warning(\"bad signature\")\n    return decrypt_data",
  "C05.R1")
M("C05", "compare-prefix-only", "c2.py",
  "        if signature != self.signature:\n            raise ValueError(f\"Invalid HMAC",
  "        if signature[:4] != self.signature[:4]:\n            raise ValueError(f\"Invalid HMAC", "C05.R2")
M("C05", "mismatch-logs-only", "c2.py",
  "            raise ValueError(f\"Invalid HMAC signature, expected {signature.hex()} got {self.signature.hex()}\")",
  "            logger.error(f\"Invalid HMAC signature, expected {signature.hex()} got {self.signature.hex()}\")", "C05.R2")
M("C05", "sign-plaintext", "c2.py",
  "    signature = hmac.new(hmac_key, ciphertext, \"sha256\").digest()[:16]\n    return EncryptedPacket",
  "    signature = hmac.new(hmac_key, plaintext, \"sha256\").digest()[:16]\n    return EncryptedPacket", "C05.R3")
M("C05", "verifier-sha1", "c2.py",
  "        signature = hmac.new(hmac_key, self.ciphertext, \"sha256\").digest()[:16]",
  "        signature = hmac.new(hmac_key, self.ciphertext, \"sha1\").digest()[:16]", "C05.R3")
M("C05", "siglen-8-client", "c2.py",
  "            ciphertext = fobj.read(size - 16)\n            signature = fobj.read(16)",
  "            ciphertext = fobj.read(size - 8)\n            signature = fobj.read(8)", "C05.R4")
M("C05", "pad-no-pad-when-aligned", "c2.py",
  "    to_pad = block_size - len(data) % block_size\n",
  "    to_pad = (block_size - len(data) % block_size) % block_size\n", "C05.R5")
M("C05", "pad-byte", "c2.py", "    return data + b\"A\" * to_pad", "    return data + b\"\\x00\" * to_pad", "C05.R5")
M("C05", "decrypt-unpads", "c2.py", "    return cipher.decrypt(data)\n", "    return cipher.decrypt(data).rstrip(b\"A\")\n", "C05.R5")
M("C05", "ecb-on-decrypt", "c2.py",
  "    cipher = AES.new(aes_key, AES.MODE_CBC, iv=iv)\n    # Beacon and Team Server does not unpad data",
  "    cipher = AES.new(aes_key, AES.MODE_ECB)\n    # Beacon and Team Server does not unpad data", "C05.R6")
M("C05", "dumps-little-endian", "c2.py", "        return p32be(len(payload)) + payload", "        return p32(len(payload)) + payload", "C05.R7",
  edits=[("c2.py", "    p32be,\n    xor,\n)", "    p32be,\n    p32,\n    xor,\n)"), ("c2.py", "        return p32be(len(payload)) + payload", "        return p32(len(payload)) + payload")])
M("C05", "only-first-packet", "c2.py", "            data = fobj.read()\n            yield EncryptedPacket(ciphertext, signature)",
  "            data = b\"\"\n            yield EncryptedPacket(ciphertext, signature)", "C05.R7")
M("C05", "verify-not-forwarded", "c2.py", "decrypt_packet(enc_packet, verify=self.verify_hmac, **keys._asdict())",
  "decrypt_packet(enc_packet, verify=bool(keys.hmac_key), **keys._asdict())", "C05.R8")
T("C05", "twin-compare-digest", "c2.py", "        if signature != self.signature:", "        if not hmac.compare_digest(signature, self.signature):")
T("C05", "twin-rename-local", "c2.py",
  "    to_pad = block_size - len(data) % block_size\n    return data + b\"A\" * to_pad",
  "    n = len(data)\n    fill = block_size - n % block_size\n    return data + b\"A\" * fill")
T("C05", "twin-early-return", "c2.py",
  "    if verify:\n        if not hmac_key:\n            raise ValueError(\"Cannot verify signature without hmac_key.\")\n        packet.raise_for_signature(hmac_key)\n    return decrypt_data(packet.ciphertext, aes_key, iv)",
  "    if not verify:\n        return decrypt_data(packet.ciphertext, aes_key, iv)\n    if not hmac_key:\n        raise ValueError(\"Cannot verify signature without hmac_key.\")\n    packet.raise_for_signature(hmac_key)\n    return decrypt_data(packet.ciphertext, aes_key, iv)")

# =============================================================================== C01
M("C01", "default-key-order", "beacon.py", 'DEFAULT_XOR_KEYS: List[bytes] = [b"\\x69", b"\\x2e", b"\\x00"]', 'DEFAULT_XOR_KEYS: List[bytes] = [b"\\x2e", b"\\x69", b"\\x00"]', "C01.R1")
M("C01", "needle-shortened", "beacon.py", 'CONFIG_HEADER = b"\\x00\\x01\\x00\\x01\\x00\\x02\\x00"', 'CONFIG_HEADER = b"\\x00\\x01\\x00\\x01\\x00\\x02"', "C01.R2")
M("C01", "scan-from-current", "beacon.py", "iter_find_needle(fh, xorred_config_block, start_offset=0)", "iter_find_needle(fh, xorred_config_block, start_offset=None)", "C01.R3")
M("C01", "unxor-with-first-byte", "beacon.py", "        yield xor(data, xorkey)", "        yield xor(data, xorred_config_block[:1])", "C01.R3")
M("C01", "record-first-key", "beacon.py", '                yield config_block, {"xorkey": xorkey, "xorencoded": False}', '                yield config_block, {"xorkey": xor_keys[0], "xorencoded": False}', "C01.R4")
M("C01", "raw-flagged-encoded", "beacon.py", '                yield config_block, {"xorkey": xorkey, "xorencoded": False}', '                yield config_block, {"xorkey": xorkey, "xorencoded": True}', "C01.R4")
M("C01", "raw-phase-ungated", "beacon.py", "    # Try finding config block without XorEncoding\n    if not found:", "    # Try finding config block without XorEncoding\n    if True:", "C01.R5")
M("C01", "found-not-set", "beacon.py", "            for config_block in find_beacon_config_bytes(fobj, xorkey):\n                found = True\n", "            for config_block in find_beacon_config_bytes(fobj, xorkey):\n", "C01.R5")
M("C01", "continue-on-first", "beacon.py", "            # Return the first found beacon config.\n            return bconfig", "            # Return the first found beacon config.\n            last = bconfig\n            continue", "C01.R6")
M("C01", "from-bytes-drops-keys", "beacon.py", "        return cls.from_file(io.BytesIO(data), xor_keys=xor_keys, all_xor_keys=all_xor_keys)", "        return cls.from_file(io.BytesIO(data), all_xor_keys=all_xor_keys)", "C01.R7")
M("C01", "raise-lookuperror", "beacon.py", '        raise ValueError("No valid Beacon configuration found")', '        raise LookupError("No valid Beacon configuration found")', "C01.R7")
T("C01", "twin-tuple-keys", "beacon.py", 'DEFAULT_XOR_KEYS: List[bytes] = [b"\\x69", b"\\x2e", b"\\x00"]', 'DEFAULT_XOR_KEYS = (b"i", b".", b"\\x00")')
T("C01", "twin-rename-loopvar", "beacon.py", "    for pos in iter_find_needle(fh, xorred_config_block, start_offset=0):\n        fh.seek(pos)", "    for hit in iter_find_needle(fh, xorred_config_block, start_offset=0):\n        fh.seek(hit)")

# =============================================================================== C02
M("C02", "short-little-endian", "beacon.py", "                    val = u16be(val)", "                    val = u16(val)", "C02.R2",
  edits=[("beacon.py", "    u16be,\n    u32,", "    u16be,\n    u16,\n    u32,"), ("beacon.py", "                    val = u16be(val)", "                    val = u16(val)")])
M("C02", "int-as-u32-le", "beacon.py", "                    val = u32be(val)", "                    val = u32(val)", "C02.R2")
M("C02", "ptr-decoded", "beacon.py", "                elif setting.type == SettingsType.TYPE_INT:\n                    val = u32be(val)",
  "                elif setting.type == SettingsType.TYPE_INT:\n                    val = u32be(val)\n                elif setting.type == SettingsType.TYPE_PTR:\n                    val = val.rstrip(b\"\\x00\")", "C02.R2")
M("C02", "view-wrong-slot", "beacon.py", "        if self._raw_settings_by_index is None:\n            self._raw_settings_by_index = self.settings_map(index_type=\"const\")\n        return self._raw_settings_by_index",
  "        if self._settings_by_index is None:\n            self._settings_by_index = self.settings_map(index_type=\"const\")\n        return self._settings_by_index", "C02.R3")
M("C02", "view-wrong-pretty", "beacon.py", "            self._raw_settings = self.settings_map(index_type=\"name\")", "            self._raw_settings = self.settings_map(index_type=\"name\", pretty=True)", "C02.R3")
M("C02", "sorted-settings", "beacon.py", "        for setting in self.settings_tuple:\n            val = setting.value", "        for setting in sorted(self.settings_tuple, key=lambda s: s.index.value):\n            val = setting.value", "C02.R4")
M("C02", "return-dict", "beacon.py", "        return MappingProxyType(settings)", "        return settings", "C02.R4")
M("C02", "terminator-skipped", "beacon.py", "        if peek == b\"\\x00\\x00\":\n            # end of beacon config\n            break", "        if peek == b\"\\x00\\x00\":\n            # end of beacon config\n            continue", "C02.R5")
M("C02", "no-seek-back", "beacon.py", "            fobj.seek(-2, io.SEEK_CUR)\n            setting = Setting(fobj)", "            setting = Setting(fobj)", "C02.R5")
M("C02", "rename-any-type", "beacon.py", "            if setting.type == SettingsType.TYPE_SHORT:\n                setting.index = DeprecatedBeaconSetting.SETTING_INJECT_OPTIONS", "            if setting.type != SettingsType.TYPE_PTR:\n                setting.index = DeprecatedBeaconSetting.SETTING_INJECT_OPTIONS", "C02.R6")
M("C02", "setting-key-typo", "beacon.py", "return self.raw_settings.get(\"SETTING_PORT\", None)", "return self.raw_settings.get(\"SETTING_PORTS\", None)", "C02.R7")
M("C02", "setting-struct-le", "beacon.py", "cs_struct = cstruct.cstruct(endian=\">\")", "cs_struct = cstruct.cstruct(endian=\"<\")", "C02.R1")
T("C02", "twin-dict-acc", "beacon.py", "        settings = OrderedDict()\n        for setting in self.settings_tuple:", "        settings = dict()\n        for setting in self.settings_tuple:")
T("C02", "twin-unpack-direct", "beacon.py", "                    val = u16be(val)", "                    val = unpack(val, size=2, byteorder=\"big\")",
  edits=[("beacon.py", "    u16be,\n    u32,", "    u16be,\n    unpack,\n    u32,"), ("beacon.py", "                    val = u16be(val)", "                    val = unpack(val, size=2, byteorder=\"big\")")])

# =============================================================================== C03
M("C03", "opcode-renumber", "beacon.py", "    NETBIOSU = 11,\n    URI_APPEND = 12,", "    NETBIOSU = 12,\n    URI_APPEND = 11,", "C03.R1")
M("C03", "mask-takes-arg", "beacon.py", "        TransformStep.PRINT,\n        TransformStep.MASK,\n    ]\n    ARGUMENT_STEPS = [", "        TransformStep.PRINT,\n    ]\n    ARGUMENT_STEPS = [\n        TransformStep.MASK,", "C03.R2")
M("C03", "postreq-default-build", "beacon.py", "    BeaconSetting.SETTING_C2_POSTREQ: functools.partial(parse_transform_binary, build=\"id\"),", "    BeaconSetting.SETTING_C2_POSTREQ: parse_transform_binary,", "C03.R2")
M("C03", "build-map-swapped", "beacon.py", "    BUILD_MAP = {0: build, 1: \"output\"}", "    BUILD_MAP = {1: build, 0: \"output\"}", "C03.R2")
M("C03", "length-le", "beacon.py", "            length = u32be(p.read(4))\n            arg = p.read(length)", "            length = u32(p.read(4))\n            arg = p.read(length)", "C03.R")
M("C03", "arg-fixed-len", "beacon.py", "            length = u32be(p.read(4))\n            arg = p.read(length)", "            length = u32be(p.read(4))\n            arg = p.read(4)", "C03.R2")
M("C03", "netbiosu-as-netbios", "beacon.py", "            rsteps.append((\"netbiosu\", True))", "            rsteps.append((\"netbios\", True))", "C03.R4")
M("C03", "recover-drops-mask", "beacon.py", "        elif step == TransformStep.MASK:\n            rsteps.append((\"mask\", True))\n", "", "C03.R4")
M("C03", "append-length-true", "beacon.py", "            rsteps.append((\"append\", length))", "            rsteps.append((\"append\", True))", "C03.R4")
M("C03", "core-misses-api", "beacon.py", "        \"VirtualQuery\",\n        \"DuplicateHandle\",", "        \"DuplicateHandle\",", "C03.R5")
M("C03", "comms-before-all", "beacon.py", "    if options.issuperset(comms | core | cleanup):\n        ret.append(\"All\")\n        options -= comms | core | cleanup\n\n    if options.issuperset(comms):\n        ret.append(\"Comms\")\n        options -= comms\n",
  "    if options.issuperset(comms):\n        ret.append(\"Comms\")\n        options -= comms\n\n    if options.issuperset(comms | core | cleanup):\n        ret.append(\"All\")\n        options -= comms | core | cleanup\n", "C03.R5")
M("C03", "values-attr-regression", "beacon.py", "    options = {name for name in comms | core | cleanup if getattr(bgo, name)}", "    options = {k for k, v in bgo._values.items() if v}", "C03.R6")
M("C03", "x64-transform-other-decoder", "beacon.py", "    BeaconSetting.SETTING_PROCINJ_TRANSFORM_X64: parse_process_injection_transform_steps,", "    BeaconSetting.SETTING_PROCINJ_TRANSFORM_X64: parse_recover_binary,", "C03.R7")
M("C03", "uris-from-even", "beacon.py", "        return list(dict.fromkeys(uri for (_domain, uri) in self.domain_uri_pairs if uri is not None))", "        return list(dict.fromkeys(_domain for (_domain, uri) in self.domain_uri_pairs))", "C03.R8")  # re-anchored after F24
M("C03", "port-reads-proto", "beacon.py", "        return self.raw_settings.get(\"SETTING_PORT\", None)", "        return self.raw_settings.get(\"SETTING_PROTOCOL\", None)", "C03.R8")
T("C03", "twin-steps-as-sets", "beacon.py", "        TransformStep.PRINT,\n        TransformStep.MASK,\n    ]", "        TransformStep.MASK,\n        TransformStep.PRINT,\n    ]")
T("C03", "twin-options-by-index", "beacon.py", "    options = {name for name in comms | core | cleanup if getattr(bgo, name)}", "    options = {name for name in (comms | core | cleanup) if bgo[name]}")

# =============================================================================== C04
M("C04", "b64url-decoded-as-b64", "c2.py", "                data = base64.urlsafe_b64decode(data + b\"==\")", "                data = base64.b64decode(data + b\"==\")", "C04.R2")
M("C04", "netbios-no-upper", "c2.py", "                data = netbios_decode(data.upper())", "                data = netbios_decode(data)", "C04.R2")
M("C04", "header-reads-body", "c2.py", "                data = http.headers[step_val]", "                data = http.body", "C04.R3")
M("C04", "print-into-uri", "c2.py", "            elif step == \"print\":\n                body = data", "            elif step == \"print\":\n                uri = data", "C04.R3")
M("C04", "append-wrong-side", "c2.py", "                data = data + step_val", "                data = step_val + data", "C04.R5")
M("C04", "append-neg-slice-regression", "c2.py", "                data = data[: len(data) - step_val]", "                data = data[:-step_val]", "C04.R5")
M("C04", "prepend-drops-tail", "c2.py", "                data = data[step_val:]", "                data = data[:step_val]", "C04.R5")
M("C04", "mask-split-2", "c2.py", "                data = xor(data[4:], data[:4])", "                data = xor(data[2:], data[:2])", "C04.R6")
M("C04", "recover-drops-netbiosu", "c2.py", "            elif step == \"netbiosu\":\n                data = netbios_decode(data)\n", "", "C04.R1")
M("C04", "parameter-merge-regression", "c2.py", "            elif step == \"parameter\":\n                assert isinstance(step_val, bytes)\n                params[step_val] = data\n            elif step == \"_parameter\":\n                assert isinstance(step_val, bytes)\n                key, _, val = step_val.partition(b\"=\")\n                params[key] = val\n",
  "            elif step == \"parameter\" or step == \"_parameter\":\n                assert isinstance(step_val, bytes)\n                params[step_val] = data\n", "C04.R4")
M("C04", "hostheader-overwrites-data", "c2.py", "            elif step in (\"_header\", \"_hostheader\", \"_parameter\"):\n                pass", "            elif step in (\"_header\", \"_parameter\"):\n                pass\n            elif step == \"_hostheader\":\n                data = http.headers.get(b\"Host\", b\"\")", "C04.R4")
M("C04", "build-id-reads-metadata", "c2.py", "                    data = c2data.id or b\"\"", "                    data = c2data.metadata or b\"\"", "C04.R7")
M("C04", "server-data-for-request", "c2.py", "        if isinstance(http, HttpRequest):\n            return ClientC2Data(output=build_output, id=build_id, metadata=build_metadata)\n        return ServerC2Data", "        if isinstance(http, HttpResponse):\n            return ClientC2Data(output=build_output, id=build_id, metadata=build_metadata)\n        return ServerC2Data", "C04.R7")
M("C04", "unknown-step-ignored", "c2.py", "            else:\n                raise ValueError(\"Unknown recover step with value: {}\".format((step, step_val)))", "            else:\n                logger.debug(\"Unknown recover step with value: {}\".format((step, step_val)))", "C04.R1")
T("C04", "twin-in-tuple", "c2.py", "            elif step == \"_header\" or step == \"_hostheader\":", "            elif step in (\"_header\", \"_hostheader\"):")
T("C04", "twin-uri-plus", "c2.py", "                uri += data", "                uri = uri + data")

# =============================================================================== C06
M("C06", "size-minus-4", "c2.py", "    metadata.size = len(metadata) - 8", "    metadata.size = len(metadata) - 4", "C06.R1")
M("C06", "info-array-const", "c_c2.py", "    char info[size - 51];", "    char info[size - 50];", "C06.R1")
M("C06", "magic-check-after-return", "c2.py", "    if metadata.magic != 0xBEEF:\n        raise ValueError(f\"Invalid metadata magic, got {metadata.magic:08x}, expected 0xbeef\")\n    return metadata",
  "    if metadata.magic != 0xBEEF:\n        logger.warning(f\"Invalid metadata magic, got {metadata.magic:08x}, expected 0xbeef\")\n    return metadata", "C06.R2")
M("C06", "sentinel-mismatch", "c2.py", "    pt = cipher.decrypt(encrypted_metadata, None)", "    pt = cipher.decrypt(encrypted_metadata, b\"\\x00\")", "C06.R2")
M("C06", "eof-regression", "c2.py", "    try:\n        metadata = BeaconMetadata(pt)\n    except EOFError:\n        raise ValueError(\"Failed to parse decrypted metadata, not enough data\")", "    metadata = BeaconMetadata(pt)", "C06.R6")
M("C06", "empty-plaintext-regression", "c2.py", "    if not pt:\n        # depending on the pycryptodome version a padding failure yields the sentinel (None) or empty bytes", "    if pt is None:\n        # depending on the pycryptodome version a padding failure yields the sentinel (None) or empty bytes", "C06.R6")
M("C06", "client-magic", "client.py", "        self.metadata.magic = 0xBEEF", "        self.metadata.magic = 0xBEEFCAFE", "C06.R3")
M("C06", "size-after-dumps", "c2.py", "    metadata.size = len(metadata) - 8\n    return cipher.encrypt(metadata.dumps())", "    data = metadata.dumps()\n    metadata.size = len(metadata) - 8\n    return cipher.encrypt(data)", "C06.R4")
M("C06", "halves-swapped", "c2.py", "    return digest[:16], digest[16:]", "    return digest[16:], digest[:16]", "C06.R5")
M("C06", "client-sha1", "client.py", "        digest = hashlib.sha256(self.aes_rand).digest()", "        digest = hashlib.sha1(self.aes_rand + b\"\\x00\" * 12).digest()", "C06.R5")
M("C06", "unpack-swapped", "c2.py", "            self.aes_key, self.hmac_key = derive_aes_hmac_keys(aes_rand)", "            self.hmac_key, self.aes_key = derive_aes_hmac_keys(aes_rand)", "C06.R5")
T("C06", "twin-client-uses-helper", "client.py", "        digest = hashlib.sha256(self.aes_rand).digest()\n        self.aes_key = digest[:16]\n        self.hmac_key = digest[16:]",
  "        d2 = hashlib.sha256(self.aes_rand).digest()\n        self.aes_key = d2[:16]\n        self.hmac_key = d2[16:]")

# =============================================================================== C07
M("C07", "route-by-substring", "c2.py", "            if http.method == self.get_verb and http.uri.startswith(self.get_uris):", "            if http.method == self.get_verb and any(u in http.uri for u in self.get_uris):", "C07.R1")
M("C07", "route-without-verb", "c2.py", "            elif http.method == self.submit_verb and http.uri.startswith(self.submit_uri):", "            elif http.uri.startswith(self.submit_uri):", "C07.R1")
M("C07", "fallthrough-none", "c2.py", "        raise ValueError(f\"Possible unrelated HTTP Request or Response, cannot find correct transform for {http!r}\")", "        logger.debug(f\"Possible unrelated HTTP Request or Response, cannot find correct transform for {http!r}\")", "C07.R1")
M("C07", "swap-get-post-settings", "c2.py", "        self.transform_submit = HttpDataTransform(steps=bconfig.settings[\"SETTING_C2_POSTREQ\"])\n        self.transform_get = HttpDataTransform(steps=bconfig.settings[\"SETTING_C2_REQUEST\"])",
  "        self.transform_submit = HttpDataTransform(steps=bconfig.settings[\"SETTING_C2_REQUEST\"])\n        self.transform_get = HttpDataTransform(steps=bconfig.settings[\"SETTING_C2_POSTREQ\"])", "C07.R2")
M("C07", "response-not-reversed", "c2.py", "            steps=bconfig.settings[\"SETTING_C2_RECOVER\"], reverse=True, build=\"output\"", "            steps=bconfig.settings[\"SETTING_C2_RECOVER\"], build=\"output\"", "C07.R2")
M("C07", "both-keys-accepted", "c2.py", "        if aes_rand and aes_key:\n            raise ValueError(\"Cannot specify both aes_rand and aes_key.\")\n", "", "C07.R3")
M("C07", "hmac-len-unchecked", "c2.py", "        if self.hmac_key is not None and len(self.hmac_key) != 16:\n            raise ValueError(f\"HMAC key must be 16 bytes, got: {self.hmac_key!r}\")\n", "", "C07.R3")
M("C07", "client-posts-with-get-transform", "client.py", "        req = self.c2http.transform_submit.transform(", "        req = self.c2http.transform_get.transform(", "C07.R4")
M("C07", "client-id-hex", "client.py", "                id=str(self.beacon_id).encode(),", "                id=hex(self.beacon_id).encode(),", "C07.R4")
M("C07", "task-as-callback", "c2.py", "            if isinstance(c2data, ClientC2Data):\n                yield CallbackPacket(plaintext)\n            elif isinstance(c2data, ServerC2Data):\n                yield TaskPacket(plaintext)", "            if isinstance(c2data, ServerC2Data):\n                yield CallbackPacket(plaintext)\n            elif isinstance(c2data, ClientC2Data):\n                yield TaskPacket(plaintext)", "C07.R4")
T("C07", "twin-nested-ifs", "c2.py", "            if http.method == self.get_verb and http.uri.startswith(self.get_uris):\n                return self.transform_get", "            if http.method == self.get_verb:\n                if http.uri.startswith(self.get_uris):\n                    return self.transform_get\n            if False:\n                pass")

# =============================================================================== C08
M("C08", "find-mz-no-eof-guard", "pe.py", "        except EOFError:\n            continue\n    return None\n\n\ndef find_compile_stamps", "        except IndexError:\n            continue\n    return None\n\n\ndef find_compile_stamps", "C08.R1")
M("C08", "compile-stamps-eof-regression", "pe.py", "    except EOFError:\n        # truncated image: report the stamps found so far\n        pass", "    except KeyError:\n        # truncated image: report the stamps found so far\n        pass", "C08.R1")
M("C08", "settings-eof-unhandled", "beacon.py", "        except EOFError:\n            break\n        if setting.index == BeaconSetting.SETTING_USERAGENT:", "        except KeyError:\n            break\n        if setting.index == BeaconSetting.SETTING_USERAGENT:", "C08.R1")
M("C08", "guard-negative-seek-regression", "guardrails.py", "            if beacon_config_offset < 0:\n                # no room for a beacon config patch area before the marker, not a valid candidate\n                offset += 1\n                continue\n", "", "C08.R1")
M("C08", "guard-eof-regression", "guardrails.py", "                try:\n                    setting = GuardrailSetting(fh_guard)\n                except EOFError:\n                    # truncated or bogus guardrail config\n                    break", "                setting = GuardrailSetting(fh_guard)", "C08.R1")
M("C08", "rawhttp-index-parts", "c2.py", "    parts = first_line.rstrip().split()\n    if len(parts) != 3:\n        raise ValueError(f\"Error in parsing request status line: {first_line!r}\")\n    method, uri, _version = parts",
  "    parts = first_line.rstrip().split()\n    method, uri, _version = parts[0], parts[1], parts[2]", "C08.R1")
M("C08", "rawhttp-assert", "c2.py", "        if len(parts) != 3:\n            raise ValueError(f\"Error in parsing response status line: {first_line!r}\")", "        assert len(parts) == 3, f\"Error in parsing response status line: {first_line!r}\"", "C08.R1")
M("C08", "export-offset-signed-math", "pe.py", "            offset = export_dd.VirtualAddress - ds.VirtualAddress + ds.PointerToRawData + mz_offset", "            offset = export_dd.VirtualAddress - ds.VirtualSize + ds.PointerToRawData + mz_offset", "C08.R1")
M("C08", "elfanew-unguarded", "pe.py", "            if mz.e_lfanew > 0 and mz.e_lfanew < maxrange:\n                fh.seek(start_offset + offset + 4 + mz.e_lfanew)\n                image = pestruct.IMAGE_FILE_HEADER(fh)\n                if image.Machine in (",
  "            if mz.e_lfanew < maxrange:\n                fh.seek(start_offset + offset + 4 + mz.e_lfanew)\n                image = pestruct.IMAGE_FILE_HEADER(fh)\n                if image.Machine in (", "C08.R1")
M("C08", "extra-info-key", "beacon.py", "            bconfig.xorencoded = extra_info[\"xorencoded\"]", "            bconfig.xorencoded = extra_info[\"xorencoded\"]\n            bconfig.nonce = extra_info[\"nonce_offset\"]", "C08.R1")
M("C08", "ua-loop-regression", "beacon.py", "                        if not x:\n                            # end of data before the NUL terminator\n                            break\n", "", "C08.R2")
M("C08", "needle-empty-block-test", "utils.py", "        if not block:\n            break\n        d = saved + block", "        if block is None:\n            break\n        d = saved + block", "C08.R2")
M("C08", "artifact-continue-skips-increment", "artifact.py", "        if pos + 16 == utils.u32(data):", "        if data == b\"\\x00\\x00\\x00\\x00\":\n            continue\n        if pos + 16 == utils.u32(data):", "C08.R2")
M("C08", "xorfile-read-no-exit", "xordecode.py", "            if not chunk:\n                break\n", "            if chunk is None:\n                break\n", "C08.R2")
M("C08", "unbounded-retry", "beacon.py", "        yield from iter_beacon_config_blocks(fobj, left_xor_keys, xordecode=xordecode, all_xor_keys=False)", "        yield from iter_beacon_config_blocks(fobj, left_xor_keys, xordecode=xordecode, all_xor_keys=all_xor_keys)", "C08.R2")
M("C08", "stamps-none-to-zero", "pe.py", "    mz_offset = find_mz_offset(fh, start_offset=start_offset, maxrange=maxrange)\n    if mz_offset is None:\n        return (None, None)\n\n    compile_stamp = None", "    mz_offset = find_mz_offset(fh, start_offset=start_offset, maxrange=maxrange)\n    if mz_offset is None:\n        return (0, 0)\n\n    compile_stamp = None", "C08.R3")
T("C08", "twin-broader-except", "pe.py", "        except EOFError:\n            continue\n    return None\n\n\ndef find_compile_stamps", "        except (EOFError, OSError):\n            continue\n    return None\n\n\ndef find_compile_stamps")
T("C08", "twin-len-test", "utils.py", "        if not block:\n            break\n        d = saved + block", "        if len(block) == 0:\n            break\n        d = saved + block")
T("C08", "twin-guard-ge", "guardrails.py", "            if beacon_config_offset < 0:\n                # no room for a beacon config patch area before the marker, not a valid candidate\n                offset += 1\n                continue\n            fh.seek(beacon_config_offset)",
  "            if not beacon_config_offset >= 0:\n                offset += 1\n                continue\n            fh.seek(beacon_config_offset)")

# =============================================================================== C15
M("C15", "zero-seed-regression", "utils.py", "    saved = b\"\"\n", "    saved = b\"\\x00\" * overlap_len\n", "C15.R1")
M("C15", "zero-overlap-regression", "utils.py", "        saved = d[-overlap_len:] if overlap_len else b\"\"", "        saved = d[-overlap_len:]", "C15.R2")
M("C15", "offset-minus-overlap", "utils.py", "            offset = pos + p - len(saved)", "            offset = pos + p - overlap_len", "C15.R3")
M("C15", "tell-after-read", "utils.py", "        pos = fp.tell()\n        if max_offset and pos > max_offset:\n            break\n        block = fp.read(io.DEFAULT_BUFFER_SIZE)", "        block = fp.read(io.DEFAULT_BUFFER_SIZE)\n        pos = fp.tell()\n        if max_offset and pos > max_offset:\n            break", "C15.R3")
M("C15", "restart-at-match-end", "utils.py", "            p = d.find(needle, p + 1)", "            p = d.find(needle, p + needle_len) if p >= 0 else d.find(needle)", "C15.R4")
M("C15", "carry-full-needle", "utils.py", "    overlap_len = needle_len - 1", "    overlap_len = needle_len", "C15.R4")
M("C15", "limit-nonstrict-offset", "utils.py", "            if p == -1 or max_offset and p > max_offset:", "            if p == -1 or max_offset and pos + p + needle_len >= max_offset:", "C15.R5")
M("C15", "artifact-step-4", "artifact.py", "        pos += 1\n", "        pos += 4\n", "C15.R6")
M("C15", "artifact-header-be", "artifact.py", "        if pos + 16 == utils.u32(data):", "        if pos + 16 == utils.u32be(data):", "C15.R6")
M("C15", "artifact-key-hints-swapped", "artifact.py", "            xorkey = fobj.read(4)\n            hints = fobj.read(8)", "            hints = fobj.read(8)\n            xorkey = fobj.read(4)", "C15.R6")
M("C15", "artifact-xor-with-hints", "artifact.py", "            payload = utils.xor(data, xorkey)", "            payload = utils.xor(data, hints)", "C15.R6")
T("C15", "twin-rename", "utils.py", "        d = saved + block", "        d = saved + block  # haystack")
T("C15", "twin-len-slice", "utils.py", "        saved = d[-overlap_len:] if overlap_len else b\"\"", "        saved = d[len(d) - overlap_len :] if overlap_len else b\"\"")

# =============================================================================== C14
M("C14", "steps-by-reference-regression", "c2.py", "        self.tsteps: List[TransformStep] = list(steps)", "        self.tsteps: List[TransformStep] = steps", "C14.R1")
M("C14", "client-sorts-settings", "client.py", "        self.uri = random.choice(self.bconfig.uris)", "        self.uri = random.choice(self.bconfig.uris)\n        self.bconfig.settings[\"SETTING_C2_REQUEST\"].sort()", "C14.R1")
M("C14", "profile-pops-recover", "c2profile.py", "                c2_recover = []\n                for k, v in value:", "                c2_recover = []\n                value.reverse()\n                for k, v in value:", "C14.R1")
M("C14", "c2http-caches-and-extends", "c2.py", "        self.metadata_cache: Dict[bytes, BeaconMetadata] = {}", "        self.metadata_cache: Dict[bytes, BeaconMetadata] = {}\n        self._post_steps = bconfig.settings[\"SETTING_C2_POSTREQ\"]\n        self._post_steps += [(\"print\", True)]", "C14.R1")
M("C14", "pcap-writes-xorkey", "pcap.py", "                        self.bconfig = bconfig\n", "                        self.bconfig = bconfig\n                        bconfig.xorkey = b\"\\x00\"\n", "C14.R3")
M("C14", "return-mutable-map", "beacon.py", "        return MappingProxyType(settings)", "        return dict(settings)", "C14.R2")
M("C14", "recover-pops-steps", "c2.py", "        for step, step_val in self.rsteps:\n            step = step.lower()\n            if step == \"append\":\n                if isinstance(step_val, bytes):", "        self.rsteps.reverse()\n        for step, step_val in self.rsteps:\n            step = step.lower()\n            if step == \"append\":\n                if isinstance(step_val, bytes):", "C14.R4")
T("C14", "twin-copy-via-slice", "c2.py", "        self.tsteps: List[TransformStep] = list(steps)", "        self.tsteps: List[TransformStep] = steps[:]")
T("C14", "twin-local-sorted", "client.py", "        self.uri = random.choice(self.bconfig.uris)", "        self.uri = random.choice(self.bconfig.uris)\n        _steps = sorted(self.bconfig.settings[\"SETTING_C2_REQUEST\"], key=str)\n        _steps.reverse()")

# =============================================================================== C19
M("C19", "handlers-alias-regression", "client.py", "        handlers = list(self.task_map.get(command_id, []))", "        handlers = self.task_map.get(command_id, [])", "C19.R1")
M("C19", "fallback-always", "client.py", "        if not handlers:\n            handlers = list(self.task_map.get(-1, []))", "        if True:\n            handlers = handlers + list(self.task_map.get(-1, []))", "C19.R2")
M("C19", "double-dispatch", "client.py", "                        response = handler(task)\n                        if response:", "                        response = handler(task) or handler(task)\n                        if response:", "C19.R2")
M("C19", "id-not-even", "client.py", "        self.beacon_id = (self.beacon_id - self.beacon_id % 2) & 0xFFFFFFFF", "        self.beacon_id = self.beacon_id & 0xFFFFFFFF", "C19.R3")
M("C19", "id-range-unchecked", "client.py", "        if self.beacon_id > 0x7FFFFFFF:\n            raise ValueError(\"beacon_id must be less or equal than 2147483647\")\n", "", "C19.R3")
M("C19", "random-between-seed-and-draw", "client.py", "        random.seed(self.beacon_id ^ 0xACCE55ED)\n        self.aes_rand", "        random.seed(self.beacon_id ^ 0xACCE55ED)\n        self.pid = pid or random.randrange(1000, 5000)\n        self.aes_rand", "C19.R4")
M("C19", "seed-with-pid", "client.py", "        random.seed(self.beacon_id ^ 0xACCE55ED)", "        random.seed(self.beacon_id ^ self.pid)", "C19.R4")
M("C19", "info-chars-regression", "client.py", "        info_bytes = info.encode()[:51]", "        info_bytes = info[:51].encode()", "C19.R5")
M("C19", "sleep-plus-jitter", "client.py", "        return self.sleeptime - random.uniform(0, self.sleeptime * self.jitter / 100)", "        return self.sleeptime + random.uniform(0, self.sleeptime * self.jitter / 100)", "C19.R6")
T("C19", "twin-sleep-reordered", "client.py", "        return self.sleeptime - random.uniform(0, self.sleeptime * self.jitter / 100)", "        jit = random.uniform(0, self.jitter * self.sleeptime / 100.0)\n        return self.sleeptime - jit")
T("C19", "twin-id-mask-form", "client.py", "        self.beacon_id = (self.beacon_id - self.beacon_id % 2) & 0xFFFFFFFF", "        self.beacon_id = (self.beacon_id & ~1) & 0xFFFFFFFF")

# =============================================================================== C10
M("C10", "module-alias-regression", "c2profile.lark", "    | \"set\" \"module_x64\" string \";\"                 -> module_x64", "    | \"set\" \"module_x64\" string \";\"                 -> module_x86", "C10.R1")
M("C10", "copy-paste-alias-dns", "c2profile.lark", "    | \"set\" \"get_AAAA\" string \";\"               -> get_aaaa", "    | \"set\" \"get_AAAA\" string \";\"               -> get_a", "C10.R1")
M("C10", "netbiosu-alias", "c2profile.lark", "    | \"netbiosu\" \";\"                        -> netbiosu", "    | \"netbiosu\" \";\"                        -> netbios", "C10.R1")
M("C10", "gate-alias-collision", "c2profile.lark", "    | \"OpenThread\" \";\"                      -> openthread", "    | \"OpenThread\" \";\"                      -> openprocess", "C10.R1")
M("C10", "anonymous-string-terminal", "c2profile.lark", "string: STRING\n", "string: /\"[^\"]*\"/\n", "C10.R2")
M("C10", "postproc-drops-semicolon", "c2profile.py", "                    for i, x in enumerate(line):\n                        yield x\n", "                    for i, x in enumerate(line):\n                        if x != \";\" or len(line) > 1:\n                            yield x\n", "C10.R3")
M("C10", "from-text-strips-source", "c2profile.py", "        profile.tree = c2profile_parser.parse(source)", "        profile.tree = c2profile_parser.parse(source.split(\"#\")[0])", "C10.R3")
T("C10", "twin-as-text-local", "c2profile.py", "        return Reconstructor(c2profile_parser).reconstruct(self.tree, postproc)", "        rec = Reconstructor(c2profile_parser)\n        return rec.reconstruct(self.tree, postproc)")
T("C10", "twin-new-option", "c2profile.lark", "    | \"set\" \"checksum\" string \";\"                   -> checksum", "    | \"set\" \"checksum\" string \";\"                   -> checksum\n    | \"set\" \"new_option\" string \";\"                 -> new_option")
T("C10", "twin-comment", "c2profile.lark", "header: string\n", "// unused\nheader: string\n")

# =============================================================================== C11
M("C11", "list-prop-dropped", "c2profile.py", "            \"http-post.client.output\",\n", "", "C11.R1")
M("C11", "list-prop-typo", "c2profile.py", "            \"http-get.client.metadata\",", "            \"http-get.client.meta\",", "C11.R1")
M("C11", "cache-without-hash-test", "c2profile.py", "        if self._dict_hash == hash(self.tree):\n            return self._dict_cache", "        if self._dict_hash is not None:\n            return self._dict_cache", "C11.R2")
M("C11", "hash-of-other-object", "c2profile.py", "        self._dict_hash = hash(self.tree)\n        self._dict_cache = dict(properties)", "        self._dict_hash = hash(self)\n        self._dict_cache = dict(properties)", "C11.R2")
M("C11", "from-text-preseeds-hash", "c2profile.py", "        profile.tree = c2profile_parser.parse(source)\n        return profile", "        profile.tree = c2profile_parser.parse(source)\n        profile._dict_hash = hash(profile.tree)\n        return profile", "C11.R2")
M("C11", "builder-wrong-arity", "c2profile.py", "    strrep = ConfigBlock._pair", "    strrep = ConfigBlock.set_option", "C11.R3")
M("C11", "builder-unknown-alias", "c2profile.py", "    rtlcreateuserthread = ConfigBlock._enable", "    rtlcreateuserthreads = ConfigBlock._enable", "C11.R3")
M("C11", "grammar-alias-renamed", "c2profile.lark", "    | \"SetThreadContext\" \";\"                -> setthreadcontext\n\nbeacon_gate_options", "    | \"SetThreadContext\" \";\"                -> set_thread_context\n\nbeacon_gate_options", "C11.R3")
M("C11", "option-tree-order", "c2profile.py", "                [\n                    Token(\"OPTION\", option),\n                    Tree(\"string\", [Token(\"STRING\", value)]),\n                ],", "                [\n                    Tree(\"string\", [Token(\"STRING\", value)]),\n                    Token(\"OPTION\", option),\n                ],", "C11.R3")
M("C11", "mask-as-termination", "c2profile.py", "            if option in (\"base64\", \"base64url\", \"mask\", \"netbios\", \"netbiosu\"):", "            if option in (\"base64\", \"base64url\", \"netbios\", \"netbiosu\"):", "C11.R3")
T("C11", "twin-list-props-tuple", "c2profile.py", "            \"http-get.server.output\",\n        ]", "            \"http-get.server.output\",\n            \"http-post.client.metadata\",\n        ]")

# =============================================================================== C12
M("C12", "no-quote-escape", "c2profile.py", "        value = value.replace('\"', '\\\\\"')\n", "", "C12.R1")
M("C12", "quote-escape-elif", "c2profile.py", "    if isinstance(value, str):\n        # we escape double quotes", "    elif isinstance(value, str):\n        # we escape double quotes", "C12.R1")
M("C12", "repr-without-pin", "c2profile.py", "        value = repr(b'\"' + value)[3:-1]", "        value = repr(value)[2:-1]", "C12.R1")
M("C12", "cr-decodes-to-lf", "c2profile.py", "                    buffer.append(ord(\"\\r\"))", "                    buffer.append(ord(\"\\n\"))", "C12.R2")
M("C12", "single-quote-unhandled", "c2profile.py", "                elif next2 == \"'\":\n                    buffer.append(ord(\"'\"))\n", "", "C12.R2")
M("C12", "hex-no-length-check", "c2profile.py", "                    if not it.has_next(2):\n                        raise ValueError(\"not enough remaining chars for \\\\xXX\")\n", "", "C12.R2")
M("C12", "unicode-takes-high-pair", "c2profile.py", "                    _ = it.next(2)\n                    hexstr = \"\".join(it.next(2))", "                    hexstr = \"\".join(it.next(2))\n                    _ = it.next(2)", "C12.R2")
M("C12", "string-regex-no-lookbehind", "c2profile.lark", "STRING: \"\\\"\" /(.|\\n)*?/ /(?<!\\\\)(\\\\\\\\)*?/ \"\\\"\"", "STRING: \"\\\"\" /(.|\\n)*?/ \"\\\"\"", "C12.R4")
M("C12", "string-regex-greedy", "c2profile.lark", "STRING: \"\\\"\" /(.|\\n)*?/ /(?<!\\\\)(\\\\\\\\)*?/ \"\\\"\"", "STRING: \"\\\"\" /(.|\\n)*/ /(?<!\\\\)(\\\\\\\\)*?/ \"\\\"\"", "C12.R4")
T("C12", "twin-tab-literal", "c2profile.py", "                    buffer.append(ord(\"\\t\"))", "                    buffer.append(9)")

# =============================================================================== C13
M("C13", "option-name-typo", "c2profile.py", "                profile.set_option(\"jitter\", value)", "                profile.set_option(\"jiter\", value)", "C13.R1")
M("C13", "pair-for-single-string", "c2profile.py", "                http_post.set_option(\"uri\", value)", "                http_post._pair(\"uri\", [(value, value)])", "C13.R1")
M("C13", "dns-option-wrong-block", "c2profile.py", "                dns_beacon.set_option(\"maxdns\", value)", "                stage.set_option(\"maxdns\", value)", "C13.R1")
M("C13", "gate-spelling-regression", "c2profile.lark", "    | \"VirtualProtectEx\" \";\"                -> virtualprotectex", "    | \"VirtualProtectEx\" \";\"                -> virtualprotextex", "C13.R2")
M("C13", "gate-consumer-upper", "c2profile.py", "            block._enable(option.lower(), True)", "            block._enable(option, True)", "C13.R2")
M("C13", "executor-spelling-regression", "beacon.py", "        elif inject == InjectExecutor.NtQueueApcThread_s:\n            # Cobalt Strike spells this executor with a dash\n            ret.append(\"NtQueueApcThread-s\")\n", "", "C13.R3")
M("C13", "executor-dropped-from-list", "c2profile.py", "                        \"NtQueueApcThread\",\n                        \"NtQueueApcThread-s\",\n                        \"RtlCreateUserThread\",\n                    ]:\n                        exec_options._enable", "                        \"NtQueueApcThread\",\n                        \"NtQueueApcThread-s\",\n                    ]:\n                        exec_options._enable", "C13.R3")
M("C13", "get-args-unescaped-regression", "c2profile.py", "                        block_steps[_build].append((k.lower(), v))\n                logger.debug(f\"block_steps: {block_steps}\")\n                if headers:\n                    http_get_client", "                        block_steps[_build].append((k.lower(), v.decode(\"latin-1\")))\n                logger.debug(f\"block_steps: {block_steps}\")\n                if headers:\n                    http_get_client", "C13.R4")
M("C13", "post-params-dropped", "c2profile.py", "                if params:\n                    http_post_client._pair(\"parameter\", params)\n", "", "C13.R5")
M("C13", "stage-attached-unconditionally", "c2profile.py", "        profile.set_non_empty_config_block(\"stage\", stage)", "        profile.set_config_block(\"stage\", stage)", "C13.R6")
M("C13", "non-empty-guard-removed", "c2profile.py", "        if config_block.tree.children:\n            self.set_config_block(option, config_block)", "        self.set_config_block(option, config_block)", "C13.R6")
T("C13", "twin-pass-bytes", "c2profile.py", "                        # log.debug(f\"{k} -> {v}\")\n                        block_steps[_build].append((k.lower(), v))", "                        # log.debug(f\"{k} -> {v}\")\n                        block_steps[_build].append((k.lower(), v))  # bytes: escaped by the builder")

# =============================================================================== C09
M("C09", "tell-header-4", "xordecode.py", "        return self.fh.tell() - (self.nonce_offset + 8)", "        return self.fh.tell() - (self.nonce_offset + 4)", "C09.R1")
M("C09", "seek-forgets-header", "xordecode.py", "            offset += self.nonce_offset + 8\n", "            offset += self.nonce_offset\n", "C09.R1")  # re-anchored after F25
M("C09", "size-relation-12", "xordecode.py", "        if decoded_size + i + 8 == real_size:", "        if decoded_size + i + 12 == real_size:", "C09.R1")
M("C09", "giveback-regression", "xordecode.py", "            self.fh.seek(n - len(data), io.SEEK_CUR)\n", "", "C09.R2")
M("C09", "read0-regression", "xordecode.py", "        if n == 0:\n            return data\n        nonce = self.read_nonce()", "        nonce = self.read_nonce()", "C09.R2")
M("C09", "plaintext-chaining", "xordecode.py", "            data += xor(chunk, nonce)\n            nonce = chunk", "            data += xor(chunk, nonce)\n            nonce = data[-4:]", "C09.R3")
M("C09", "first-candidate-unvalidated", "xordecode.py", "            if pe.find_mz_offset(cast(BinaryIO, xf)) is not None:\n                xf.seek(0)\n                return xf", "            xf.seek(0)\n            return xf", "C09.R4")
M("C09", "no-rewind", "xordecode.py", "                xf.seek(0)\n                return xf", "                return xf", "C09.R4")
T("C09", "twin-header-const", "xordecode.py", "        return self.fh.tell() - (self.nonce_offset + 8)", "        return self.fh.tell() - self.nonce_offset - 8")

# =============================================================================== C16
M("C16", "body-rpartition", "c2.py", "    header_data, _, body = data.partition(b\"\\r\\n\\r\\n\")", "    header_data, _, body = data.rpartition(b\"\\r\\n\\r\\n\")", "C16.R1")
M("C16", "body-stripped", "c2.py", "        return HttpResponse(body=body, headers=headers, status=status_code, reason=reason)", "        return HttpResponse(body=body.strip(), headers=headers, status=status_code, reason=reason)", "C16.R1")
M("C16", "no-length-test-request", "c2.py", "    if len(parts) != 3:\n        raise ValueError(f\"Error in parsing request status line: {first_line!r}\")\n", "", "C16.R")
M("C16", "status-reason-swapped", "c2.py", "        _version, status, reason = parts", "        _version, reason, status = parts", "C16.R3")
M("C16", "method-uri-swapped", "c2.py", "    method, uri, _version = parts", "    uri, method, _version = parts", "C16.R3")
M("C16", "response-by-status-digits", "c2.py", "    if first_line.upper().startswith(b\"HTTP/\"):", "    if first_line[:1].isalpha() and first_line.endswith(b\"OK\"):", "C16.R4")
M("C16", "header-split-colon-only", "c2.py", "        key, _, value = header.partition(b\": \")", "        key, _, value = header.partition(b\":\")", "C16.R5")
M("C16", "status-int-of-bytes-keyerror", "c2.py", "        status_code = int(status.decode())", "        status_code = {b\"200\": 200, b\"404\": 404}[status]", "C16.R")
T("C16", "twin-rename-body", "c2.py", "    header_data, _, body = data.partition(b\"\\r\\n\\r\\n\")\n    first_line, _, header_data = header_data.partition(b\"\\r\\n\")", "    head, _, body = data.partition(b\"\\r\\n\\r\\n\")\n    first_line, _, header_data = head.partition(b\"\\r\\n\")")

# =============================================================================== C17
M("C17", "assign-before-compare", "guardrails.py", "            if grconfig.checksum == checksum:\n                log.info(\"Found guardrail payload xorkey: %r\", xorkey)\n                grconfig.payload_xor_key = xorkey\n                grconfig.unmasked_beacon_config = unguarded",
  "            grconfig.unmasked_beacon_config = unguarded\n            if grconfig.checksum == checksum:\n                log.info(\"Found guardrail payload xorkey: %r\", xorkey)\n                grconfig.payload_xor_key = xorkey", "C17.R1")
M("C17", "checksum-no-plus-one", "guardrails.py", "            checksum = payload_checksum(unguarded) + 1", "            checksum = payload_checksum(unguarded)", "C17.R1")
M("C17", "store-guarded-not-unguarded", "guardrails.py", "                grconfig.unmasked_beacon_config = unguarded", "                grconfig.unmasked_beacon_config = guarded_config", "C17.R1")
M("C17", "from-file-no-continue", "beacon.py", "            if not grconfig.unmasked_beacon_config:\n                continue\n", "", "C17.R2")
M("C17", "marker-table-type", "guardrails.py", "    b\"\\x00\\x08\\x00\\x02\\x00\\x04\",  # GUARD_LOCAL_IP", "    b\"\\x00\\x08\\x00\\x01\\x00\\x04\",  # GUARD_LOCAL_IP", "C17.R3")
M("C17", "checksum-option-number", "guardrails.py", "    GUARD_PAYLOAD_CHECKSUM = 9,", "    GUARD_PAYLOAD_CHECKSUM = 10,", "C17.R3")
M("C17", "patch-size", "guardrails.py", "BEACON_CONFIG_PATCH_SIZE = 6144", "BEACON_CONFIG_PATCH_SIZE = 4096", "C17.R4")
M("C17", "mask-not-reversed", "guardrails.py", "            unmasked_guard_config = xor(xor(masked_guard_config, masked_beacon_config[::-1]), xorkey)", "            unmasked_guard_config = xor(xor(masked_guard_config, masked_beacon_config), xorkey)", "C17.R4")
M("C17", "key-length-range", "guardrails.py", "    for keylen in range(2, 257):", "    for keylen in range(2, 256):", "C17.R5")
M("C17", "checksum-weights", "guardrails.py", "        n = (n + (data[i] & 0xFF) * (i % 3 + 1)) % 99999999", "        n = (n + (data[i] & 0xFF) * (i % 3)) % 99999999", "C17.R5")
T("C17", "twin-comment", "guardrails.py", "            checksum = payload_checksum(unguarded) + 1", "            checksum = 1 + payload_checksum(unguarded)")

# =============================================================================== C18
M("C18", "struct-field-dropped", "pe.py", "    DWORD                Win32VersionValue;\n    DWORD                SizeOfImage;\n    DWORD                SizeOfHeaders;\n    DWORD                CheckSum;\n    WORD                 Subsystem;\n    WORD                 DllCharacteristics;\n    DWORD                SizeOfStackReserve;", "    DWORD                SizeOfImage;\n    DWORD                SizeOfHeaders;\n    DWORD                CheckSum;\n    WORD                 Subsystem;\n    WORD                 DllCharacteristics;\n    DWORD                SizeOfStackReserve;", "C18.R1")
M("C18", "machine-const", "pe.py", "#define IMAGE_FILE_MACHINE_AMD64    0x8664", "#define IMAGE_FILE_MACHINE_AMD64    0x8864", "C18.R1")
M("C18", "file-header-without-plus4", "pe.py", "    fh.seek(mz.e_lfanew + mz_offset + 4)\n    image", "    fh.seek(mz.e_lfanew + mz_offset)\n    image", "C18.R2",
  edits=[("pe.py", "        fh.seek(mz.e_lfanew + mz_offset + 4)\n        image = pestruct.IMAGE_FILE_HEADER(fh)", "        fh.seek(mz.e_lfanew + mz_offset)\n        image = pestruct.IMAGE_FILE_HEADER(fh)")])
M("C18", "signature-skipped", "pe.py", "        signature = pestruct.uint32(fh).to_bytes(4, \"little\")\n        logger.debug(\"PE signature: %r\", signature)\n", "", "C18.R2")
M("C18", "export-offset-uses-virtualsize", "pe.py", "            offset = export_dd.VirtualAddress - ds.VirtualAddress + ds.PointerToRawData + mz_offset", "            offset = export_dd.VirtualAddress - ds.VirtualAddress + ds.SizeOfRawData + mz_offset", "C18.R2")
M("C18", "sections-fixed-count", "pe.py", "        sections = [pestruct.IMAGE_SECTION_HEADER(fh) for _ in range(image.NumberOfSections)]\n        ds = None", "        sections = [pestruct.IMAGE_SECTION_HEADER(fh) for _ in range(4)]\n        ds = None", "C18.R2")
M("C18", "arch-swapped", "pe.py", "                if image.Machine == pestruct.IMAGE_FILE_MACHINE_AMD64:\n                    return \"x64\"\n                elif image.Machine == pestruct.IMAGE_FILE_MACHINE_I386:\n                    return \"x86\"", "                if image.Machine == pestruct.IMAGE_FILE_MACHINE_AMD64:\n                    return \"x86\"\n                elif image.Machine == pestruct.IMAGE_FILE_MACHINE_I386:\n                    return \"x64\"", "C18.R3")
M("C18", "sibling-constraint-drift", "pe.py", "            if mz.e_lfanew > 0 and mz.e_lfanew < maxrange:\n                fh.seek(start_offset + offset + 4 + mz.e_lfanew)\n                image = pestruct.IMAGE_FILE_HEADER(fh)\n                if image.Machine == pestruct.IMAGE_FILE_MACHINE_AMD64:", "            if mz.e_lfanew > 0 and mz.e_lfanew <= maxrange:\n                fh.seek(start_offset + offset + 4 + mz.e_lfanew)\n                image = pestruct.IMAGE_FILE_HEADER(fh)\n                if image.Machine == pestruct.IMAGE_FILE_MACHINE_AMD64:", "C18.R3")
M("C18", "table-row-out-of-order", "version.py", "    0x5F94C216: \"Cobalt Strike 4.2 (Nov 06, 2020)\",", "    0x5F94C216: \"Cobalt Strike 4.3 (Mar 03, 2021)\",", "C18.R4")
M("C18", "table-bad-date", "version.py", "    74: \"Cobalt Strike 4.7 (Aug 17, 2022)\",", "    74: \"Cobalt Strike 4.7 (Aug 32, 2022)\",", "C18.R4")
M("C18", "enum-table-regress", "version.py", "    59: \"Cobalt Strike 4.2 (Nov 06, 2020)\",", "    59: \"Cobalt Strike 4.0 (Dec 05, 2019)\",", "C18.R4")
M("C18", "prefer-setting-index", "beacon.py", "        if self.pe_export_stamp:\n            return BeaconVersion.from_pe_export_stamp(self.pe_export_stamp)\n        return BeaconVersion.from_max_setting_enum(self.max_setting_enum)", "        if self.settings_tuple:\n            return BeaconVersion.from_max_setting_enum(self.max_setting_enum)\n        return BeaconVersion.from_pe_export_stamp(self.pe_export_stamp)", "C18.R5")
M("C18", "lookup-wrong-table", "version.py", "        return BeaconVersion(MAX_ENUM_TO_VERSION.get(enum, \"Unknown\"))", "        return BeaconVersion(PE_EXPORT_STAMP_TO_VERSION.get(enum, \"Unknown\"))", "C18.R5")
M("C18", "append-without-headers", "pe.py", "        size = optional_header.SizeOfHeaders\n", "        size = 0\n", "C18.R6")
T("C18", "twin-new-table-row", "version.py", "    0x674E0D17: \"Cobalt Strike 4.10.1 (Dec 10, 2024)\",", "    0x674E0D17: \"Cobalt Strike 4.10.1 (Dec 10, 2024)\",\n    0x67D00000: \"Cobalt Strike 4.11 (Mar 17, 2025)\",")

# =============================================================================== C20
M("C20", "xor-identity-on-first-zero", "utils.py", "    if sum(key) == 0:\n        return data", "    if not key or key[0] == 0:\n        return data", "C20.R1")
# (the former mutant "xor-size-of-key": to_bytes(.., len(key), ..) was an EQUIVALENT change - after `key = key[:size]` of a tiled
#  non-zero key len(key) == size - and is now a twin; the truly breaking forms are in selftest/extra/c20.py)
T("C20", "twin-xor-size-of-cut-key", "utils.py", "    return int.to_bytes(int.from_bytes(data, \"little\") ^ int.from_bytes(key, \"little\"), size, \"little\")", "    return int.to_bytes(int.from_bytes(data, \"little\") ^ int.from_bytes(key, \"little\"), len(key), \"little\")")
M("C20", "xor-key-not-cut", "utils.py", "    key = key[:size]\n", "", "C20.R1")
M("C20", "xor-mixed-endian", "utils.py", "int.from_bytes(key, \"little\"), size, \"little\")", "int.from_bytes(key, \"big\"), size, \"little\")", "C20.R1")
M("C20", "u32be-no-byteorder", "utils.py", "u32be = partial(unpack, size=4, byteorder=\"big\")", "u32be = partial(unpack, size=4)", "C20.R2")
M("C20", "p16-size", "utils.py", "p16 = partial(pack, size=2)", "p16 = partial(pack, size=4)", "C20.R2")
M("C20", "stager-constants-swapped", "utils.py", "    return checksum8(uri) == 92", "    return checksum8(uri) == 93", "C20.R3")
M("C20", "x64-no-anchor", "utils.py", "re.fullmatch(\"/[A-Za-z0-9]{4}\", uri)", "re.match(\"^/[A-Za-z0-9]{4}\", uri)", "C20.R3")
M("C20", "checksum-mod-255", "utils.py", "    return sum(map(ord, text)) % 256", "    return sum(map(ord, text)) % 255", "C20.R3")
M("C20", "return-before-classifier", "utils.py", "        uri = \"/\" + \"\".join(random.choice(chars) for _ in range(length))\n        if is_stager(uri):\n            return uri", "        uri = \"/\" + \"\".join(random.choice(chars) for _ in range(length))\n        if is_stager(uri) or length > 8:\n            return uri", "C20.R4")
M("C20", "staged-gate-removed", "pcap.py", "            if not is_stager:\n                return None\n", "", "C20.R5")
M("C20", "staged-flag-default-true", "pcap.py", "            elif utils.is_stager_x64(uri):\n                is_stager = True", "            elif utils.is_stager_x64(uri):\n                is_stager = True\n            elif len(uri) == 5:\n                is_stager = True", "C20.R5")
M("C20", "netbios-nibbles-swapped", "utils.py", "        barray.append(a)\n        barray.append(b)", "        barray.append(b)\n        barray.append(a)", "C20.R6")
M("C20", "netbios-decode-shift", "utils.py", "        a = (data[i] - offset) << 4", "        a = (data[i] - offset) << 3", "C20.R6")
T("C20", "twin-decoder-or", "utils.py", "        barray.append(a + b)", "        barray.append(a | b)")
T("C20", "twin-fullmatch", "utils.py", "re.fullmatch(\"/[A-Za-z0-9]{4}\", uri)", "re.match(\"^/[A-Za-z0-9]{4}\\Z\", uri)")
M("C16", "qsl-bytes-regression", "c2.py", "    query = parse_qsl(result.query.decode(\"ascii\"), encoding=\"latin-1\")\n    params = {key.encode(\"latin-1\"): value.encode(\"latin-1\") for key, value in query}", "    params = dict(parse_qsl(result.query))", "C16.R")

# =============================================================================== round-2 rules
M("C02", "convert-only-nonempty", "beacon.py", "            if parse or pretty:\n", "            if (parse or pretty) and setting.length:\n", "C02.R2")
T("C02", "twin-flags-swapped", "beacon.py", "            if parse or pretty:\n", "            if pretty or parse:\n")
M("C03", "gargle-drop-zero-start", "beacon.py", "        if (start, end) != (0, 0):", "        if start:", "C03.R9")
M("C03", "gargle-swapped-text", "beacon.py", "            value = f\"0x{start:x}-0x{end:x}\"", "            value = f\"0x{end:x}-0x{start:x}\"", "C03.R9")
T("C03", "twin-gargle-or", "beacon.py", "        if (start, end) != (0, 0):", "        if start != 0 or end != 0:")
T("C03", "twin-gargle-not-and", "beacon.py", "        if (start, end) != (0, 0):", "        if not (start == 0 and end == 0):")
T("C03", "twin-gargle-continue", "beacon.py", "        if (start, end) != (0, 0):\n            value = f\"0x{start:x}-0x{end:x}\"\n            addresses.append(value)",
  "        if (0, 0) == (start, end):\n            continue\n        value = f\"0x{start:x}-0x{end:x}\"\n        addresses.append(value)")
M("C05", "packet-default-iv", "c2.py", "    return decrypt_data(packet.ciphertext, aes_key, iv)", "    return decrypt_data(packet.ciphertext, aes_key, BeaconKeys.DEFAULT_AES_IV)", "C05.R6")
T("C05", "twin-forward-by-keyword", "c2.py", "    return decrypt_data(packet.ciphertext, aes_key, iv)", "    return decrypt_data(packet.ciphertext, iv=iv, aes_key=aes_key)")
M("C07", "cache-after-yield", "c2.py", "            yield metadata\n", "            yield metadata\n            self.metadata_cache[c2data.metadata] = metadata\n", "C07.R4")
M("C09", "validate-within-search-range", "xordecode.py", "pe.find_mz_offset(cast(BinaryIO, xf))", "pe.find_mz_offset(cast(BinaryIO, xf), 0, maxrange)", "C09.R4")
T("C09", "twin-explicit-default-range", "xordecode.py", "pe.find_mz_offset(cast(BinaryIO, xf))", "pe.find_mz_offset(cast(BinaryIO, xf), maxrange=1024)")
# (was listed as a mutant until round 5: read-then-validate is behaviour-preserving here - next(n) is a slice that is simply
# shorter when fewer characters are left, same exception class and message - independent refactoring benign/C12m is the same edit)
T("C12", "twin-x-digits-read-then-validated", "c2profile.py",
  "                    if not it.has_next(2):\n                        raise ValueError(\"not enough remaining chars for \\\\xXX\")\n                    hexstr = \"\".join(it.next(2))",
  "                    hexstr = \"\".join(it.next(2))\n                    if len(hexstr) != 2:\n                        raise ValueError(\"not enough remaining chars for \\\\xXX\")")
M("C13", "builder-drops-print", "c2profile.py", "            elif option in (\"print\", \"uri-append\", \"uri_append\"):", "            elif option in (\"uri-append\", \"uri_append\"):", "C13.R9")
T("C13", "twin-terminators-reordered", "c2profile.py", "            elif option in (\"print\", \"uri-append\", \"uri_append\"):", "            elif option in (\"uri_append\", \"print\", \"uri-append\"):")
M("C14", "shared-empty-request", "c2.py", "", "", "C14.R6",
  edits=[("c2.py", "class HttpDataTransform:\n", "_NO_REQUEST = HttpRequest(method=b\"\", uri=b\"\", body=b\"\", params={}, headers={})\n\n\nclass HttpDataTransform:\n"),
         ("c2.py", "        request = request or HttpRequest(method=b\"\", uri=b\"\", body=b\"\", params={}, headers={})", "        request = request or _NO_REQUEST")])
T("C14", "twin-empty-request-dict-calls", "c2.py", "        request = request or HttpRequest(method=b\"\", uri=b\"\", body=b\"\", params={}, headers={})",
  "        request = request or HttpRequest(method=b\"\", uri=b\"\", body=b\"\", params=dict(), headers=dict())")
M("C14", "memoised-list-result", "beacon.py", "def parse_gargle(data: bytes) -> list:", "@functools.lru_cache(maxsize=64)\ndef parse_gargle(data: bytes) -> list:", "C14.R6")
T("C14", "twin-memoised-scalar", "beacon.py", "def null_terminated_str(", "@functools.lru_cache(maxsize=64)\ndef null_terminated_str(")
M("C16", "unquote-before-split", "c2.py", "", "", "C16.R7",
  edits=[("c2.py", "from urllib.parse import parse_qsl, urlsplit", "from urllib.parse import parse_qsl, unquote_to_bytes, urlsplit"),
         ("c2.py", "    uri = uri.decode(\"ascii\", errors=\"ignore\").encode()", "    uri = unquote_to_bytes(uri).decode(\"ascii\", errors=\"ignore\").encode()")])
M("C16", "memoised-parser", "c2.py", "", "", "C16.R8",
  edits=[("c2.py", "import base64\n", "import base64\nimport functools\n"), ("c2.py", "def parse_raw_http(data: bytes)", "@functools.lru_cache(maxsize=32)\ndef parse_raw_http(data: bytes)")])
M("C17", "small-ngram-chunks", "guardrails.py", "functools.partial(fh.read, io.DEFAULT_BUFFER_SIZE)", "functools.partial(fh.read, 1024)", "C17.R5")
T("C17", "twin-chunk-is-area", "guardrails.py", "functools.partial(fh.read, io.DEFAULT_BUFFER_SIZE)", "functools.partial(fh.read, BEACON_CONFIG_PATCH_SIZE)")
M("C18", "require-mz-magic", "pe.py",
  "            if mz.e_lfanew > 0 and mz.e_lfanew < maxrange:\n                fh.seek(start_offset + offset + 4 + mz.e_lfanew)\n                image = pestruct.IMAGE_FILE_HEADER(fh)\n                if image.Machine in (",
  "            if mz.e_magic == 0x5A4D and mz.e_lfanew > 0 and mz.e_lfanew < maxrange:\n                fh.seek(start_offset + offset + 4 + mz.e_lfanew)\n                image = pestruct.IMAGE_FILE_HEADER(fh)\n                if image.Machine in (",
  "C18.R3")
M("C19", "method-handler-after-fallback", "client.py", "", "", "C19.R2",
  edits=[("client.py", "        # if there is a \"on_command\" handler, add it to the list\n        if on_handler:\n            handlers.append(on_handler)\n\n", ""),
         ("client.py", "                handlers.append(on_catch_all)\n        return handlers", "                handlers.append(on_catch_all)\n        if on_handler:\n            handlers.append(on_handler)\n        return handlers")])
M("C03", "str-codec-cp1252", "beacon.py", "    return null_terminated_bytes(data).decode(\"latin-1\", \"ignore\")", "    return null_terminated_bytes(data).decode(\"cp1252\", \"ignore\")", "C03.R7")
M("C03", "str-codec-ascii-ignore", "beacon.py", "    return null_terminated_bytes(data).decode(\"latin-1\", \"ignore\")", "    return null_terminated_bytes(data).decode(\"ascii\", \"ignore\")", "C03.R7")
T("C03", "twin-str-codec-alias", "beacon.py", "    return null_terminated_bytes(data).decode(\"latin-1\", \"ignore\")", "    return null_terminated_bytes(data).decode(\"iso-8859-1\", \"ignore\")")
