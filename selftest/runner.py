"""Mutant / benign-twin corpus runner.

Each corpus entry is a textual edit of one repository source file.  The edit is applied
to a scratch copy of the package (under a fresh tempfile.mkdtemp(), outside /repo and
/verif), the property's rules are evaluated on the copy in-process, and the copy is
removed at once.  Nothing from the scratch copy is imported or executed.

* mutant: must produce at least one *new* violated obligation of the expected rule
* twin:   behaviour-preserving edit, must produce *no* new violated obligation

"New" is relative to the obligations violated on the tree the copy was taken from, so
the corpus stays meaningful on a tree that already carries a violation.
"""

from __future__ import annotations

import importlib
import os
import shutil
import sys
import tempfile
from concurrent.futures import ProcessPoolExecutor
from typing import Dict, List, Optional, Tuple

HERE = os.path.dirname(os.path.abspath(__file__))
VERIF = os.path.dirname(HERE)
if VERIF not in sys.path:
    sys.path.insert(0, VERIF)

from csverif import AnalysisError  # noqa: E402
from csverif.context import Ctx  # noqa: E402
from csverif.loader import PKG_REL, repo_root  # noqa: E402


def _violations(prop: str, root: Optional[str]) -> Tuple[set, List[str]]:
    mod = importlib.import_module(f"rules.{prop.lower()}")
    ctx = Ctx(prop, "quick", root)
    mod.run(ctx)
    bad = {(o.rule, o.construct) for o in ctx.rep.obs if not o.ok and not o.undecided}
    _LAST_UNDECIDED[prop] = sorted({(o.rule, o.construct) for o in ctx.rep.obs if not o.ok and o.undecided})
    return bad, list(ctx.rep.analysis_errors)


_LAST_UNDECIDED: Dict[str, list] = {}


def make_copy(src_root: str) -> str:
    tmp = tempfile.mkdtemp(prefix="csverif-selftest-")
    dst = os.path.join(tmp, PKG_REL)
    os.makedirs(dst)
    src = os.path.join(src_root, PKG_REL)
    for fn in os.listdir(src):
        if fn.endswith((".py", ".lark")):
            shutil.copy2(os.path.join(src, fn), os.path.join(dst, fn))
    return tmp


def apply_edit(root: str, file: str, old: str, new: str) -> bool:
    p = os.path.join(root, PKG_REL, file)
    with open(p, encoding="utf-8") as f:
        text = f.read()
    if text.count(old) != 1:
        return False
    with open(p, "w", encoding="utf-8") as f:
        f.write(text.replace(old, new))
    return True


def run_entry(args) -> dict:
    entry, src_root, baseline = args
    prop = entry["prop"]
    tmp = make_copy(src_root)
    try:
        edits = entry.get("edits") or [(entry["file"], entry["old"], entry["new"])]
        for (file, old, new) in edits:
            if not apply_edit(tmp, file, old, new):
                return {"id": entry["id"], "status": "stale", "detail": f"edit anchor not found exactly once in {file}"}
        try:
            bad, errs = _violations(prop, tmp)
        except AnalysisError as e:
            bad, errs = set(), [str(e)]
        except SyntaxError as e:
            return {"id": entry["id"], "status": "stale", "detail": f"edit does not parse: {e}"}
        new_bad = sorted(bad - set(map(tuple, baseline)))
        if entry["kind"] == "mutant":
            exp = entry["expect"]
            hit = [b for b in new_bad if b[0].startswith(exp)]
            if hit:
                return {"id": entry["id"], "status": "caught", "by": hit[0][0], "construct": hit[0][1]}
            if errs:
                return {"id": entry["id"], "status": "analysis-error", "detail": "; ".join(errs)[:300]}
            return {"id": entry["id"], "status": "MISSED", "detail": f"expected a new violation of {exp}; new violations: {new_bad[:3]}"}
        else:
            if new_bad or errs:
                return {"id": entry["id"], "status": "FALSE-ALARM", "detail": f"{new_bad[:3]} {errs[:2]}"}
            und = _LAST_UNDECIDED.get(prop, [])
            return {"id": entry["id"], "status": "silent", "detail": (f"(undecided: {len(und)}: {', '.join(sorted({u[0] for u in und}))})" if und else "")}
    finally:
        shutil.rmtree(tmp, ignore_errors=True)


def load_corpus(prop: Optional[str] = None) -> List[dict]:
    from selftest import corpus

    ents = corpus.entries()
    if prop:
        ents = [e for e in ents if e["prop"] == prop]
    return ents


def run_corpus(prop: Optional[str], src_root: Optional[str] = None, jobs: int = 16) -> List[dict]:
    src_root = src_root or repo_root()
    ents = load_corpus(prop)
    props = sorted({e["prop"] for e in ents})
    baselines: Dict[str, list] = {}
    for p in props:
        bad, _ = _violations(p, src_root)
        baselines[p] = sorted(bad)
    work = [(e, src_root, baselines[e["prop"]]) for e in ents]
    if not work:
        return []
    with ProcessPoolExecutor(max_workers=min(jobs, len(work))) as ex:
        return list(ex.map(run_entry, work))


def attach(ctx) -> None:
    """Thorough tier: run this property's corpus and record it in the evidence."""
    res = run_corpus(ctx.prop, ctx.repo.root)
    summ: Dict[str, int] = {}
    for r in res:
        summ[r["status"]] = summ.get(r["status"], 0) + 1
    ctx.rep.extra["selftest"] = {
        "entries": len(res),
        "summary": summ,
        "results": res,
        "explanation": "checker validation: AST-visible edits of the current source applied to a scratch copy; "
        "mutants must be reported by the named rule, behaviour-preserving twins must stay silent",
    }
    # Self-test outcomes describe the CHECKER (on the tree as it is now), not the property: they are recorded in the
    # evidence and printed as notes, they never change the exit status of the property check.  On a tree that differs from
    # the one the corpus was written against, entries legitimately go stale, and a rule that has become undecided there no
    # longer reports its mutants - neither says anything about whether the property holds.
    for r in res:
        if r["status"] in ("MISSED", "FALSE-ALARM"):
            ctx.rep.notes.append(f"self-test {r['id']}: {r['status']} {r.get('detail', '')}")
    _attach_patches(ctx)


def _scan_patch(args):
    from tools import seed_scan

    label, patch, prop, base = args
    _l, out, err = seed_scan.scan((label, patch, [prop], {prop: base}))
    if err:
        return label, None, err
    v = (out or {}).get(prop, {})
    return label, sorted(v.get("rules", [])), "; ".join(v.get("errors", []))[:200] or None


def _attach_patches(ctx) -> None:
    """Thorough tier, part 2: the independently written patches kept under /verif - breaking changes for this property
    (seeded/, must be reported) and behaviour-preserving refactorings (benign/, should be silent) - are applied to a
    scratch copy of the committed tree (`git archive HEAD`; /repo's working tree is not touched) and this property's
    rules are evaluated on each."""
    import json
    import subprocess

    here = os.path.dirname(os.path.dirname(os.path.abspath(__file__)))
    try:
        subprocess.run(["git", "-C", "/repo", "rev-parse", "HEAD"], capture_output=True, check=True)
        from tools import seed_scan
    except Exception as e:  # no git metadata: this part cannot run
        ctx.rep.extra["patch_scan"] = {"skipped": f"{type(e).__name__}: {e}"}
        return
    _p, base = seed_scan.baseline(ctx.prop)
    work = []
    sd, bd = os.path.join(here, "seeded"), os.path.join(here, "benign")
    for d in sorted(os.listdir(sd)) if os.path.isdir(sd) else []:
        mp = os.path.join(sd, d, "meta.json")
        if os.path.exists(mp) and json.load(open(mp)).get("property") == ctx.prop:
            work.append(("seeded/" + d, os.path.join(sd, d, "patch.diff"), ctx.prop, base))
    # behaviour-preserving refactorings written for THIS property (ids Cnn*): the full cross-product (every refactoring x
    # every property) is what `tools/seed_scan.py --benign` runs at development time; here it would only cost minutes
    for d in sorted(os.listdir(bd)) if os.path.isdir(bd) else []:
        if d.startswith(ctx.prop) and os.path.exists(os.path.join(bd, d, "patch.diff")):
            work.append(("benign/" + d, os.path.join(bd, d, "patch.diff"), ctx.prop, base))
    with ProcessPoolExecutor(max_workers=16) as ex:
        res = list(ex.map(_scan_patch, work))
    seeded = {l: r for l, r, _e in res if l.startswith("seeded/")}
    benign = {l: r for l, r, _e in res if l.startswith("benign/")}
    errs = {l: e for l, _r, e in res if e}
    ctx.rep.extra["patch_scan"] = {
        "explanation": "independent sub-agent patches applied to a scratch copy of the committed tree: seeded = breaking changes for this "
                       "property (each must be reported), benign = behaviour-preserving refactorings (alarms listed are known limits)",
        "seeded_reported_by": seeded,
        "benign_silent": sorted(l for l, r in benign.items() if not r and l not in errs),
        "benign_alarms": {l: r for l, r in benign.items() if r},
        "errors": errs,
    }
    for l, r in seeded.items():
        if not r:
            # a seeded change that the own check is recorded to report (meta.json `detected_by`, maintained by
            # `tools/seed_scan.py --update`) and no longer does is a regression of the checker; one that is recorded as not
            # reported (DESIGN.md section 14, "limits") is a known limit and only noted
            try:
                expected = json.load(open(os.path.join(here, l, "meta.json"))).get("detected_by") or []
            except (OSError, ValueError):
                expected = []
            if expected:
                ctx.rep.notes.append(f"self-test: seeded change {l} is not reported by {ctx.prop} on this tree (recorded as reported by {expected})"
                                     + (f" [{errs[l]}]" if l in errs else ""))
            else:
                ctx.rep.notes.append(f"seeded change {l} is not reported by {ctx.prop}'s own check (known limit, see DESIGN.md section 14)")
    al = {l: r for l, r in benign.items() if r}
    if al:
        ctx.rep.notes.append(f"behaviour-preserving refactorings that still raise an alarm (known limits): {al}")


if __name__ == "__main__":
    import argparse

    ap = argparse.ArgumentParser()
    ap.add_argument("prop", nargs="?")
    ap.add_argument("--root")
    a = ap.parse_args()
    res = run_corpus(a.prop.upper() if a.prop else None, a.root)
    bad = 0
    for r in res:
        flag = r["status"]
        if flag in ("MISSED", "FALSE-ALARM", "analysis-error"):
            bad += 1
        print(f"{flag:14s} {r['id']:40s} {r.get('by', '')} {r.get('detail', '')}")
    print(f"{len(res)} entries, {bad} problems")
    sys.exit(1 if bad else 0)
