"""C16 - extra corpus: twins for the kinds of refactoring the term-based rules are robust against (hoisting, flags,
if/else vs early return, loop vs comprehension vs dict(), helper extraction, renamed/inlined temporaries, positional vs
keyword arguments, str vs bytes urlparse) and mutants for every restructured rule, several of them applied on top of a
refactored shape."""

from selftest.corpus import M, T

F = "c2.py"


def _ind(text):
    return "".join("    " + l if l.strip() else l for l in text.splitlines(True))


SPLIT = '    header_data, _, body = data.partition(b"\\r\\n\\r\\n")\n    first_line, _, header_data = header_data.partition(b"\\r\\n")\n'
SKIP = '        if not header:\n            # a message without header lines has an empty header block, not a header with an empty name\n            continue\n'
HLOOP = '    headers = {}\n    for header in header_data.split(b"\\r\\n"):\n' + SKIP + '        key, _, value = header.partition(b": ")\n        headers[key] = value\n'
RESP = (
    '    if first_line.upper().startswith(b"HTTP/"):\n'
    '        parts = first_line.rstrip().split()\n'
    '        if len(parts) != 3:\n'
    '            raise ValueError(f"Error in parsing response status line: {first_line!r}")\n'
    '        _version, status, reason = parts\n'
    '        status_code = int(status.decode())\n'
    '        return HttpResponse(body=body, headers=headers, status=status_code, reason=reason)\n'
)
REQ_HEAD = (
    '    parts = first_line.rstrip().split()\n'
    '    if len(parts) != 3:\n'
    '        raise ValueError(f"Error in parsing request status line: {first_line!r}")\n'
    '    method, uri, _version = parts\n'
)
IMPORT = "from urllib.parse import parse_qsl, urlsplit"
PARSE = '    # `urlsplit()` and not `urlparse()`: the latter cuts `;parameters` off the last path segment\n    result = urlsplit(uri)\n'
URI = '    uri = uri.decode("ascii", errors="ignore").encode()\n' + PARSE + '    uri = result.path\n'
QUERY = '    query = parse_qsl(result.query.decode("ascii"), encoding="latin-1")\n    params = {key.encode("latin-1"): value.encode("latin-1") for key, value in query}\n'
REQ_RET = '    return HttpRequest(method=method, body=body, headers=headers, uri=uri, params=params)\n'

HOISTED = (
    '    is_response = first_line.upper().startswith(b"HTTP/")\n'
    '    parts = first_line.rstrip().split()\n'
    '    if len(parts) != 3:\n'
    '        kind = "response" if is_response else "request"\n'
    '        raise ValueError(f"Error in parsing {kind} status line: {first_line!r}")\n'
    '    if is_response:\n'
    '        _version, status, reason = parts\n'
    '        return HttpResponse(body=body, headers=headers, status=int(status.decode()), reason=reason)\n'
    '    else:\n'
    '        method, uri, _version = parts\n'
)

# ------------------------------------------------------------------------------------------------------------ twins
# hoisted split + single length check + flag + explicit else (the request tail keeps its indentation: still the else path
# in the CFG because the response branch returns)
T("C16", "twin-hoisted-flag", F, "", "", edits=[
    (F, RESP, ""),
    (F, REQ_HEAD, HOISTED.replace("    else:\n        method, uri, _version = parts\n", "    method, uri, _version = parts\n")),
])
# request handled first under the negated test, response last (tokens indexed, mirrored length test, positional fields)
T("C16", "twin-request-first", F, "", "", edits=[
    (F, RESP, '    if not first_line.upper().startswith(b"HTTP/"):\n'),
    (F, REQ_HEAD, _ind(REQ_HEAD)),
    (F, URI, _ind(URI)),
    (F, QUERY, _ind(QUERY)),
    (F, REQ_RET, _ind(REQ_RET) +
     '    tokens = first_line.split()\n    if 3 != len(tokens):\n        raise ValueError(f"Error in parsing response status line: {first_line!r}")\n'
     '    return HttpResponse(int(tokens[1].decode()), headers, tokens[2], body)\n'),
])
# lower-case fold
T("C16", "twin-prefix-lower", F, '    if first_line.upper().startswith(b"HTTP/"):', '    if first_line.lower().startswith(b"http/"):')
T("C16", "twin-prefix-slice", F, '    if first_line.upper().startswith(b"HTTP/"):', '    if first_line[:5].upper() == b"HTTP/":')
# single exit: both constructions assigned to one local, explicit else
T("C16", "twin-single-exit", F, "", "", edits=[
    (F, '        return HttpResponse(body=body, headers=headers, status=status_code, reason=reason)\n', '        message = HttpResponse(body=body, headers=headers, status=status_code, reason=reason)\n    else:\n'),
    (F, REQ_HEAD, _ind(REQ_HEAD)),
    (F, URI, _ind(URI)),
    (F, QUERY, _ind(QUERY)),
    (F, REQ_RET, '        message = HttpRequest(method=method, body=body, headers=headers, uri=uri, params=params)\n    return message\n'),
])
# header map: dict() over a generator of (key, value) pairs
T("C16", "twin-headers-dict-genexp", F, HLOOP, '    headers = dict(line.partition(b": ")[::2] for line in header_data.split(b"\\r\\n") if line)\n')
# header map: dict comprehension over a generator of partition triples
T("C16", "twin-headers-dictcomp", F, HLOOP, '    triples = (line.partition(b": ") for line in header_data.split(b"\\r\\n") if len(line) > 0)\n    headers = {k: v for k, _sep, v in triples}\n')
# header map: list of pairs, then dict()
T("C16", "twin-headers-pairs-list", F, HLOOP, '    lines = header_data.split(b"\\r\\n") if header_data else []\n    pairs = [(h.partition(b": ")[0], h.partition(b": ")[2]) for h in lines]\n    headers = dict(pairs)\n')
# header loop with indexing instead of unpacking and dict() for the empty map
T("C16", "twin-headers-loop-indexed", F, HLOOP, '    headers = dict()\n    for header in header_data.split(b"\\r\\n"):\n        kv = header.partition(b": ")\n        if header != b"":\n            headers[kv[0]] = kv[-1]\n')
# helpers + module constants (inlined / folded by the normaliser)
T("C16", "twin-helpers-constants", F, "", "", edits=[
    (F, "def parse_raw_http(data: bytes)",
     '_EOL = b"\\r\\n"\n\n\ndef _head_and_body(raw):\n    head, _, payload = raw.partition(_EOL * 2)\n    return head, payload\n\n\n'
     'def _tokens(line, what):\n    toks = line.rstrip().split()\n    if len(toks) != 3:\n        raise ValueError(f"Error in parsing {what} status line: {line!r}")\n    return toks\n\n\n'
     "def parse_raw_http(data: bytes)"),
    (F, SPLIT, '    header_data, body = _head_and_body(data)\n    first_line, _, header_data = header_data.partition(_EOL)\n'),
    (F, '        parts = first_line.rstrip().split()\n        if len(parts) != 3:\n            raise ValueError(f"Error in parsing response status line: {first_line!r}")\n        _version, status, reason = parts\n',
     '        _version, status, reason = _tokens(first_line, "response")\n'),
    (F, REQ_HEAD, '    method, uri, _version = _tokens(first_line, "request")\n'),
])
# urlsplit on text, parameter map filled in a loop, positional constructor arguments
T("C16", "twin-urlsplit-str-params-loop", F, "", "", edits=[
    (F, URI, '    parsed = urlsplit(uri.decode("ascii", errors="ignore"))\n'),
    (F, QUERY, '    params: Dict[bytes, bytes] = {}\n    for name, val in parse_qsl(parsed.query, encoding="latin-1"):\n        params[name.encode("latin-1")] = val.encode("latin-1")\n'),
    (F, REQ_RET, '    return HttpRequest(method, parsed.path.encode("ascii"), params, headers, body)\n'),
])
T("C16", "twin-params-dict-genexp", F, QUERY, '    params = dict((k.encode("latin1"), v.encode("latin1")) for k, v in parse_qsl(str(result.query, "ascii"), False, False, "latin1"))\n')
# start-line tokens consumed by index
T("C16", "twin-tokens-indexed", F, '        _version, status, reason = parts\n        status_code = int(status.decode())\n        return HttpResponse(body=body, headers=headers, status=status_code, reason=reason)\n',
  '        return HttpResponse(body=body, headers=headers, status=int(parts[1].decode()), reason=parts[2])\n')
T("C16", "twin-length-test-range", F, '    if len(parts) != 3:\n        raise ValueError(f"Error in parsing request status line: {first_line!r}")\n',
  '    if len(parts) < 3 or len(parts) > 3:\n        raise ValueError(f"Error in parsing request status line: {first_line!r}")\n')

# EAFP form of the length test (same exception class and message)
T("C16", "twin-unpack-eafp", F, '    if len(parts) != 3:\n        raise ValueError(f"Error in parsing request status line: {first_line!r}")\n    method, uri, _version = parts\n',
  '    try:\n        method, uri, _version = parts\n    except ValueError:\n        raise ValueError(f"Error in parsing request status line: {first_line!r}") from None\n')
# walrus in the length test
T("C16", "twin-length-test-walrus", F, '    parts = first_line.rstrip().split()\n    if len(parts) != 3:\n        raise ValueError(f"Error in parsing request',
  '    if len(parts := first_line.rstrip().split()) != 3:\n        raise ValueError(f"Error in parsing request')
# header loop moved into a helper, annotated empty map
T("C16", "twin-headers-helper-loop", F, "", "", edits=[
    (F, "def parse_raw_http(data: bytes)",
     'def _header_map(block: bytes) -> Dict[bytes, bytes]:\n    out: Dict[bytes, bytes] = {}\n    for line in block.split(b"\\r\\n"):\n        if len(line) == 0:\n            continue\n        name, _, text = line.partition(b": ")\n        out[name] = text\n    return out\n\n\n'
     "def parse_raw_http(data: bytes)"),
    (F, HLOOP, '    headers = _header_map(header_data)\n'),
])
T("C16", "twin-body-bytes-copy", F, REQ_RET, '    return HttpRequest(method=method, body=bytes(body), headers=headers, uri=uri, params=params)\n')

# partition spelled as find + slicing (lemma of `_mk_slice_terms`): index falls back to the length under `< 0`, separator
# length taken with len() of a local constant
T("C16", "twin-find-slicing-head-body", F, SPLIT,
  '    sep = b"\\r\\n\\r\\n"\n    cut = data.find(sep)\n    if cut < 0:\n        cut = len(data)\n    header_data = data[:cut]\n    body = data[cut + len(sep):]\n'
  '    first_line, _, header_data = header_data.partition(b"\\r\\n")\n')
# the same with a conditional expression for the fallback, mirrored addition, both parts assigned in one statement
T("C16", "twin-find-slicing-ifexp-start-line", F, '    first_line, _, header_data = header_data.partition(b"\\r\\n")\n',
  '    eol = header_data.find(b"\\r\\n")\n    eol = len(header_data) if -1 == eol else eol\n    first_line, header_data = header_data[:eol], header_data[2 + eol:]\n')
# presence test with `in`, index() in the found branch, the not-found values written out in the other branch
T("C16", "twin-in-index-branches", F, '    header_data, _, body = data.partition(b"\\r\\n\\r\\n")\n',
  '    if b"\\r\\n\\r\\n" in data:\n        cut = data.index(b"\\r\\n\\r\\n")\n        header_data, body = data[:cut], data[cut + 4:]\n    else:\n        header_data, body = data, b""\n')
# header lines: found / not-found branches selected by `find(..) >= 0`
T("C16", "twin-header-find-branches", F, '        key, _, value = header.partition(b": ")\n',
  '        at = header.find(b": ")\n        if at >= 0:\n            key, value = header[:at], header[at + 2:]\n        else:\n            key, value = header, b""\n')
# partition spelled as split(sep, 1): first piece unconditionally, second piece only when there are two
T("C16", "twin-split-once-ifexp", F, '    header_data, _, body = data.partition(b"\\r\\n\\r\\n")\n',
  '    pieces = data.split(b"\\r\\n\\r\\n", 1)\n    header_data = pieces[0]\n    body = pieces[1] if len(pieces) > 1 else b""\n')
T("C16", "twin-split-once-default-then-override", F, '    header_data, _, body = data.partition(b"\\r\\n\\r\\n")\n',
  '    pieces = data.split(b"\\r\\n\\r\\n", maxsplit=1)\n    header_data = pieces[0]\n    body = b""\n    if len(pieces) == 2:\n        body = pieces[-1]\n')
# the tail taken in two slicing steps
T("C16", "twin-find-slicing-two-steps", F, '    header_data, _, body = data.partition(b"\\r\\n\\r\\n")\n',
  '    cut = data.find(b"\\r\\n\\r\\n")\n    if cut == -1:\n        cut = len(data)\n    header_data = data[:cut]\n    tail = data[cut:]\n    body = tail[4:]\n')
# negated slice form of the prefix test with the branches exchanged (other spelling than twin-request-first)
T("C16", "twin-prefix-ne-request-first", F, "", "", edits=[
    (F, RESP, '    if b"HTTP/" != first_line.upper()[:len(b"HTTP/")]:\n'),
    (F, REQ_HEAD, _ind(REQ_HEAD)),
    (F, URI, _ind(URI)),
    (F, QUERY, _ind(QUERY)),
    (F, REQ_RET, _ind(REQ_RET) + RESP.replace('    if first_line.upper().startswith(b"HTTP/"):\n', "").replace("\n        ", "\n    ").replace("        parts", "    parts", 1)),
])

# ---------------------------------------------------------------------------------------------------------- mutants
# R1
M("C16", "data-stripped-first", F, SPLIT, '    data = data.lstrip()\n' + SPLIT, "C16.R1")
M("C16", "body-last-segment", F, SPLIT, '    header_data = data.partition(b"\\r\\n\\r\\n")[0]\n    body = data.split(b"\\r\\n\\r\\n")[-1]\n    first_line, _, header_data = header_data.partition(b"\\r\\n")\n', "C16.R1")
M("C16", "body-helper-rpartition", F, "", "", "C16.R1", edits=[
    (F, "def parse_raw_http(data: bytes)", 'def _head_and_body(raw):\n    head, _, payload = raw.rpartition(b"\\r\\n\\r\\n")\n    return head, payload\n\n\ndef parse_raw_http(data: bytes)'),
    (F, SPLIT, '    header_data, body = _head_and_body(data)\n    first_line, _, header_data = header_data.partition(b"\\r\\n")\n'),
])
M("C16", "tokens-split-on-space", F, "", "", "C16.R1", edits=[
    (F, '        parts = first_line.rstrip().split()\n        if len(parts) != 3:\n            raise ValueError(f"Error in parsing response', '        parts = first_line.rstrip().split(b" ")\n        if len(parts) != 3:\n            raise ValueError(f"Error in parsing response'),
])
M("C16", "start-line-from-last-head-line", F, '    first_line, _, header_data = header_data.partition(b"\\r\\n")\n', '    header_data, _, first_line = header_data.rpartition(b"\\r\\n")\n', "C16.R1")
# R2 (on the hoisted shape: the length check comes after the response unpack)
M("C16", "hoisted-check-after-response-unpack", F, "", "", "C16.R2", edits=[
    (F, RESP, ""),
    (F, REQ_HEAD,
     '    is_response = first_line.upper().startswith(b"HTTP/")\n    parts = first_line.rstrip().split()\n'
     '    if is_response:\n        _version, status, reason = parts\n        return HttpResponse(body=body, headers=headers, status=int(status.decode()), reason=reason)\n'
     '    if len(parts) != 3:\n        raise ValueError(f"Error in parsing request status line: {first_line!r}")\n    method, uri, _version = parts\n'),
])
M("C16", "length-test-at-least-3", F, '    if len(parts) != 3:\n        raise ValueError(f"Error in parsing request status line: {first_line!r}")\n',
  '    if len(parts) < 3:\n        raise ValueError(f"Error in parsing request status line: {first_line!r}")\n', "C16.R2")
M("C16", "token-index-unguarded", F, '        parts = first_line.rstrip().split()\n        if len(parts) != 3:\n            raise ValueError(f"Error in parsing response status line: {first_line!r}")\n        _version, status, reason = parts\n',
  '        parts = first_line.rstrip().split()\n        status, reason = parts[1], parts[2]\n', "C16.R2")
M("C16", "length-test-on-other-split", F, '    if len(parts) != 3:\n        raise ValueError(f"Error in parsing request status line: {first_line!r}")\n',
  '    if len(first_line.split(b" ")) != 3:\n        raise ValueError(f"Error in parsing request status line: {first_line!r}")\n', "C16.R2")
M("C16", "unpack-eafp-swallowed", F, '    if len(parts) != 3:\n        raise ValueError(f"Error in parsing request status line: {first_line!r}")\n    method, uri, _version = parts\n',
  '    try:\n        method, uri, _version = parts\n    except ValueError:\n        method, uri, _version = b"GET", b"/", b"HTTP/1.1"\n', "C16.R2")
# R3
M("C16", "hoisted-status-is-first-token", F, "", "", "C16.R3", edits=[
    (F, RESP, ""),
    (F, REQ_HEAD, HOISTED.replace("    else:\n        method, uri, _version = parts\n", "    method, uri, _version = parts\n").replace("_version, status, reason = parts", "status, _version, reason = parts")),
])
M("C16", "uri-lowercased", F, '    uri = result.path\n', '    uri = result.path.lower()\n', "C16.R3")
M("C16", "params-from-fragment", F, 'parse_qsl(result.query.decode("ascii"), encoding="latin-1")', 'parse_qsl(result.fragment.decode("ascii"), encoding="latin-1")', "C16.R3")
M("C16", "params-keys-lowercased", F, '{key.encode("latin-1"): value.encode("latin-1") for key, value in query}', '{key.lower().encode("latin-1"): value.encode("latin-1") for key, value in query}', "C16.R3")
M("C16", "params-loop-swapped", F, QUERY, '    params = {}\n    for name, val in parse_qsl(result.query.decode("ascii"), encoding="latin-1"):\n        params[val.encode("latin-1")] = name.encode("latin-1")\n', "C16.R3")
M("C16", "params-prefilled", F, QUERY, '    params = {b"": b""}\n    for name, val in parse_qsl(result.query.decode("ascii"), encoding="latin-1"):\n        params[name.encode("latin-1")] = val.encode("latin-1")\n', "C16.R3")
M("C16", "headers-are-params", F, REQ_RET, '    return HttpRequest(method=method, body=body, headers=params, uri=uri, params=params)\n', "C16.R3")
M("C16", "positional-fields-misordered", F, REQ_RET, '    return HttpRequest(method, uri, params, body, headers)\n', "C16.R")
# R4
M("C16", "prefix-case-sensitive", F, '    if first_line.upper().startswith(b"HTTP/"):', '    if first_line.startswith(b"HTTP/"):', "C16.R4")
M("C16", "prefix-on-first-token", F, '    if first_line.upper().startswith(b"HTTP/"):', '    if first_line.split()[:1] == [b"HTTP/1.1"]:', "C16.R4")
M("C16", "flag-negated", F, "", "", "C16.R4", edits=[
    (F, RESP, ""),
    (F, REQ_HEAD, HOISTED.replace("    else:\n        method, uri, _version = parts\n", "    method, uri, _version = parts\n").replace("    if is_response:\n", "    if not is_response:\n")),
])
M("C16", "returns-tuple", F, REQ_RET, '    return (method, uri, params, headers, body)\n', "C16.R")
# R5 (on refactored shapes)
M("C16", "genexp-headers-colon-only", F, HLOOP, '    headers = dict(line.partition(b":")[::2] for line in header_data.split(b"\\r\\n") if line)\n', "C16.R5")
M("C16", "genexp-headers-swapped", F, HLOOP, '    headers = dict(line.partition(b": ")[::-2] for line in header_data.split(b"\\r\\n") if line)\n', "C16.R5")
M("C16", "dictcomp-headers-rpartition", F, HLOOP, '    headers = {k: v for k, _sep, v in (line.rpartition(b": ") for line in header_data.split(b"\\r\\n") if line)}\n', "C16.R5")
M("C16", "headers-value-stripped", F, '        headers[key] = value\n', '        headers[key] = value.strip()\n', "C16.R5")
M("C16", "headers-keys-lowercased", F, '        headers[key] = value\n', '        headers[key.lower()] = value\n', "C16.R5")
M("C16", "headers-prefilled", F, '    headers = {}\n', '    headers = {b"Content-Length": b"0"}\n', "C16.R5")
M("C16", "headers-lines-include-start-line", F, '    first_line, _, header_data = header_data.partition(b"\\r\\n")\n', '    first_line, _, _rest = header_data.partition(b"\\r\\n")\n', "C16.R")
M("C16", "headers-lines-reversed", F, '    for header in header_data.split(b"\\r\\n"):', '    for header in reversed(header_data.split(b"\\r\\n")):', "C16.R")
M("C16", "headers-splitlines", F, '    for header in header_data.split(b"\\r\\n"):', '    for header in header_data.splitlines():', "C16.R")
# R7
M("C16", "params-reencoded-utf8", F, '{key.encode("latin-1"): value.encode("latin-1") for key, value in query}', '{key.encode(): value.encode() for key, value in query}', "C16.R7")
M("C16", "qsl-encoding-positional-utf8", F, 'parse_qsl(result.query.decode("ascii"), encoding="latin-1")', 'parse_qsl(result.query.decode("ascii"), False, False, "utf-8")', "C16.R7")
# R8
M("C16", "memoised-parser-cache", F, "", "", "C16.R8",
  edits=[(F, "import base64\n", "import base64\nimport functools\n"), (F, "def parse_raw_http(data: bytes)", "@functools.cache\ndef parse_raw_http(data: bytes)")])
# find + slicing shapes that are NOT the partition (R1/R5) and the `!=` prefix test on unexchanged branches (R4)
M("C16", "find-slicing-no-fallback", F, '    header_data, _, body = data.partition(b"\\r\\n\\r\\n")\n',
  '    cut = data.find(b"\\r\\n\\r\\n")\n    header_data, body = data[:cut], data[cut + 4:]\n', "C16.R1")
M("C16", "find-slicing-short-offset", F, '    header_data, _, body = data.partition(b"\\r\\n\\r\\n")\n',
  '    cut = data.find(b"\\r\\n\\r\\n")\n    if cut == -1:\n        cut = len(data)\n    header_data, body = data[:cut], data[cut + 2:]\n', "C16.R1")
M("C16", "rfind-slicing-last-blank-line", F, '    header_data, _, body = data.partition(b"\\r\\n\\r\\n")\n',
  '    cut = data.rfind(b"\\r\\n\\r\\n")\n    if cut == -1:\n        cut = len(data)\n    header_data, body = data[:cut], data[cut + 4:]\n', "C16.R1")
M("C16", "header-find-colon-only", F, '        key, _, value = header.partition(b": ")\n',
  '        at = header.find(b":")\n        if at == -1:\n            at = len(header)\n        key, value = header[:at], header[at + 2:]\n', "C16.R5")
M("C16", "header-find-value-keeps-space", F, '        key, _, value = header.partition(b": ")\n',
  '        at = header.find(b": ")\n        if at == -1:\n            at = len(header)\n        key, value = header[:at], header[at + 1:]\n', "C16.R5")
M("C16", "prefix-ne-branches-not-exchanged", F, '    if first_line.upper().startswith(b"HTTP/"):', '    if first_line[:5].upper() != b"HTTP/":', "C16.R4")
M("C16", "split-once-second-piece-never-taken", F, '    header_data, _, body = data.partition(b"\\r\\n\\r\\n")\n',
  '    pieces = data.split(b"\\r\\n\\r\\n", 1)\n    header_data = pieces[0]\n    body = pieces[1] if len(pieces) > 2 else b""\n', "C16.R1")
M("C16", "split-once-second-piece-unguarded", F, '    header_data, _, body = data.partition(b"\\r\\n\\r\\n")\n',
  '    pieces = data.split(b"\\r\\n\\r\\n", 1)\n    header_data = pieces[0]\n    body = pieces[1]\n', "C16.R2")
M("C16", "split-unbounded-last-piece", F, '    header_data, _, body = data.partition(b"\\r\\n\\r\\n")\n',
  '    pieces = data.split(b"\\r\\n\\r\\n")\n    header_data = pieces[0]\n    body = pieces[-1] if len(pieces) > 1 else b""\n', "C16.R1")
T("C16", "twin-prefix-not-in-singleton", F, "", "", edits=[
    (F, RESP, '    if first_line[:5].lower() not in (b"http/",):\n'),
    (F, REQ_HEAD, _ind(REQ_HEAD)),
    (F, URI, _ind(URI)),
    (F, QUERY, _ind(QUERY)),
    (F, REQ_RET, _ind(REQ_RET) + RESP.replace('    if first_line.upper().startswith(b"HTTP/"):\n', "").replace("\n        ", "\n    ").replace("        parts", "    parts", 1)),
])

# ============================================================================================ wave 3: R9 and R10
# (written against the repaired source: the header loop skips empty lines, the target is split with urlsplit)
KV = '        key, _, value = header.partition(b": ")\n        headers[key] = value\n'
FOR = '    for header in header_data.split(b"\\r\\n"):\n'

# ---- R9: a message without header lines gets the empty header map
# exact reversal of the repair
M("C16", "headers-empty-line-not-skipped", F, SKIP, "", "C16.R9")
# other ways to get it wrong: a guard that is always true for the one empty piece of split(sep)
M("C16", "headers-guard-on-piece-list", F, HLOOP, '    headers = {}\n    lines = header_data.split(b"\\r\\n")\n    if lines:\n        for header in lines:\n' + _ind(KV), "C16.R9")
M("C16", "headers-skip-none-only", F, SKIP, '        if header is None:\n            continue\n', "C16.R9")
M("C16", "headers-skip-inverted", F, SKIP, '        if len(header) > 0:\n            pass\n', "C16.R9")
M("C16", "headers-skip-bare-crlf-only", F, SKIP, '        if header == b"\\r\\n":\n            continue\n', "C16.R9")
M("C16", "headers-comprehension-filter-not-none", F, HLOOP, '    headers = {h.partition(b": ")[0]: h.partition(b": ")[2] for h in header_data.split(b"\\r\\n") if h is not None}\n', "C16.R9")
M("C16", "headers-genexp-unfiltered", F, HLOOP, '    headers = dict(line.partition(b": ")[::2] for line in header_data.split(b"\\r\\n"))\n', "C16.R9")
M("C16", "headers-guard-on-whole-message", F, HLOOP, '    headers = {}\n    if data:\n' + _ind(FOR) + _ind(KV), "C16.R9")
M("C16", "headers-skip-in-helper-dropped", F, "", "", "C16.R9", edits=[
    (F, "def parse_raw_http(data: bytes)",
     'def _header_map(block: bytes) -> Dict[bytes, bytes]:\n    out: Dict[bytes, bytes] = {}\n    for line in block.split(b"\\r\\n"):\n        name, _, text = line.partition(b": ")\n        out[name] = text\n    return out\n\n\n'
     "def parse_raw_http(data: bytes)"),
    (F, HLOOP, '    headers = _header_map(header_data)\n'),
])
# twins: other correct spellings of the repair
T("C16", "twin-headers-store-under-if-line", F, SKIP + KV, '        if header:\n' + _ind(KV))
T("C16", "twin-headers-guard-around-loop", F, HLOOP, '    headers = {}\n    if header_data:\n' + _ind(FOR) + _ind(KV))
T("C16", "twin-headers-guard-around-loop-len", F, HLOOP, '    headers = {}\n    if len(header_data) != 0:\n' + _ind(FOR) + _ind(KV))
T("C16", "twin-headers-filter-none", F, FOR + SKIP, '    for header in filter(None, header_data.split(b"\\r\\n")):\n')
T("C16", "twin-headers-skip-len-zero", F, SKIP, '        if len(header) == 0:\n            continue\n')
T("C16", "twin-headers-skip-eq-empty-mirrored", F, SKIP, '        if b"" == header:\n            continue\n')
T("C16", "twin-headers-skip-blank", F, SKIP, '        if not header.strip():\n            continue\n')
T("C16", "twin-headers-comprehension-ifexp-empty", F, HLOOP,
  '    headers = {h.partition(b": ")[0]: h.partition(b": ")[2] for h in header_data.split(b"\\r\\n")} if header_data else {}\n')
T("C16", "twin-headers-two-branches", F, HLOOP,
  '    if not header_data:\n        headers = {}\n    else:\n        headers = {h.partition(b": ")[0]: h.partition(b": ")[2] for h in header_data.split(b"\\r\\n")}\n')
T("C16", "twin-headers-list-filtered-first", F, FOR + SKIP, '    lines = [l for l in header_data.split(b"\\r\\n") if l]\n    for header in lines:\n')
# property-preserving (they differ from the repaired code only on lines that are not of the `Key: value` form, which the
# quantifier does not contain): lines without the separator are skipped
T("C16", "twin-headers-skip-no-separator", F, SKIP, '        if b": " not in header:\n            continue\n')
T("C16", "twin-headers-store-if-separator-found", F, SKIP + KV, '        key, sep, value = header.partition(b": ")\n        if sep:\n            headers[key] = value\n')
T("C16", "twin-headers-split-once-two-pieces", F, SKIP + KV, '        kv = header.split(b": ", 1)\n        if len(kv) == 2:\n            headers[kv[0]] = kv[1]\n')
T("C16", "twin-headers-find-guard", F, SKIP + KV, '        at = header.find(b": ")\n        if at < 0:\n            continue\n        headers[header[:at]] = header[at + 2:]\n')

# ---- R10: the request path is the complete path component of the target
# exact reversal of the repair
M("C16", "uri-path-of-urlparse", F, "", "", "C16.R10", edits=[
    (F, IMPORT, "from urllib.parse import parse_qsl, urlparse"),
    (F, PARSE, '    result = urlparse(uri)\n'),
])
M("C16", "uri-path-of-urlparse-module-attribute", F, "", "", "C16.R10", edits=[
    (F, IMPORT, "import urllib.parse\nfrom urllib.parse import parse_qsl"),
    (F, PARSE, '    result = urllib.parse.urlparse(uri)\n'),
])
M("C16", "uri-path-of-urlparse-on-text", F, "", "", "C16.R10", edits=[
    (F, IMPORT, "from urllib.parse import parse_qsl, urlparse"),
    (F, URI, '    result = urlparse(uri.decode("ascii", errors="ignore"))\n    uri = result.path.encode("ascii")\n'),
    (F, 'parse_qsl(result.query.decode("ascii"), encoding="latin-1")', 'parse_qsl(result.query, encoding="latin-1")'),
])
M("C16", "uri-path-of-urlparse-by-index", F, "", "", "C16.R10", edits=[
    (F, IMPORT, "from urllib.parse import parse_qsl, urlparse"),
    (F, PARSE + '    uri = result.path\n', '    result = urlparse(uri)\n    uri = result[2]\n'),
])
M("C16", "uri-urlparse-params-rejoined-in-one-branch-only", F, "", "", "C16.R10", edits=[
    (F, IMPORT, "from urllib.parse import parse_qsl, urlparse"),
    (F, PARSE + '    uri = result.path\n', '    result = urlparse(uri)\n    uri = result.path + b";" + result.params if method == b"GET" else result.path\n'),
])
# params put back without the `;`: no longer the path component at all (R3)
M("C16", "uri-urlparse-params-appended-without-semicolon", F, "", "", "C16.R3", edits=[
    (F, IMPORT, "from urllib.parse import parse_qsl, urlparse"),
    (F, PARSE + '    uri = result.path\n', '    result = urlparse(uri)\n    uri = result.path + result.params\n'),
])
# path and query taken from different targets
M("C16", "uri-cut-from-first-token", F, '    uri = result.path\n', '    uri = method.partition(b"?")[0]\n', "C16.R3")
# the corpus.py entry `unquote-before-split` re-anchored to the repaired import line
M("C16", "unquote-before-urlsplit", F, "", "", "C16.R7", edits=[
    (F, IMPORT, "from urllib.parse import parse_qsl, unquote_to_bytes, urlsplit"),
    (F, '    uri = uri.decode("ascii", errors="ignore").encode()', '    uri = unquote_to_bytes(uri).decode("ascii", errors="ignore").encode()'),
])
# twins: other correct spellings
T("C16", "twin-uri-urlsplit-module-attribute", F, "", "", edits=[
    (F, IMPORT, "import urllib.parse\nfrom urllib.parse import parse_qsl"),
    (F, PARSE, '    result = urllib.parse.urlsplit(uri)\n'),
])
T("C16", "twin-uri-partition-at-question-mark", F, "", "", edits=[
    (F, PARSE + '    uri = result.path\n', '    uri, _, query_string = uri.partition(b"?")\n'),
    (F, 'parse_qsl(result.query.decode("ascii"), encoding="latin-1")', 'parse_qsl(query_string.decode("ascii"), encoding="latin-1")'),
])
T("C16", "twin-uri-split-once-at-question-mark", F, "", "", edits=[
    (F, PARSE + '    uri = result.path\n', '    pieces = uri.split(b"?", 1)\n    uri = pieces[0]\n    query_string = pieces[1] if len(pieces) == 2 else b""\n'),
    (F, 'parse_qsl(result.query.decode("ascii"), encoding="latin-1")', 'parse_qsl(query_string.decode("ascii"), encoding="latin-1")'),
])
T("C16", "twin-uri-path-by-cut-query-by-urlsplit", F, '    uri = result.path\n', '    uri = uri.partition(b"?")[0]\n')
# urlparse with its `;params` put back (conditional expression / statement form)
T("C16", "twin-uri-urlparse-params-rejoined", F, "", "", edits=[
    (F, IMPORT, "from urllib.parse import parse_qsl, urlparse"),
    (F, PARSE + '    uri = result.path\n', '    result = urlparse(uri)\n    uri = result.path + b";" + result.params if result.params else result.path\n'),
])
T("C16", "twin-uri-urlparse-params-rejoined-statement", F, "", "", edits=[
    (F, IMPORT, "from urllib.parse import parse_qsl, urlparse"),
    (F, PARSE + '    uri = result.path\n', '    result = urlparse(uri)\n    uri = result.path\n    if result.params != b"":\n        uri = b";".join((uri, result.params))\n'),
])

# ============================================================================================ wave 4
# ---- R2: the pieces of a split at an explicit separator (lemmas of `len_range`: at most maxsplit + 1 pieces; at least two
# where the separator is known to occur; exactly one where it is known not to)
PART_KV = '        key, _, value = header.partition(b": ")\n'
# partition spelled as a membership test + split(sep, 1) with the no-separator values in the other branch: mirrored test,
# `maxsplit=` keyword (another spelling than benign/C16h)
T("C16", "twin-header-not-in-split-once-branches", F, PART_KV,
  '        if b": " not in header:\n            key, value = header, b""\n        else:\n            key, value = header.split(b": ", maxsplit=1)\n')
# the same selected by find()
T("C16", "twin-header-find-split-once-branches", F, PART_KV,
  '        if header.find(b": ") != -1:\n            key, value = header.split(b": ", 1)\n        else:\n            key, value = header, b""\n')
# head / body of the message in the same style
T("C16", "twin-head-body-in-split-once-branches", F, '    header_data, _, body = data.partition(b"\\r\\n\\r\\n")\n',
  '    if b"\\r\\n\\r\\n" in data:\n        header_data, body = data.split(b"\\r\\n\\r\\n", 1)\n    else:\n        header_data, body = data, b""\n')
# conditional-expression form
T("C16", "twin-header-split-once-ifexp-pair", F, PART_KV, '        key, value = header.split(b": ", 1) if b": " in header else (header, b"")\n')
# EAFP form for the pieces of a header line: the failed unpacking is handled, nothing escapes
T("C16", "twin-header-split-once-eafp", F, PART_KV,
  '        try:\n            key, value = header.split(b": ", 1)\n        except ValueError:\n            key, value = header, b""\n')
# mutants: the split may have another number of pieces than names
M("C16", "header-split-once-unguarded", F, PART_KV, '        key, value = header.split(b": ", 1)\n', "C16.R2")
M("C16", "header-split-unbounded-under-in-test", F, PART_KV,
  '        if b": " in header:\n            key, value = header.split(b": ")\n        else:\n            key, value = header, b""\n', "C16.R2")
M("C16", "header-split-once-under-test-for-other-separator", F, PART_KV,
  '        if b":" in header:\n            key, value = header.split(b": ", 1)\n        else:\n            key, value = header, b""\n', "C16.R2")
M("C16", "header-split-once-in-the-absent-branch", F, PART_KV,
  '        if b": " not in header:\n            key, value = header.split(b": ", 1)\n        else:\n            key, value = header, b""\n', "C16.R2")
M("C16", "header-split-twice-under-in-test", F, PART_KV,
  '        if b": " in header:\n            key, value = header.split(b": ", 2)\n        else:\n            key, value = header, b""\n', "C16.R2")

# ---- R3: the sanitising step of the request target spelled as an octet filter (interval lemma of `_octet_verdict`: a
# condition that holds for every ASCII octet leaves an ASCII token unchanged), urlsplit result unpacked as a 5-tuple
SANITISE = '    uri = uri.decode("ascii", errors="ignore").encode()\n'
T("C16", "twin-uri-octet-filter-le-7f-listcomp", F, SANITISE, '    uri = bytes([c for c in uri if c <= 0x7F])\n')
T("C16", "twin-uri-octet-filter-high-bit-clear", F, SANITISE, '    uri = bytes(b for b in uri if not b & 0x80)\n')
T("C16", "twin-uri-octet-filter-in-range", F, SANITISE, '    seven_bit = range(128)\n    uri = bytes(b for b in uri if b in seven_bit)\n')
T("C16", "twin-uri-octet-filter-mirrored-two-sided", F, SANITISE, '    uri = bytes(b for b in uri if 0 <= b and 128 > b)\n')
T("C16", "twin-uri-octet-filter-urlsplit-5-tuple", F, "", "", edits=[
    (F, URI, '    clean = bytes(o for o in uri if o < 128)\n    _scheme, _netloc, uri, query_string, _fragment = urlsplit(clean)\n'),
    (F, 'parse_qsl(result.query.decode("ascii"), encoding="latin-1")', 'parse_qsl(query_string.decode("ascii"), encoding="latin-1")'),
])
# an octet filter whose condition the interval lemmas do not decide: undecided, not violated
T("C16", "twin-uri-octet-filter-table-lookup", F, SANITISE, '    uri = bytes(b for b in uri if b in bytes(range(128)))\n')
# mutants: the filter drops visible ASCII characters of the target
M("C16", "uri-octet-filter-drops-lower-case", F, SANITISE, '    uri = bytes(o for o in uri if o < 0x60)\n', "C16.R3")
M("C16", "uri-octet-filter-drops-semicolon", F, SANITISE, '    uri = bytes(o for o in uri if o != 0x3B)\n', "C16.R3")
M("C16", "uri-octet-filter-keeps-high-half-only", F, SANITISE, '    uri = bytes(o for o in uri if o & 0x80)\n', "C16.R3")
M("C16", "uri-octet-filter-inverted", F, SANITISE, '    uri = bytes(o for o in uri if not o < 0x80)\n', "C16.R3")

# ============================================================================================ wave 8
# ---- fields passed through a mapping splatted with `**` (definition of `**`: `K(.., **{"a": x})` passes `a=x`); the display
# spelled as dict(a=x, ..), the remaining request fields positional (another spelling than benign/C16o)
RESP_RET = '        return HttpResponse(body=body, headers=headers, status=status_code, reason=reason)\n'
SHARED = '    shared = dict(body=body, headers=headers)\n'
T("C16", "twin-shared-fields-splatted-dict-call", F, "", "", edits=[
    (F, '    # HTTP/1.1 200 OK\n', SHARED + '    # HTTP/1.1 200 OK\n'),
    (F, RESP_RET, '        return HttpResponse(status_code, reason=reason, **shared)\n'),
    (F, REQ_RET, '    return HttpRequest(method, uri, params, **shared)\n'),
])
# every field of the request in one display built just before the construction
T("C16", "twin-request-fields-all-splatted", F, REQ_RET,
  '    fields = {"method": method, "uri": uri, "params": params, "headers": headers, "body": body}\n    return HttpRequest(**fields)\n')
# mutants on top of the splatted shape: the display carries a wrong body / the maps of the wrong role
M("C16", "splatted-body-is-the-head", F, "", "", "C16.R1", edits=[
    (F, '    # HTTP/1.1 200 OK\n', '    shared = {"body": header_data, "headers": headers}\n    # HTTP/1.1 200 OK\n'),
    (F, RESP_RET, '        return HttpResponse(status=status_code, reason=reason, **shared)\n'),
    (F, REQ_RET, '    return HttpRequest(method=method, uri=uri, params=params, **shared)\n'),
])
M("C16", "splatted-headers-are-the-params", F, REQ_RET,
  '    fields = {"method": method, "uri": uri, "params": params, "headers": params, "body": body}\n    return HttpRequest(**fields)\n', "C16.R3")
# ---- parse_qs instead of parse_qsl (lemma of `_qs_grouped`: parse_qs groups the parse_qsl pairs by name, first-occurrence
# order, values in pair order): filling loop over .items() taking the last value / comprehension over the names with lookup
IMPORT_QS = (F, IMPORT, "from urllib.parse import parse_qs, urlsplit")
T("C16", "twin-params-parse-qs-items-loop-last-value", F, "", "", edits=[IMPORT_QS, (F, QUERY,
  '    params = {}\n    for name, values in parse_qs(result.query.decode("ascii"), encoding="latin-1").items():\n'
  '        params[name.encode("latin-1")] = values[-1].encode("latin-1")\n')])
# (the form `{n: grouped[n][-1] for n in grouped}` is covered by the lemma too, but the engine's escape analysis - R6 - does not
# know that the lookup of a key being iterated cannot fail, so it is no twin here)
T("C16", "twin-params-parse-qs-dict-of-pair-generator", F, "", "", edits=[IMPORT_QS, (F, QUERY,
  '    grouped = parse_qs(result.query.decode("ascii"), encoding="latin-1")\n'
  '    params = dict((name.encode("latin-1"), values[0].encode("latin-1")) for name, values in grouped.items())\n')])
# the value lists consumed in a way the lemma does not cover: undecided, not violated
T("C16", "twin-params-parse-qs-lists-popped", F, "", "", edits=[IMPORT_QS, (F, QUERY,
  '    query = parse_qs(result.query.decode("ascii"), encoding="latin-1")\n'
  '    params = {key.encode("latin-1"): values.pop().encode("latin-1") for key, values in query.items()}\n')])
# mutants on top of the parse_qs shape
QS_ITEMS = '    query = parse_qs(QQ.decode("ascii"), encoding="latin-1")\n    params = {KK: VV for key, values in query.items()}\n'
M("C16", "parse-qs-of-the-path", F, "", "", "C16.R3", edits=[IMPORT_QS, (F, QUERY,
  QS_ITEMS.replace("QQ", "result.path").replace("KK", 'key.encode("latin-1")').replace("VV", 'values[-1].encode("latin-1")'))])
M("C16", "parse-qs-name-and-value-swapped", F, "", "", "C16.R3", edits=[IMPORT_QS, (F, QUERY,
  QS_ITEMS.replace("QQ", "result.query").replace("KK", 'values[-1].encode("latin-1")').replace("VV", 'key.encode("latin-1")'))])
M("C16", "parse-qs-value-truncated", F, "", "", "C16.R3", edits=[IMPORT_QS, (F, QUERY,
  QS_ITEMS.replace("QQ", "result.query").replace("KK", 'key.encode("latin-1")').replace("VV", 'values[-1][:-1].encode("latin-1")'))])
M("C16", "parse-qs-without-single-byte-codec", F, "", "", "C16.R7", edits=[IMPORT_QS, (F, QUERY,
  '    query = parse_qs(result.query.decode("ascii"))\n    params = {key.encode("latin-1"): values[-1].encode("latin-1") for key, values in query.items()}\n')])
