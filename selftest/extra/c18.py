"""C18 - extra corpus: twins for the kinds of refactoring the role-based rules are robust against (shared scanner helper
returning a tuple, guard clauses / chained comparisons, temporaries introduced or removed, search loop vs next(generator),
accumulating loop vs sum(), loop over the stub markers vs sequential finds, Match.__getitem__ vs group(), tuple display vs
tuple(generator), conditional expression vs if/return, table-driven machine mapping) and mutants for every restructured
rule, several of them applied on top of a refactored shape."""

from selftest.corpus import M, T

PE = "pe.py"
VER = "version.py"
BC = "beacon.py"

# ----------------------------------------------------------------------------------------------- anchors in /repo
MZ_LOOP = (
    "    start_offset = start_offset if start_offset is not None else fh.tell()\n"
    "    for offset in range(maxrange):\n"
    "        fh.seek(start_offset + offset, io.SEEK_SET)\n"
    "        try:\n"
    "            mz = pestruct.IMAGE_DOS_HEADER(fh)\n"
    "            if mz.e_lfanew > 0 and mz.e_lfanew < maxrange:\n"
    "                fh.seek(start_offset + offset + 4 + mz.e_lfanew)\n"
    "                image = pestruct.IMAGE_FILE_HEADER(fh)\n"
    "                if image.Machine in (\n"
    "                    pestruct.IMAGE_FILE_MACHINE_AMD64,\n"
    "                    pestruct.IMAGE_FILE_MACHINE_I386,\n"
    "                ):\n"
    "                    return start_offset + offset\n"
    "        except EOFError:\n"
    "            continue\n"
    "    return None\n"
)
ARCH_LOOP = (
    "    start_offset = start_offset if start_offset is not None else fh.tell()\n"
    "    for offset in range(maxrange):\n"
    "        fh.seek(start_offset + offset, io.SEEK_SET)\n"
    "        try:\n"
    "            mz = pestruct.IMAGE_DOS_HEADER(fh)\n"
    "            if mz.e_lfanew > 0 and mz.e_lfanew < maxrange:\n"
    "                fh.seek(start_offset + offset + 4 + mz.e_lfanew)\n"
    "                image = pestruct.IMAGE_FILE_HEADER(fh)\n"
    "                if image.Machine == pestruct.IMAGE_FILE_MACHINE_AMD64:\n"
    "                    return \"x64\"\n"
    "                elif image.Machine == pestruct.IMAGE_FILE_MACHINE_I386:\n"
    "                    return \"x86\"\n"
    "        except EOFError:\n"
    "            continue\n"
    "    return None\n"
)
EXPORT = (
    "        export_dd = optional_header.DataDirectory[pestruct.IMAGE_DIRECTORY_ENTRY_EXPORT]\n"
    "        sections = [pestruct.IMAGE_SECTION_HEADER(fh) for _ in range(image.NumberOfSections)]\n"
    "        ds = None\n"
    "        for section in sections:\n"
    "            if section.VirtualAddress <= export_dd.VirtualAddress < (section.VirtualAddress + section.VirtualSize):\n"
    "                ds = section\n"
    "                break\n"
    "        if ds is not None:\n"
    "            offset = export_dd.VirtualAddress - ds.VirtualAddress + ds.PointerToRawData + mz_offset\n"
    "            fh.seek(offset)\n"
    "            export_dir = pestruct.IMAGE_EXPORT_DIRECTORY(fh)\n"
    "            export_stamp = export_dir.TimeDateStamp\n"
)
MAGIC_MZ = (
    "    pos = data.find(DOSHEADER_X86)\n"
    "    pos = data.find(DOSHEADER_X64) if pos == -1 else pos\n"
    "    if pos >= 0:\n"
    "        return data[:pos]\n"
    "    return None\n"
)
SIZE = (
    "        size = optional_header.SizeOfHeaders\n"
    "        sections = [pestruct.IMAGE_SECTION_HEADER(fh) for _ in range(image.NumberOfSections)]\n"
    "        for section in sections:\n"
    "            size += section.SizeOfRawData\n"
)
PREPEND = (
    "    if mz_offset > 0:\n"
    "        fh.seek(0)\n"
    "        prepend = fh.read(mz_offset)\n"
)
APPEND_SEEK = "    fh.seek(mz_offset + size)\n"
INIT = (
    "        m = re.match(self.REGEX_VERSION, version)\n"
    "        if m:\n"
    "            self.date = datetime.datetime.strptime(m.group(\"date\"), \"%b %d, %Y\").date()\n"
    "            if m.group(\"patch\"):\n"
    "                self.tuple = (int(m.group(\"major\")), int(m.group(\"minor\")), int(m.group(\"patch\")))\n"
    "            else:\n"
    "                self.tuple = (int(m.group(\"major\")), int(m.group(\"minor\")))\n"
)
VERSION_PROP = (
    "        if self.pe_export_stamp:\n"
    "            return BeaconVersion.from_pe_export_stamp(self.pe_export_stamp)\n"
    "        return BeaconVersion.from_max_setting_enum(self.max_setting_enum)\n"
)
FROM_ENUM = "        return BeaconVersion(MAX_ENUM_TO_VERSION.get(enum, \"Unknown\"))\n"
REGEX = "    REGEX_VERSION = r\"Cobalt Strike (?P<major>\\d+)\\.(?P<minor>\\d+)(\\.(?P<patch>\\d+))? \\((?P<date>.*)\\)\"\n"
MAGIC_PE_SEEK = "    fh.seek(mz.e_lfanew + mz_offset)\n    magic_pe = fh.read(4).rstrip(b\"\\x00\")\n"

# ----------------------------------------------------------------------------------------------- refactored shapes
HELPER = (
    "def _first_pe_candidate(fh, start, limit):\n"
    "    origin = fh.tell() if start is None else start\n"
    "    for index in range(limit):\n"
    "        where = origin + index\n"
    "        fh.seek(where, io.SEEK_SET)\n"
    "        try:\n"
    "            dos = pestruct.IMAGE_DOS_HEADER(fh)\n"
    "            if not 0 < dos.e_lfanew < limit:\n"
    "                continue\n"
    "            fh.seek(where + 4 + dos.e_lfanew)\n"
    "            machine = pestruct.IMAGE_FILE_HEADER(fh).Machine\n"
    "        except EOFError:\n"
    "            continue\n"
    "        if machine in (pestruct.IMAGE_FILE_MACHINE_AMD64, pestruct.IMAGE_FILE_MACHINE_I386):\n"
    "            return where, machine\n"
    "    return None\n"
    "\n"
    "\n"
)
HELPER_ANCHOR = "def find_mz_offset(fh: BinaryIO, start_offset: int = 0, maxrange: int = 1024) -> Optional[int]:\n"
MZ_VIA_HELPER = (
    "    hit = _first_pe_candidate(fh, start_offset, maxrange)\n"
    "    if hit is None:\n"
    "        return None\n"
    "    return hit[0]\n"
) if False else (
    "    hit = _first_pe_candidate(fh, start_offset, maxrange)\n"
    "    if hit is None:\n"
    "        return None\n"
    "    where, _machine = hit\n"
    "    return where\n"
)
ARCH_VIA_HELPER = (
    "    hit = _first_pe_candidate(fh, start_offset, maxrange)\n"
    "    if hit is None:\n"
    "        return None\n"
    "    _where, machine = hit\n"
    "    return \"x64\" if machine == pestruct.IMAGE_FILE_MACHINE_AMD64 else \"x86\"\n"
)


def _helper_edits(helper=HELPER, mz=MZ_VIA_HELPER, arch=ARCH_VIA_HELPER):
    return [(PE, HELPER_ANCHOR, helper + HELPER_ANCHOR), (PE, MZ_LOOP, mz), (PE, ARCH_LOOP, arch)]


MZ_GUARDS = (
    "    base = fh.tell() if start_offset is None else start_offset\n"
    "    for offset in range(maxrange):\n"
    "        candidate = base + offset\n"
    "        fh.seek(candidate, io.SEEK_SET)\n"
    "        try:\n"
    "            lfanew = pestruct.IMAGE_DOS_HEADER(fh).e_lfanew\n"
    "            if not (0 < lfanew < maxrange):\n"
    "                continue\n"
    "            fh.seek(candidate + lfanew + 4)\n"
    "            machine = pestruct.IMAGE_FILE_HEADER(fh).Machine\n"
    "            if machine == pestruct.IMAGE_FILE_MACHINE_AMD64 or machine == pestruct.IMAGE_FILE_MACHINE_I386:\n"
    "                return candidate\n"
    "        except EOFError:\n"
    "            continue\n"
    "    return None\n"
)
ARCH_TABLE = (
    "    if start_offset is None:\n"
    "        start_offset = fh.tell()\n"
    "    for offset in range(maxrange):\n"
    "        fh.seek(start_offset + offset, io.SEEK_SET)\n"
    "        try:\n"
    "            mz = pestruct.IMAGE_DOS_HEADER(fh)\n"
    "            if mz.e_lfanew <= 0 or mz.e_lfanew >= maxrange:\n"
    "                continue\n"
    "            fh.seek(start_offset + offset + 4 + mz.e_lfanew)\n"
    "            image = pestruct.IMAGE_FILE_HEADER(fh)\n"
    "        except EOFError:\n"
    "            continue\n"
    "        arch = {pestruct.IMAGE_FILE_MACHINE_AMD64: \"x64\", pestruct.IMAGE_FILE_MACHINE_I386: \"x86\"}.get(image.Machine)\n"
    "        if arch is not None:\n"
    "            return arch\n"
    "    return None\n"
)
EXPORT_NEXT = (
    "        rva = optional_header.DataDirectory[pestruct.IMAGE_DIRECTORY_ENTRY_EXPORT].VirtualAddress\n"
    "        sections = [pestruct.IMAGE_SECTION_HEADER(fh) for _ in range(image.NumberOfSections)]\n"
    "        ds = next((s for s in sections if s.VirtualAddress <= rva < s.VirtualAddress + s.VirtualSize), None)\n"
    "        if ds is not None:\n"
    "            fh.seek(mz_offset + ds.PointerToRawData + (rva - ds.VirtualAddress))\n"
    "            export_stamp = pestruct.IMAGE_EXPORT_DIRECTORY(fh).TimeDateStamp\n"
)
EXPORT_GUARD = (
    "        export_dd = optional_header.DataDirectory[pestruct.IMAGE_DIRECTORY_ENTRY_EXPORT]\n"
    "        sections = [pestruct.IMAGE_SECTION_HEADER(fh) for _ in range(image.NumberOfSections)]\n"
    "        ds = None\n"
    "        for section in sections:\n"
    "            delta = export_dd.VirtualAddress - section.VirtualAddress\n"
    "            if delta < 0 or delta >= section.VirtualSize:\n"
    "                continue\n"
    "            ds = section\n"
    "            break\n"
    "        if ds is not None:\n"
    "            raw = ds.PointerToRawData + export_dd.VirtualAddress - ds.VirtualAddress\n"
    "            fh.seek(mz_offset + raw)\n"
    "            export_dir = pestruct.IMAGE_EXPORT_DIRECTORY(fh)\n"
    "            export_stamp = export_dir.TimeDateStamp\n"
)
MAGIC_LOOP = (
    "    for stub in (DOSHEADER_X86, DOSHEADER_X64):\n"
    "        pos = data.find(stub)\n"
    "        if pos != -1:\n"
    "            return data[:pos]\n"
    "    return None\n"
)
MAGIC_WALRUS = (
    "    if (pos := data.find(DOSHEADER_X86)) < 0 and (pos := data.find(DOSHEADER_X64)) < 0:\n"
    "        return None\n"
    "    return data[:pos]\n"
)
MAGIC_IN = (
    "    for stub in (DOSHEADER_X86, DOSHEADER_X64):\n"
    "        if stub in data:\n"
    "            return data[: data.index(stub)]\n"
    "    return None\n"
)
SIZE_SUM = (
    "        sections = [pestruct.IMAGE_SECTION_HEADER(fh) for _ in range(image.NumberOfSections)]\n"
    "        size = optional_header.SizeOfHeaders + sum(section.SizeOfRawData for section in sections)\n"
)
SIZE_PLAIN = (
    "        sections = [pestruct.IMAGE_SECTION_HEADER(fh) for _ in range(image.NumberOfSections)]\n"
    "        size = optional_header.SizeOfHeaders\n"
    "        for section in sections:\n"
    "            size = size + section.SizeOfRawData\n"
)
INIT_GUARD = (
    "        m = re.match(self.REGEX_VERSION, version)\n"
    "        if m is None:\n"
    "            return\n"
    "        self.date = datetime.datetime.strptime(m[\"date\"], \"%b %d, %Y\").date()\n"
    "        names = (\"major\", \"minor\", \"patch\") if m[\"patch\"] is not None else (\"major\", \"minor\")\n"
    "        self.tuple = tuple(int(m[name]) for name in names)\n"
)
INIT_APPEND = (
    "        if (m := re.match(self.REGEX_VERSION, version)) is not None:\n"
    "            groups = m.groupdict()\n"
    "            parts = [int(groups[\"major\"]), int(groups[\"minor\"])]\n"
    "            patch = groups[\"patch\"]\n"
    "            if patch:\n"
    "                parts.append(int(patch))\n"
    "            self.tuple = tuple(parts)\n"
    "            self.date = datetime.datetime.strptime(groups[\"date\"], \"%b %d, %Y\").date()\n"
)
VERSION_TERNARY = (
    "        stamp = self.pe_export_stamp\n"
    "        return BeaconVersion.from_pe_export_stamp(stamp) if stamp else BeaconVersion.from_max_setting_enum(self.max_setting_enum)\n"
)
VERSION_EXPLICIT = (
    "        stamp = self.pe_export_stamp\n"
    "        if stamp is None or stamp == 0:\n"
    "            return BeaconVersion.from_max_setting_enum(enum=self.max_setting_enum)\n"
    "        return BeaconVersion.from_pe_export_stamp(pe_export_stamp=stamp)\n"
)

ARCH_DELEGATES = (
    "    mz_offset = find_mz_offset(fh, start_offset=start_offset, maxrange=maxrange)\n"
    "    if mz_offset is None:\n"
    "        return None\n"
    "    fh.seek(mz_offset)\n"
    "    mz = pestruct.IMAGE_DOS_HEADER(fh)\n"
    "    fh.seek(mz_offset + mz.e_lfanew + 4)\n"
    "    image = pestruct.IMAGE_FILE_HEADER(fh)\n"
    "    return \"x64\" if image.Machine == pestruct.IMAGE_FILE_MACHINE_AMD64 else \"x86\"\n"
)
MZ_RANGE2 = (
    "    first = fh.tell() if start_offset is None else start_offset\n"
    "    for candidate in range(first, first + maxrange):\n"
    "        fh.seek(candidate, io.SEEK_SET)\n"
    "        try:\n"
    "            mz = pestruct.IMAGE_DOS_HEADER(fh)\n"
    "            if 0 < mz.e_lfanew < maxrange:\n"
    "                fh.seek(candidate + 4 + mz.e_lfanew)\n"
    "                image = pestruct.IMAGE_FILE_HEADER(fh)\n"
    "                if image.Machine in (pestruct.IMAGE_FILE_MACHINE_AMD64, pestruct.IMAGE_FILE_MACHINE_I386):\n"
    "                    return candidate\n"
    "        except EOFError:\n"
    "            continue\n"
    "    return None\n"
)
MZ_VIA_HELPER_INDEX = (
    "    hit = _first_pe_candidate(fh, start_offset, maxrange)\n"
    "    return None if hit is None else hit[0]\n"
)
ARCH_VIA_HELPER_INDEX = (
    "    hit = _first_pe_candidate(fh, start_offset, maxrange)\n"
    "    if not hit:\n"
    "        return None\n"
    "    if hit[1] == pestruct.IMAGE_FILE_MACHINE_AMD64:\n"
    "        return \"x64\"\n"
    "    return \"x86\"\n"
)
SIZE_APPEND_LOOP = (
    "        size = optional_header.SizeOfHeaders\n"
    "        sections = []\n"
    "        for _ in range(image.NumberOfSections):\n"
    "            sections.append(pestruct.IMAGE_SECTION_HEADER(fh))\n"
    "        for section in sections:\n"
    "            size += section.SizeOfRawData\n"
)

EXPORT_WALRUS_EARLY = (
    "        rva = optional_header.DataDirectory[pestruct.IMAGE_DIRECTORY_ENTRY_EXPORT].VirtualAddress\n"
    "        sections = [pestruct.IMAGE_SECTION_HEADER(fh) for _ in range(image.NumberOfSections)]\n"
    "        if (ds := next((s for s in sections if 0 <= rva - s.VirtualAddress < s.VirtualSize), None)) is None:\n"
    "            return (compile_stamp, None)\n"
    "        fh.seek(mz_offset + ds.PointerToRawData + rva - ds.VirtualAddress)\n"
    "        export_stamp = pestruct.IMAGE_EXPORT_DIRECTORY(fh).TimeDateStamp\n"
)
MZ_WHILE = (
    "    start_offset = start_offset if start_offset is not None else fh.tell()\n"
    "    offset = 0\n"
    "    while offset < maxrange:\n"
    "        fh.seek(start_offset + offset, io.SEEK_SET)\n"
    "        try:\n"
    "            mz = pestruct.IMAGE_DOS_HEADER(fh)\n"
    "            if mz.e_lfanew > 0 and mz.e_lfanew < maxrange:\n"
    "                fh.seek(start_offset + offset + 4 + mz.e_lfanew)\n"
    "                image = pestruct.IMAGE_FILE_HEADER(fh)\n"
    "                if image.Machine in (pestruct.IMAGE_FILE_MACHINE_AMD64, pestruct.IMAGE_FILE_MACHINE_I386):\n"
    "                    return start_offset + offset\n"
    "        except EOFError:\n"
    "            pass\n"
    "        offset += 1\n"
    "    return None\n"
)

# ----------------------------------------------------------------------------------------------- twins
T("C18", "twin-export-walrus-early-return-delta-chain", PE, EXPORT, EXPORT_WALRUS_EARLY)
T("C18", "twin-scanner-while-loop", PE, MZ_LOOP, MZ_WHILE)
T("C18", "twin-arch-delegates-to-find-mz-offset", PE, ARCH_LOOP, ARCH_DELEGATES)
T("C18", "twin-scanner-two-argument-range", PE, MZ_LOOP, MZ_RANGE2)
T("C18", "twin-scanner-helper-indexed-result", PE, "", "", edits=_helper_edits(mz=MZ_VIA_HELPER_INDEX, arch=ARCH_VIA_HELPER_INDEX))
T("C18", "twin-sections-read-by-explicit-loop", PE, SIZE, SIZE_APPEND_LOOP)
T("C18", "twin-prepend-nonzero-guard", PE, PREPEND, "    if mz_offset != 0:\n        fh.seek(0)\n        prepend = fh.read(mz_offset)\n")
T("C18", "twin-pair-through-temporary", PE, "    return (prepend, append)\n\n\ndef find_architecture", "    found = (prepend, append)\n    return found\n\n\ndef find_architecture")
T("C18", "twin-scanner-shared-helper", PE, "", "", edits=_helper_edits())
T("C18", "twin-scanner-one-sided-guards", PE, MZ_LOOP, MZ_GUARDS)
T("C18", "twin-arch-table-driven", PE, ARCH_LOOP, ARCH_TABLE)
T("C18", "twin-both-scanners-reshaped-differently", PE, "", "", edits=[(PE, MZ_LOOP, MZ_GUARDS), (PE, ARCH_LOOP, ARCH_TABLE)])
T("C18", "twin-export-next-generator", PE, EXPORT, EXPORT_NEXT)
T("C18", "twin-export-guard-continue-delta", PE, EXPORT, EXPORT_GUARD)
T("C18", "twin-magic-mz-loop-over-stubs", PE, MAGIC_MZ, MAGIC_LOOP)
T("C18", "twin-magic-mz-walrus", PE, MAGIC_MZ, MAGIC_WALRUS)
T("C18", "twin-magic-mz-membership-index", PE, MAGIC_MZ, MAGIC_IN)
T("C18", "twin-size-sum", PE, SIZE, SIZE_SUM)
T("C18", "twin-size-plain-add", PE, SIZE, SIZE_PLAIN)
T("C18", "twin-append-end-temp", PE, APPEND_SEEK, "    image_end = mz_offset + size\n    fh.seek(image_end)\n")
T("C18", "twin-prepend-truthy-guard", PE, PREPEND, "    if mz_offset:\n        fh.seek(0, io.SEEK_SET)\n        prepend = fh.read(mz_offset)\n")
T("C18", "twin-magic-pe-temp", PE, MAGIC_PE_SEEK, "    pe_offset = mz_offset + mz.e_lfanew\n    fh.seek(pe_offset)\n    raw_magic = fh.read(4)\n    magic_pe = raw_magic.rstrip(b\"\\x00\")\n")
T("C18", "twin-init-guard-getitem-genexp", VER, INIT, INIT_GUARD)
T("C18", "twin-init-walrus-groupdict-append", VER, INIT, INIT_APPEND)
T("C18", "twin-version-ternary", BC, VERSION_PROP, VERSION_TERNARY)
T("C18", "twin-version-explicit-none-zero-keywords", BC, VERSION_PROP, VERSION_EXPLICIT)
T("C18", "twin-lookup-temp-cls", VER, FROM_ENUM, "        text = MAX_ENUM_TO_VERSION.get(enum, \"Unknown\")\n        return cls(text)\n")
# the version regex is judged on its syntax tree: spelling of the digit class, (non-)capturing helper group, anchors,
# bounded repeats that cover every component of the tables, `[^)]*` for the date
T("C18", "twin-regex-explicit-digit-class-noncapturing", VER, REGEX, "    REGEX_VERSION = r\"Cobalt Strike (?P<major>[0-9]+)\\.(?P<minor>[0-9]+)(?:\\.(?P<patch>[0-9]+))? \\((?P<date>.*)\\)\"\n")
T("C18", "twin-regex-anchored-date-upto-paren", VER, REGEX, "    REGEX_VERSION = r\"^Cobalt Strike (?P<major>\\d+)\\.(?P<minor>\\d+)(\\.(?P<patch>\\d+))? \\((?P<date>[^)]+)\\)$\"\n")
T("C18", "twin-regex-bounded-repeats", VER, REGEX, "    REGEX_VERSION = r\"Cobalt Strike (?P<major>\\d{1,2})\\.(?P<minor>\\d{1,3})(\\.(?P<patch>\\d{1,3}))? \\((?P<date>.*)\\)\"\n")
T("C18", "twin-regex-concatenated-constant", VER, REGEX, "    REGEX_VERSION = r\"Cobalt Strike (?P<major>\\d+)\\.(?P<minor>\\d+)\" r\"(\\.(?P<patch>\\d+))?\" + r\" \\((?P<date>.*)\\)\"\n")
T("C18", "twin-regex-date-fields-spelled-out", VER, REGEX, "    REGEX_VERSION = r\"Cobalt Strike (?P<major>\\d+)\\.(?P<minor>\\d+)(\\.(?P<patch>\\d+))? \\((?P<date>\\w{3} \\d{2}, \\d{4})\\)\"\n")
T("C18", "twin-prepend-guard-one-or-more-mirrored", PE, PREPEND, "    if 1 <= mz_offset:\n        fh.seek(0)\n        prepend = fh.read(mz_offset)\n")
T("C18", "twin-prepend-guard-not-equal-zero-negated", PE, PREPEND, "    if not mz_offset == 0:\n        fh.seek(0)\n        prepend = fh.read(mz_offset)\n")

# ----------------------------------------------------------------------------------------------- mutants
# the prepend read must be excluded for image base 0 (nonzero reasoning on the dominating facts); the "any other value"
# case of the Machine distinction covers literals outside the vocabulary
M("C18", "prepend-guard-admits-zero", PE, PREPEND, PREPEND.replace("if mz_offset > 0:", "if mz_offset >= 0:"), "C18.R6")
M("C18", "scanner-accepts-literal-machine-outside-vocabulary", PE, "                    pestruct.IMAGE_FILE_MACHINE_I386,\n                ):\n                    return start_offset + offset\n", "                    pestruct.IMAGE_FILE_MACHINE_I386,\n                    0x01C0,\n                ):\n                    return start_offset + offset\n", "C18.R3")
# R5 (version regex, by its syntax tree)
M("C18", "regex-patch-mandatory", VER, REGEX, REGEX.replace("(\\.(?P<patch>\\d+))?", "(\\.(?P<patch>\\d+))"), "C18.R5")
M("C18", "regex-major-minor-names-swapped", VER, REGEX, REGEX.replace("(?P<major>", "(?P<MINOR>").replace("(?P<minor>", "(?P<major>").replace("(?P<MINOR>", "(?P<minor>"), "C18.R5")
M("C18", "regex-minor-single-digit", VER, REGEX, REGEX.replace("(?P<minor>\\d+)", "(?P<minor>\\d)"), "C18.R5")
M("C18", "regex-separator-comma", VER, REGEX, REGEX.replace("(?P<major>\\d+)\\.", "(?P<major>\\d+),"), "C18.R5")
M("C18", "regex-prefix-without-space", VER, REGEX, REGEX.replace("Cobalt Strike ", "CobaltStrike "), "C18.R5")
M("C18", "regex-date-group-unnamed", VER, REGEX, REGEX.replace("(?P<date>.*)", "(.*)"), "C18.R5")
M("C18", "regex-does-not-compile", VER, REGEX, REGEX.replace("(?P<date>.*)\\)", "(?P<date>.*))"), "C18.R5")
# R2 (positions, located by role)
M("C18", "scanner-reports-index-only", PE, "                    return start_offset + offset\n", "                    return offset\n", "C18.R2")
M("C18", "helper-reports-next-byte", PE, "", "", "C18.R2", edits=_helper_edits(helper=HELPER.replace("return where, machine", "return where + 1, machine")))
M("C18", "helper-file-header-without-signature", PE, "", "", "C18.R2", edits=_helper_edits(helper=HELPER.replace("where + 4 + dos.e_lfanew", "where + dos.e_lfanew")))
M("C18", "next-form-strict-lower-bound", PE, EXPORT, EXPORT_NEXT.replace("s.VirtualAddress <= rva <", "s.VirtualAddress < rva <"), "C18.R2")
M("C18", "next-form-raw-size-bound", PE, EXPORT, EXPORT_NEXT.replace("s.VirtualAddress + s.VirtualSize", "s.VirtualAddress + s.SizeOfRawData"), "C18.R2")
M("C18", "guard-form-off-by-one", PE, EXPORT, EXPORT_GUARD.replace("delta >= section.VirtualSize", "delta > section.VirtualSize"), "C18.R2")
M("C18", "export-rva-of-import-directory", PE, "DataDirectory[pestruct.IMAGE_DIRECTORY_ENTRY_EXPORT]", "DataDirectory[pestruct.IMAGE_DIRECTORY_ENTRY_IMPORT]", "C18.R2")
M("C18", "export-offset-without-image-base", PE, EXPORT, EXPORT_NEXT.replace("fh.seek(mz_offset + ds.PointerToRawData", "fh.seek(ds.PointerToRawData"), "C18.R2")
M("C18", "magic-pe-without-image-base", PE, MAGIC_PE_SEEK, "    fh.seek(mz.e_lfanew)\n    magic_pe = fh.read(4).rstrip(b\"\\x00\")\n", "C18.R2")
M("C18", "magic-pe-two-bytes", PE, MAGIC_PE_SEEK, "    fh.seek(mz.e_lfanew + mz_offset)\n    magic_pe = fh.read(2).rstrip(b\"\\x00\")\n", "C18.R2")
# R3 (scanner agreement, constraints, machines by case distinction)
M("C18", "helper-lfanew-inclusive", PE, "", "", "C18.R3", edits=_helper_edits(helper=HELPER.replace("0 < dos.e_lfanew < limit", "0 < dos.e_lfanew <= limit")))
M("C18", "helper-lfanew-zero-allowed", PE, "", "", "C18.R3", edits=_helper_edits(helper=HELPER.replace("0 < dos.e_lfanew < limit", "0 <= dos.e_lfanew < limit")))
M("C18", "delegating-arch-wrong-constant", PE, ARCH_LOOP, ARCH_DELEGATES.replace("IMAGE_FILE_MACHINE_AMD64", "IMAGE_FILE_MACHINE_I386"), "C18.R3")
M("C18", "delegating-arch-file-header-misplaced", PE, ARCH_LOOP, ARCH_DELEGATES.replace("mz_offset + mz.e_lfanew + 4", "mz_offset + mz.e_lfanew"), "C18.R2")
M("C18", "indexed-result-wrong-element", PE, "", "", "C18.R2", edits=_helper_edits(mz=MZ_VIA_HELPER_INDEX.replace("hit[0]", "hit[1]"), arch=ARCH_VIA_HELPER_INDEX))
M("C18", "two-argument-range-shorter-search", PE, MZ_LOOP, MZ_RANGE2.replace("range(first, first + maxrange)", "range(first, maxrange)"), "C18.R3")
M("C18", "helper-accepts-ia64", PE, "", "", "C18.R3", edits=_helper_edits(helper=HELPER.replace("pestruct.IMAGE_FILE_MACHINE_I386):", "pestruct.IMAGE_FILE_MACHINE_I386, pestruct.IMAGE_FILE_MACHINE_IA64):")))
M("C18", "helper-arch-ternary-swapped", PE, "", "", "C18.R3", edits=_helper_edits(arch=ARCH_VIA_HELPER.replace("\"x64\" if machine ==", "\"x86\" if machine ==").replace("else \"x86\"", "else \"x64\"")))
M("C18", "helper-arch-tests-wrong-constant", PE, "", "", "C18.R3", edits=_helper_edits(arch=ARCH_VIA_HELPER.replace("IMAGE_FILE_MACHINE_AMD64", "IMAGE_FILE_MACHINE_I386")))
M("C18", "helper-requires-mz-magic", PE, "", "", "C18.R3", edits=_helper_edits(helper=HELPER.replace("            if not 0 < dos.e_lfanew < limit:\n", "            if dos.e_magic != 0x5A4D or not 0 < dos.e_lfanew < limit:\n")))
M("C18", "table-arch-swapped", PE, ARCH_LOOP, ARCH_TABLE.replace("AMD64: \"x64\"", "AMD64: \"x86\"").replace("I386: \"x86\"", "I386: \"x64\""), "C18.R3")
M("C18", "table-arch-extra-machine", PE, ARCH_LOOP, ARCH_TABLE.replace("pestruct.IMAGE_FILE_MACHINE_I386: \"x86\"}", "pestruct.IMAGE_FILE_MACHINE_I386: \"x86\", pestruct.IMAGE_FILE_MACHINE_IA64: \"x64\"}"), "C18.R3")
M("C18", "one-sided-half-range", PE, MZ_LOOP, MZ_GUARDS.replace("for offset in range(maxrange):", "for offset in range(maxrange // 2):"), "C18.R3")
M("C18", "one-sided-start-ignores-none", PE, MZ_LOOP, MZ_GUARDS.replace("fh.tell() if start_offset is None else start_offset", "start_offset or 0"), "C18.R3")
M("C18", "one-sided-eof-not-handled", PE, ARCH_LOOP, ARCH_LOOP.replace("        except EOFError:\n", "        except ValueError:\n"), "C18.R3")
M("C18", "optional-header-variants-swapped", PE,
  "        if image.Machine == pestruct.IMAGE_FILE_MACHINE_AMD64:\n            optional_header = pestruct.IMAGE_OPTIONAL_HEADER64(fh)\n        else:\n            optional_header = pestruct.IMAGE_OPTIONAL_HEADER(fh)\n",
  "        if image.Machine == pestruct.IMAGE_FILE_MACHINE_I386:\n            optional_header = pestruct.IMAGE_OPTIONAL_HEADER64(fh)\n        else:\n            optional_header = pestruct.IMAGE_OPTIONAL_HEADER(fh)\n", "C18.R3")
# R5 (scenario evaluation of the version property / constructor / lookups)
M("C18", "precedence-is-not-none", BC, VERSION_PROP, VERSION_PROP.replace("if self.pe_export_stamp:", "if self.pe_export_stamp is not None:"), "C18.R5")
M("C18", "ternary-branches-swapped", BC, VERSION_PROP, "        stamp = self.pe_export_stamp\n        return BeaconVersion.from_max_setting_enum(self.max_setting_enum) if stamp else BeaconVersion.from_pe_export_stamp(stamp)\n", "C18.R5")
M("C18", "stamp-looked-up-by-enum", BC, VERSION_PROP, VERSION_PROP.replace("from_pe_export_stamp(self.pe_export_stamp)", "from_pe_export_stamp(self.max_setting_enum)"), "C18.R5")
M("C18", "guard-form-arity-by-int", VER, INIT, INIT_GUARD.replace("if m[\"patch\"] is not None else", "if int(m[\"patch\"] or 0) else"), "C18.R5")
M("C18", "guard-form-minor-twice", VER, INIT, INIT_GUARD.replace("(\"major\", \"minor\", \"patch\") if", "(\"minor\", \"minor\", \"patch\") if"), "C18.R5")
M("C18", "append-form-patch-always", VER, INIT, INIT_APPEND.replace("            if patch:\n                parts.append(int(patch))\n", "            parts.append(int(patch or 0))\n"), "C18.R5")
M("C18", "date-format-full-month", VER, "m.group(\"date\"), \"%b %d, %Y\"", "m.group(\"date\"), \"%B %d, %Y\"", "C18.R5")
M("C18", "date-from-wrong-group", VER, "strptime(m.group(\"date\"),", "strptime(m.group(\"patch\"),", "C18.R5")
M("C18", "lookup-default-lowercase", VER, FROM_ENUM, "        text = MAX_ENUM_TO_VERSION.get(enum, \"unknown\")\n        return cls(text)\n", "C18.R5")
M("C18", "lookup-key-constant", VER, FROM_ENUM, "        return BeaconVersion(MAX_ENUM_TO_VERSION.get(max(MAX_ENUM_TO_VERSION), \"Unknown\"))\n", "C18.R5")
# R6 (prepend / append / magic_mz)
M("C18", "prepend-one-short", PE, PREPEND, PREPEND.replace("fh.read(mz_offset)", "fh.read(mz_offset - 1)"), "C18.R6")
M("C18", "prepend-from-current-position", PE, PREPEND, "    if mz_offset > 0:\n        prepend = fh.read(mz_offset)\n", "C18.R6")
M("C18", "append-without-image-base", PE, APPEND_SEEK, "    fh.seek(size)\n", "C18.R6")
M("C18", "sum-form-without-headers", PE, SIZE, SIZE_SUM.replace("optional_header.SizeOfHeaders + sum(", "sum("), "C18.R6")
M("C18", "sum-form-virtual-size", PE, SIZE, SIZE_SUM.replace("section.SizeOfRawData for", "section.VirtualSize for"), "C18.R6")
M("C18", "sum-form-skips-first-section", PE, SIZE, SIZE_SUM.replace("for section in sections)", "for section in sections[1:])"), "C18.R6")
M("C18", "loop-form-virtual-size", PE, SIZE, SIZE_PLAIN.replace("size + section.SizeOfRawData", "size + section.VirtualSize"), "C18.R6")
M("C18", "stub-precedence-swapped", PE, MAGIC_MZ, MAGIC_LOOP.replace("(DOSHEADER_X86, DOSHEADER_X64)", "(DOSHEADER_X64, DOSHEADER_X86)"), "C18.R6")
M("C18", "stub-at-zero-rejected", PE, MAGIC_MZ, MAGIC_MZ.replace("if pos >= 0:", "if pos > 0:"), "C18.R6")
M("C18", "magic-suffix-instead-of-prefix", PE, MAGIC_MZ, MAGIC_LOOP.replace("return data[:pos]", "return data[pos:]"), "C18.R6")
M("C18", "x64-stub-never-tried", PE, MAGIC_MZ, "    pos = data.find(DOSHEADER_X86)\n    if pos >= 0:\n        return data[:pos]\n    return None\n", "C18.R6")
M("C18", "magic-window-not-at-image", PE, "    fh.seek(mz_offset)\n    data = fh.read(256)\n", "    fh.seek(0)\n    data = fh.read(256)\n", "C18.R6")

# ----------------------------------------------------------------------------------------------- wave 2
# table-driven dispatch on the Machine field through *module-level* tables (plain, read-only proxy, membership +
# subscript), the optional-header struct *type* selected by a table / conditional expression and parsed through a
# temporary, and the version deduction written directly on the tables instead of through the two lookups
TABLE_ANCHOR = "DOSHEADER_X86 = bytes.fromhex(\"e8000000005b\")\n"
ARCH_BY_MACHINE = (
    "_ARCH_BY_MACHINE = {\n"
    "    pestruct.IMAGE_FILE_MACHINE_I386: \"x86\",\n"
    "    pestruct.IMAGE_FILE_MACHINE_AMD64: \"x64\",\n"
    "}\n"
)
ARCH_BY_MACHINE_PROXY = (
    "_ARCH_BY_MACHINE = types.MappingProxyType(dict({\n"
    "    pestruct.IMAGE_FILE_MACHINE_I386: \"x86\",\n"
    "    pestruct.IMAGE_FILE_MACHINE_AMD64: \"x64\",\n"
    "}))\n"
)
OPT_TYPES = (
    "_OPTIONAL_HEADER_TYPES = {\n"
    "    pestruct.IMAGE_FILE_MACHINE_I386: pestruct.IMAGE_OPTIONAL_HEADER,\n"
    "    pestruct.IMAGE_FILE_MACHINE_AMD64: pestruct.IMAGE_OPTIONAL_HEADER64,\n"
    "}\n"
)
ARCH_IF = (
    "                if image.Machine == pestruct.IMAGE_FILE_MACHINE_AMD64:\n"
    "                    return \"x64\"\n"
    "                elif image.Machine == pestruct.IMAGE_FILE_MACHINE_I386:\n"
    "                    return \"x86\"\n"
)
ARCH_MEMBER_SUBSCRIPT = (
    "                if image.Machine in _ARCH_BY_MACHINE:\n"
    "                    return _ARCH_BY_MACHINE[image.Machine]\n"
)
ARCH_GET_TRUTHY = (
    "                name = _ARCH_BY_MACHINE.get(image.Machine)\n"
    "                if name:\n"
    "                    return name\n"
)
OPT_IF_ELSE = (
    "        if image.Machine == pestruct.IMAGE_FILE_MACHINE_AMD64:\n"
    "            optional_header = pestruct.IMAGE_OPTIONAL_HEADER64(fh)\n"
    "        else:\n"
    "            optional_header = pestruct.IMAGE_OPTIONAL_HEADER(fh)\n"
)
OPT_IF_ELIF = (
    "        if image.Machine == pestruct.IMAGE_FILE_MACHINE_AMD64:\n"
    "            optional_header = pestruct.IMAGE_OPTIONAL_HEADER64(fh)\n"
    "        elif image.Machine == pestruct.IMAGE_FILE_MACHINE_I386:\n"
    "            optional_header = pestruct.IMAGE_OPTIONAL_HEADER(fh)\n"
    "        else:\n"
    "            return (prepend, None)\n"
)
OPT_TERNARY_TYPE = (
    "        is64 = image.Machine == pestruct.IMAGE_FILE_MACHINE_AMD64\n"
    "        header_type = pestruct.IMAGE_OPTIONAL_HEADER64 if is64 else pestruct.IMAGE_OPTIONAL_HEADER\n"
    "        optional_header = header_type(fh)\n"
)
OPT_MEMBER_SUBSCRIPT = (
    "        if image.Machine not in _OPTIONAL_HEADER_TYPES:\n"
    "            return (prepend, None)\n"
    "        optional_header = _OPTIONAL_HEADER_TYPES[image.Machine](fh)\n"
)
OPT_GETATTR = (
    "        type_name = \"IMAGE_OPTIONAL_HEADER64\" if image.Machine == pestruct.IMAGE_FILE_MACHINE_AMD64 else \"IMAGE_OPTIONAL_HEADER\"\n"
    "        optional_header = getattr(pestruct, type_name)(fh)\n"
)
IMPORT_TYPES = ("import logging\n", "import logging\nimport types\n")
VER_IMPORT = "from dissect.cobaltstrike.version import BeaconVersion\n"
VER_IMPORT_TABLES = "from dissect.cobaltstrike.version import MAX_ENUM_TO_VERSION, PE_EXPORT_STAMP_TO_VERSION, BeaconVersion\n"
VERSION_TABLES_TERNARY = (
    "        stamp = self.pe_export_stamp\n"
    "        if stamp:\n"
    "            return BeaconVersion(PE_EXPORT_STAMP_TO_VERSION.get(stamp) or \"Unknown\")\n"
    "        return BeaconVersion(MAX_ENUM_TO_VERSION.get(self.max_setting_enum, \"Unknown\"))\n"
)
VERSION_TABLES_MEMBERSHIP = (
    "        stamp = self.pe_export_stamp\n"
    "        if stamp:\n"
    "            text = PE_EXPORT_STAMP_TO_VERSION[stamp] if stamp in PE_EXPORT_STAMP_TO_VERSION else \"Unknown\"\n"
    "        else:\n"
    "            text = MAX_ENUM_TO_VERSION.get(self.max_setting_enum) or \"Unknown\"\n"
    "        return BeaconVersion(text)\n"
)
VERSION_TABLES_HIT_TEST = (
    "        if self.pe_export_stamp:\n"
    "            text = PE_EXPORT_STAMP_TO_VERSION.get(self.pe_export_stamp)\n"
    "            if text is not None:\n"
    "                return BeaconVersion(text)\n"
    "            return BeaconVersion(\"Unknown\")\n"
    "        return BeaconVersion.from_max_setting_enum(self.max_setting_enum)\n"
)


def _pe_table(table, *edits, proxy=False):
    return ([(PE,) + IMPORT_TYPES] if proxy else []) + [(PE, TABLE_ANCHOR, TABLE_ANCHOR + "\n" + table)] + [(PE,) + e for e in edits]


def _ver(body):
    return [(BC, VER_IMPORT, VER_IMPORT_TABLES), (BC, VERSION_PROP, body)]


T("C18", "twin-arch-module-table-membership-subscript", PE, "", "", edits=_pe_table(ARCH_BY_MACHINE, (ARCH_IF, ARCH_MEMBER_SUBSCRIPT)))
T("C18", "twin-arch-module-table-proxy-truthy", PE, "", "", edits=_pe_table(ARCH_BY_MACHINE_PROXY, (ARCH_IF, ARCH_GET_TRUTHY), proxy=True))
T("C18", "twin-optional-header-type-by-ternary", PE, OPT_IF_ELSE, OPT_TERNARY_TYPE)
T("C18", "twin-optional-header-type-table-membership-subscript", PE, "", "", edits=_pe_table(OPT_TYPES, (OPT_IF_ELIF, OPT_MEMBER_SUBSCRIPT)))
T("C18", "twin-optional-header-type-by-getattr-not-located", PE, OPT_IF_ELSE, OPT_GETATTR)
T("C18", "twin-version-on-tables-or-unknown", BC, "", "", edits=_ver(VERSION_TABLES_TERNARY))
T("C18", "twin-version-on-tables-membership", BC, "", "", edits=_ver(VERSION_TABLES_MEMBERSHIP))
T("C18", "twin-version-on-tables-hit-test-then-unknown", BC, "", "", edits=_ver(VERSION_TABLES_HIT_TEST))

M("C18", "module-table-arch-swapped", PE, "", "", "C18.R3",
  edits=_pe_table(ARCH_BY_MACHINE.replace("I386: \"x86\"", "I386: \"x64\"").replace("AMD64: \"x64\"", "AMD64: \"x86\""), (ARCH_IF, ARCH_MEMBER_SUBSCRIPT)))
M("C18", "module-table-arch-extra-machine", PE, "", "", "C18.R3",
  edits=_pe_table(ARCH_BY_MACHINE.replace("}\n", "    pestruct.IMAGE_FILE_MACHINE_IA64: \"x64\",\n}\n"), (ARCH_IF, ARCH_GET_TRUTHY)))
M("C18", "optional-header-type-table-swapped", PE, "", "", "C18.R3",
  edits=_pe_table(OPT_TYPES.replace("I386: pestruct.IMAGE_OPTIONAL_HEADER,", "I386: pestruct.IMAGE_OPTIONAL_HEADER64,").replace("AMD64: pestruct.IMAGE_OPTIONAL_HEADER64,", "AMD64: pestruct.IMAGE_OPTIONAL_HEADER,"),
                  (OPT_IF_ELIF, OPT_MEMBER_SUBSCRIPT)))
M("C18", "optional-header-type-ternary-tests-i386", PE, OPT_IF_ELSE, OPT_TERNARY_TYPE.replace("IMAGE_FILE_MACHINE_AMD64", "IMAGE_FILE_MACHINE_I386"), "C18.R3")
M("C18", "optional-header-type-table-export-rva-of-import-directory", PE, "", "", "C18.R2",
  edits=_pe_table(OPT_TYPES, (OPT_IF_ELSE, "        optional_header = _OPTIONAL_HEADER_TYPES.get(image.Machine, pestruct.IMAGE_OPTIONAL_HEADER)(fh)\n"),
                  ("DataDirectory[pestruct.IMAGE_DIRECTORY_ENTRY_EXPORT]", "DataDirectory[pestruct.IMAGE_DIRECTORY_ENTRY_IMPORT]")))
# the export stamp, when present, decides alone: an unlisted stamp is 'Unknown', never an estimate from the setting index
M("C18", "unlisted-stamp-nested-default-falls-back-to-enum", BC, "", "", "C18.R5",
  edits=_ver("        if self.pe_export_stamp:\n"
             "            return BeaconVersion(PE_EXPORT_STAMP_TO_VERSION.get(self.pe_export_stamp, MAX_ENUM_TO_VERSION.get(self.max_setting_enum, \"Unknown\")))\n"
             "        return BeaconVersion.from_max_setting_enum(self.max_setting_enum)\n"))
M("C18", "unlisted-stamp-hit-test-falls-through-to-enum", BC, "", "", "C18.R5",
  edits=_ver(VERSION_TABLES_HIT_TEST.replace("            return BeaconVersion(\"Unknown\")\n", "")))
M("C18", "unlisted-stamp-membership-guard-in-precedence-test", BC, "", "", "C18.R5",
  edits=_ver(VERSION_PROP.replace("if self.pe_export_stamp:", "if self.pe_export_stamp in PE_EXPORT_STAMP_TO_VERSION:")))
M("C18", "tables-form-enum-preferred-when-listed", BC, "", "", "C18.R5",
  edits=_ver("        text = MAX_ENUM_TO_VERSION.get(self.max_setting_enum) or PE_EXPORT_STAMP_TO_VERSION.get(self.pe_export_stamp) or \"Unknown\"\n"
             "        return BeaconVersion(text)\n"))
# a filter on a header field hidden behind a temporary is still a filter
M("C18", "mz-magic-filter-behind-temporary", PE, "", "", "C18.R3",
  edits=[(PE, MZ_LOOP, MZ_LOOP.replace("            if mz.e_lfanew > 0 and mz.e_lfanew < maxrange:\n", "            plausible = mz.e_magic == 0x5A4D and mz.e_lfanew > 0\n            if plausible and mz.e_lfanew < maxrange:\n"))])
VERSION_NONE_FALLBACK = (
    "        v = BeaconVersion.from_pe_export_stamp(self.pe_export_stamp) if self.pe_export_stamp else None\n"
    "        if v is None:\n"
    "            v = BeaconVersion.from_max_setting_enum(self.max_setting_enum)\n"
    "        return v\n"
)
T("C18", "twin-version-none-placeholder-then-enum", BC, VERSION_PROP, VERSION_NONE_FALLBACK)
T("C18", "twin-version-tables-through-module-alias", BC, "", "", edits=[
    (BC, VER_IMPORT, VER_IMPORT + "from dissect.cobaltstrike import version as _version\n"),
    (BC, VERSION_PROP, "        stamp = self.pe_export_stamp\n"
                       "        if not stamp:\n"
                       "            return BeaconVersion(_version.MAX_ENUM_TO_VERSION.get(self.max_setting_enum, \"Unknown\"))\n"
                       "        return BeaconVersion.from_pe_export_stamp(stamp)\n")])
M("C18", "unparsed-version-of-stamp-falls-back-to-enum", BC, VERSION_PROP, VERSION_NONE_FALLBACK.replace("if v is None:", "if v is None or v.tuple is None:"), "C18.R5")
M("C18", "walrus-chain-unlisted-stamp-falls-through", BC, "", "", "C18.R5",
  edits=_ver("        if (stamp := self.pe_export_stamp) and (text := PE_EXPORT_STAMP_TO_VERSION.get(stamp)):\n"
             "            return BeaconVersion(text)\n"
             "        return BeaconVersion.from_max_setting_enum(self.max_setting_enum)\n"))

# ----------------------------------------------------------------------------------------------- wave 3
# R3 EXIT: a candidate that is not reported must fall through to the next offset (prepended bytes may form earlier
# candidates with a plausible e_lfanew but another Machine): no `return None` / break / raise for it inside the loop
ARCH_ELSE_CONTINUE = ARCH_LOOP.replace(
    "                    return \"x86\"\n",
    "                    return \"x86\"\n                else:\n                    continue\n")
MZ_FLAG_BREAK = (
    "    start_offset = start_offset if start_offset is not None else fh.tell()\n"
    "    found = None\n"
    "    for offset in range(maxrange):\n"
    "        fh.seek(start_offset + offset, io.SEEK_SET)\n"
    "        try:\n"
    "            mz = pestruct.IMAGE_DOS_HEADER(fh)\n"
    "            if mz.e_lfanew > 0 and mz.e_lfanew < maxrange:\n"
    "                fh.seek(start_offset + offset + 4 + mz.e_lfanew)\n"
    "                image = pestruct.IMAGE_FILE_HEADER(fh)\n"
    "                if image.Machine in (pestruct.IMAGE_FILE_MACHINE_AMD64, pestruct.IMAGE_FILE_MACHINE_I386):\n"
    "                    found = start_offset + offset\n"
    "                    break\n"
    "        except EOFError:\n"
    "            continue\n"
    "    return found\n"
)
T("C18", "twin-arch-explicit-else-continue", PE, ARCH_LOOP, ARCH_ELSE_CONTINUE)
T("C18", "twin-scanner-result-local-and-break", PE, MZ_LOOP, MZ_FLAG_BREAK)
M("C18", "arch-unsupported-machine-returns-none-in-loop", PE, ARCH_LOOP, ARCH_ELSE_CONTINUE.replace("                    continue\n", "                    return None\n"), "C18.R3")
M("C18", "one-sided-guard-breaks-instead-of-continue", PE, MZ_LOOP, MZ_GUARDS.replace("                continue\n            fh.seek(candidate + lfanew + 4)", "                break\n            fh.seek(candidate + lfanew + 4)"), "C18.R3")
M("C18", "helper-gives-up-after-first-plausible-candidate", PE, "", "", "C18.R3", edits=_helper_edits(helper=HELPER.replace("            return where, machine\n", "            return where, machine\n        return None\n")))
M("C18", "module-table-arch-get-returned-unguarded", PE, "", "", "C18.R3",
  edits=_pe_table(ARCH_BY_MACHINE_PROXY, (ARCH_IF, "                return _ARCH_BY_MACHINE.get(image.Machine)\n"), proxy=True))
M("C18", "arch-eof-at-file-header-ends-scan", PE, ARCH_LOOP, ARCH_LOOP.replace("        except EOFError:\n            continue\n", "        except EOFError:\n            return None\n"), "C18.R3")
M("C18", "scanner-raises-on-unsupported-machine", PE, MZ_LOOP, MZ_LOOP.replace(
    "                    return start_offset + offset\n",
    "                    return start_offset + offset\n                raise ValueError(\"unsupported machine\")\n"), "C18.R3")
# R5 ALIAS: the version follows the export stamp the object holds when it is asked (pe_export_stamp is a plain attribute
# that BeaconConfig.from_file assigns after construction): a stored result must not be handed out again
CACHE_FIELDS = "        self._raw_settings_by_index: Optional[Mapping[int, Any]] = None\n"
VERSION_DEF = "    @property\n    def version(self) -> BeaconVersion:\n"
VERSION_MEMO_LOCAL = (
    "        cached = self._deduced\n"
    "        if cached is not None:\n"
    "            return cached\n"
    "        stamp = self.pe_export_stamp\n"
    "        cached = BeaconVersion.from_pe_export_stamp(stamp) if stamp else BeaconVersion.from_max_setting_enum(self.max_setting_enum)\n"
    "        self._deduced = cached\n"
    "        return cached\n"
)
VERSION_STORES_LAST = (
    "        if self.pe_export_stamp:\n"
    "            deduced = BeaconVersion.from_pe_export_stamp(self.pe_export_stamp)\n"
    "        else:\n"
    "            deduced = BeaconVersion.from_max_setting_enum(self.max_setting_enum)\n"
    "        self._deduced = deduced\n"
    "        return deduced\n"
)
STAMP_FIELD = "        self.pe_export_stamp: Optional[int] = None\n"
STAMP_PROPERTY = (
    "    @property\n"
    "    def pe_export_stamp(self) -> Optional[int]:\n"
    "        return self._pe_export_stamp\n"
    "\n"
    "    @pe_export_stamp.setter\n"
    "    def pe_export_stamp(self, value: Optional[int]) -> None:\n"
    "        self._pe_export_stamp = value\n"
    "        self._deduced = None\n"
    "\n"
)
T("C18", "twin-version-last-result-kept-but-recomputed", BC, "", "", edits=[(BC, CACHE_FIELDS, CACHE_FIELDS + "        self._deduced = None\n"), (BC, VERSION_PROP, VERSION_STORES_LAST)])
T("C18", "twin-version-memo-reset-by-stamp-setter-not-decided", BC, "", "", edits=[
    (BC, STAMP_FIELD, "        self._deduced = None\n        self._pe_export_stamp: Optional[int] = None\n"),
    (BC, VERSION_DEF, STAMP_PROPERTY + VERSION_DEF), (BC, VERSION_PROP, VERSION_MEMO_LOCAL)])
M("C18", "version-memoised-through-local", BC, "", "", "C18.R5", edits=[(BC, CACHE_FIELDS, CACHE_FIELDS + "        self._deduced = None\n"), (BC, VERSION_PROP, VERSION_MEMO_LOCAL)])
M("C18", "version-cached-property", BC, VERSION_DEF, "    @functools.cached_property\n    def version(self) -> BeaconVersion:\n", "C18.R5")
M("C18", "version-lru-cache-under-property", BC, VERSION_DEF, "    @property\n    @functools.lru_cache(maxsize=None)\n    def version(self) -> BeaconVersion:\n", "C18.R5")

# ----------------------------------------------------------------------------------------------- R6: the image end computed in several ways
# (wave 5) a position local with several definitions / a conditional expression: every way must be headers + the raw
# data of every entry (the empty table apart); one selected entry of the table is located and wrong
SECTIONS = "        sections = [pestruct.IMAGE_SECTION_HEADER(fh) for _ in range(image.NumberOfSections)]\n"
HEADERS = "        size = optional_header.SizeOfHeaders\n"
T("C18", "twin-size-sum-added-when-table-nonempty", PE, SIZE, HEADERS + SECTIONS + "        if len(sections) >= 1:\n            size += sum(s.SizeOfRawData for s in sections)\n")
T("C18", "twin-size-if-else-on-empty-table", PE, SIZE, SECTIONS + "        if sections:\n            size = optional_header.SizeOfHeaders + sum(s.SizeOfRawData for s in sections)\n        else:\n            size = optional_header.SizeOfHeaders\n")
T("C18", "twin-size-conditional-expression", PE, SIZE, SECTIONS + "        size = optional_header.SizeOfHeaders + sum(s.SizeOfRawData for s in sections) if sections else optional_header.SizeOfHeaders\n")
T("C18", "twin-size-conditional-summand", PE, SIZE, SECTIONS + "        size = optional_header.SizeOfHeaders + (sum(s.SizeOfRawData for s in sections) if image.NumberOfSections > 0 else 0)\n")
T("C18", "twin-size-per-machine-same-formula", PE, SIZE, SECTIONS + "        if image.Machine == pestruct.IMAGE_FILE_MACHINE_AMD64:\n            size = optional_header.SizeOfHeaders + sum(s.SizeOfRawData for s in sections)\n        else:\n            size = sum(s.SizeOfRawData for s in sections) + optional_header.SizeOfHeaders\n")
T("C18", "twin-size-single-entry-special-case-not-decided", PE, SIZE, SECTIONS + "        if image.NumberOfSections == 1:\n            size = optional_header.SizeOfHeaders + sections[0].SizeOfRawData\n        else:\n            size = optional_header.SizeOfHeaders + sum(s.SizeOfRawData for s in sections)\n")
T("C18", "twin-size-empty-table-guard-before-loop-not-decided", PE, SIZE, SECTIONS + "        if not sections:\n            size = optional_header.SizeOfHeaders\n        else:\n            size = optional_header.SizeOfHeaders\n            for section in sections:\n                size += section.SizeOfRawData\n")
M("C18", "end-from-first-entry-only", PE, SIZE, HEADERS + SECTIONS + "        if image.NumberOfSections:\n            size += sections[0].SizeOfRawData\n", "C18.R6")
M("C18", "end-from-last-entry-through-temporary", PE, SIZE, HEADERS + SECTIONS + "        if len(sections) > 0:\n            last = sections[len(sections) - 1]\n            size = last.PointerToRawData + last.SizeOfRawData\n", "C18.R6")
M("C18", "end-overwritten-per-entry-in-loop", PE, SIZE, HEADERS + SECTIONS + "        for section in sections:\n            size = section.PointerToRawData + section.SizeOfRawData\n", "C18.R6")
M("C18", "end-from-last-entry-conditional-expression", PE, SIZE, SECTIONS + "        size = sections[-1].PointerToRawData + sections[-1].SizeOfRawData if sections else optional_header.SizeOfHeaders\n", "C18.R6")
M("C18", "end-virtual-sizes-when-table-nonempty", PE, SIZE, HEADERS + SECTIONS + "        if sections:\n            size = optional_header.SizeOfHeaders + sum(s.VirtualSize for s in sections)\n", "C18.R6")
M("C18", "end-first-and-last-entry", PE, SIZE, HEADERS + SECTIONS + "        if sections:\n            size = sections[0].PointerToRawData + sections[-1].PointerToRawData - sections[0].PointerToRawData + sections[-1].SizeOfRawData\n", "C18.R6")

# ----------------------------------------------------------------------------------------------- R2: compile stamp survives a truncated image
# (wave 5) once the file header is parsed its stamp is reported even when a later header is cut short
STAMP = "        compile_stamp = image.TimeDateStamp\n"
EXPORT_DD = "        export_dd = optional_header.DataDirectory[pestruct.IMAGE_DIRECTORY_ENTRY_EXPORT]\n"
EOF_PASS = "        # truncated image: report the stamps found so far\n        pass\n    return (compile_stamp, export_stamp)\n"
T("C18", "twin-truncation-handler-returns-pair", PE, EOF_PASS, "        return (compile_stamp, export_stamp)\n    return (compile_stamp, export_stamp)\n")
T("C18", "twin-compile-stamp-through-temporary", PE, STAMP, "        stamp = image.TimeDateStamp\n        compile_stamp = stamp\n")
T("C18", "twin-compile-stamp-int-call-not-decided", PE, STAMP, "        compile_stamp = int(image.TimeDateStamp)\n")
M("C18", "compile-stamp-taken-after-optional-header", PE, "", "", "C18.R2", edits=[(PE, STAMP, ""), (PE, EXPORT_DD, STAMP + EXPORT_DD)])
M("C18", "compile-stamp-taken-after-section-table", PE, "", "", "C18.R2", edits=[(PE, STAMP, ""), (PE, EXPORT, EXPORT.replace("        ds = None\n", STAMP + "        ds = None\n", 1))])
M("C18", "truncation-handler-reports-nothing", PE, EOF_PASS, "        return (None, None)\n    return (compile_stamp, export_stamp)\n", "C18.R2")

# ----------------------------------------------------------------------------------------------- R1: signedness of the members the package reads
# (wave 7) a member of the right width but of a signed C type reports every value with the top bit set as a negative number;
# equivalent unsigned spellings (ntimage.h / winnt.h / stdint style names) are the same definition
FILE_STAMP = "    DWORD TimeDateStamp;\n    DWORD PointerToSymbolTable;\n"
SEC_SIZES = "    ULONG   SizeOfRawData;\n    ULONG   PointerToRawData;\n"
EXP_HEAD = "    ULONG   Characteristics;\n    ULONG   TimeDateStamp;\n    USHORT  MajorVersion;\n    USHORT  MinorVersion;\n"
DATA_DIR = "    ULONG   VirtualAddress;\n    ULONG   Size;\n"
T("C18", "twin-export-directory-winnt-type-names", PE, EXP_HEAD, "    DWORD   Characteristics;\n    DWORD   TimeDateStamp;\n    WORD    MajorVersion;\n    WORD    MinorVersion;\n")
T("C18", "twin-stdint-type-names", PE, "", "", edits=[(PE, FILE_STAMP, "    uint32 TimeDateStamp;\n    uint32 PointerToSymbolTable;\n"), (PE, SEC_SIZES, "    uint32  SizeOfRawData;\n    uint32  PointerToRawData;\n"), (PE, DATA_DIR, "    UINT    VirtualAddress;\n    UINT    Size;\n")])
T("C18", "twin-unread-member-signed", PE, "    DWORD PointerToSymbolTable;\n", "    LONG  PointerToSymbolTable;\n")
M("C18", "compile-stamp-member-signed", PE, FILE_STAMP, "    LONG  TimeDateStamp;\n    DWORD PointerToSymbolTable;\n", "C18.R1")
M("C18", "section-raw-size-member-signed", PE, SEC_SIZES, "    int32   SizeOfRawData;\n    ULONG   PointerToRawData;\n", "C18.R1")
M("C18", "section-count-member-signed", PE, "    WORD  NumberOfSections;\n", "    SHORT NumberOfSections;\n", "C18.R1")
M("C18", "export-rva-member-signed", PE, DATA_DIR, "    INT     VirtualAddress;\n    ULONG   Size;\n", "C18.R1")

# ----------------------------------------------------------------------------------------------- R7: the reported bytes are the bytes read
# (wave 8) NUL padding only ever follows the PE magic (left-aligned in the 4-byte signature field) and the stage append;
# the only operation that may shorten those values is the removal of trailing NUL bytes, and nothing may shorten the prepend
APPEND_READ = "    append = fh.read(1024) or None\n"
APPEND_TRIM = "    if append is not None:\n        append = append.rstrip(b\"\\x00\")\n"
MAGIC_PE_READ = "    magic_pe = fh.read(4).rstrip(b\"\\x00\")\n"
T("C18", "twin-padding-constant-and-helper", PE, "", "", edits=[
    (PE, "def find_mz_offset(", "PADDING = b\"\\x00\"\n\n\ndef _without_padding(data):\n    return data.rstrip(PADDING)\n\n\ndef find_mz_offset("),
    (PE, MAGIC_PE_READ, "    magic_pe = _without_padding(fh.read(4))\n"),
    (PE, APPEND_TRIM, "    if append is not None:\n        append = _without_padding(append)\n")])
T("C18", "twin-append-trim-conditional-expression", PE, APPEND_TRIM, "    append = append.rstrip(b\"\\0\") if append else None\n")
T("C18", "twin-append-trim-and-form", PE, "", "", edits=[(PE, APPEND_READ, "    append = fh.read(1024)\n"), (PE, APPEND_TRIM, "    append = (append and append.rstrip(b\"\\x00\")) or None\n")])
T("C18", "twin-append-trim-on-the-read", PE, "", "", edits=[(PE, APPEND_READ, "    data = fh.read(1024)\n    append = data.rstrip(b\"\\x00\\x00\") if data else None\n"), (PE, APPEND_TRIM, "")])
T("C18", "twin-append-trim-loop-not-decided", PE, APPEND_TRIM, "    while append is not None and append.endswith(b\"\\x00\"):\n        append = append[:-1]\n")
T("C18", "twin-magic-pe-bytes-copy", PE, MAGIC_PE_READ, "    raw = bytes(fh.read(4))\n    magic_pe = raw[:].rstrip(b\"\\x00\")\n")
T("C18", "twin-magic-pe-trim-by-index-loop-not-decided", PE, MAGIC_PE_READ, "    raw = fh.read(4)\n    end = len(raw)\n    while end and raw[end - 1] == 0:\n        end -= 1\n    magic_pe = raw[:end]\n")
M("C18", "magic-pe-leading-nuls-stripped", PE, MAGIC_PE_READ, "    magic_pe = fh.read(4).lstrip(b\"\\x00\").rstrip(b\"\\x00\")\n", "C18.R7")
M("C18", "magic-pe-whitespace-trimmed", PE, MAGIC_PE_READ, "    magic_pe = fh.read(4).rstrip(b\"\\x00\").rstrip()\n", "C18.R7")
M("C18", "magic-pe-trim-set-includes-data-bytes", PE, MAGIC_PE_READ, "    magic_pe = fh.read(4).rstrip(b\"\\x00 \")\n", "C18.R7")
M("C18", "append-strip-through-temporary", PE, APPEND_TRIM, "    if append is not None:\n        trimmed = append.strip(b\"\\x00\")\n        append = trimmed\n", "C18.R7")
M("C18", "append-trim-in-conditional-expression-strips-both-ends", PE, APPEND_TRIM, "    append = append.strip(b\"\\x00\") if append else None\n", "C18.R7")
M("C18", "append-first-byte-dropped", PE, APPEND_READ, "    append = fh.read(1025)[1:] or None\n", "C18.R7")
M("C18", "append-nop-sled-trimmed", PE, APPEND_TRIM, "    if append is not None:\n        append = append.rstrip(b\"\\x00\\x90\")\n", "C18.R7")
M("C18", "prepend-trailing-nuls-trimmed", PE, PREPEND, PREPEND.replace("fh.read(mz_offset)", "fh.read(mz_offset).rstrip(b\"\\x00\")"), "C18.R7")
M("C18", "prepend-stripped-on-return", PE, "    return (prepend, append)\n\n\ndef find_architecture", "    return (prepend and prepend.strip(b\"\\x00\"), append)\n\n\ndef find_architecture", "C18.R7")
