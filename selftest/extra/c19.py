"""C19 - additional mutants / twins: one twin per kind of refactoring the rules are robust against, one mutant per
restructured rule (rules/c19.py)."""

from selftest.corpus import M, T

F = "client.py"

# ---------------------------------------------------------------------------------------------- anchors (source text)
REG = "        if command_id not in self.task_map:\n            self.task_map[command_id] = []\n        self.task_map[command_id].append(func)\n"
GH_HEAD = "        on_handler = getattr(self, f\"on_{command_name}\", None)\n        handlers = list(self.task_map.get(command_id, []))\n"
GH_METHOD = "        # if there is a \"on_command\" handler, add it to the list\n        if on_handler:\n            handlers.append(on_handler)\n"
GH_FALL = ("        # if there is no handler, check if there is a catch all handler\n        if not handlers:\n"
           "            handlers = list(self.task_map.get(-1, []))\n            on_catch_all = getattr(self, \"on_catch_all\", None)\n"
           "            if on_catch_all:\n                handlers.append(on_catch_all)\n        return handlers\n")
ID_A = "        self.beacon_id = beacon_id if beacon_id is not None else (random.getrandbits(32) & 0x7FFFFFFF)\n"
ID_B = "        self.beacon_id = (self.beacon_id - self.beacon_id % 2) & 0xFFFFFFFF\n"
ID_C = "        if self.beacon_id > 0x7FFFFFFF:\n            raise ValueError(\"beacon_id must be less or equal than 2147483647\")\n"
SEED = "        random.seed(self.beacon_id ^ 0xACCE55ED)\n"
DRAW = "        self.aes_rand = random.getrandbits(128).to_bytes(16, \"big\")\n"
SLEEP = "        return self.sleeptime - random.uniform(0, self.sleeptime * self.jitter / 100)"
LOOP = ("            for handler in handlers:\n                if callable(handler):\n                    try:\n"
        "                        response = handler(task)\n                        if response:\n"
        "                            self.send_callback(*response)\n                    except Exception as e:\n                        logger.exception(e)\n")

# ---------------------------------------------------------------------------------------------- R1 register_task
T("C19", "twin-register-setdefault", F, REG, "        self.task_map.setdefault(command_id, []).append(func)\n")
T("C19", "twin-register-local-list", F, REG, "        registered = self.task_map.setdefault(command_id, [])\n        registered.append(func)\n")
T("C19", "twin-register-iadd", F, REG, "        if command_id not in self.task_map:\n            self.task_map[command_id] = []\n        self.task_map[command_id] += [func]\n")
T("C19", "twin-register-rebuild", F, REG, "        self.task_map[command_id] = self.task_map.get(command_id, []) + [func]\n")
T("C19", "twin-register-early-return", F, REG,
  "        if command_id in self.task_map:\n            self.task_map[command_id].append(func)\n            return\n        self.task_map[command_id] = []\n        self.task_map[command_id].append(func)\n")
M("C19", "register-replaces-handlers", F, REG, "        self.task_map[command_id] = [func]\n", "C19.R1")
M("C19", "register-twice", F, REG, "        self.task_map.setdefault(command_id, []).append(func)\n        self.task_map[command_id].append(func)\n", "C19.R1")
M("C19", "register-only-first", F, REG, "        if command_id not in self.task_map:\n            self.task_map[command_id] = []\n            self.task_map[command_id].append(func)\n", "C19.R1")
M("C19", "register-wrong-key", F, REG, "        self.task_map.setdefault(-1, []).append(func)\n", "C19.R1")
M("C19", "register-get-default-lost", F, REG, "        self.task_map.get(command_id, []).append(func)\n", "C19.R1")

# ---------------------------------------------------------------------------------------------- R2 get_handlers
# guard clause / early return, separate local for the fallback
T("C19", "twin-fallback-guard-clause", F, GH_FALL,
  "        if handlers:\n            return handlers\n        fallback = list(self.task_map.get(-1, []))\n        on_catch_all = getattr(self, \"on_catch_all\", None)\n"
  "        if on_catch_all:\n            fallback.append(on_catch_all)\n        return fallback\n")
# explicit length test, mirrored
T("C19", "twin-fallback-len-test", F, "        if not handlers:\n            handlers = list(self.task_map.get(-1, []))", "        if 0 == len(handlers):\n            handlers = list(self.task_map.get(-1, []))")
# conditional expression instead of if statement
T("C19", "twin-fallback-ifexp", F, GH_FALL,
  "        on_catch_all = getattr(self, \"on_catch_all\", None) if not handlers else None\n"
  "        handlers = handlers if handlers else list(self.task_map.get(-1, []))\n"
  "        if on_catch_all:\n            handlers.append(on_catch_all)\n        return handlers\n")
# catch-all values computed apart, selected by `or`
T("C19", "twin-fallback-or-selection", F, GH_FALL,
  "        catch_all = list(self.task_map.get(-1, []))\n        on_catch_all = getattr(self, \"on_catch_all\", None)\n"
  "        if on_catch_all:\n            catch_all.append(on_catch_all)\n        return handlers or catch_all\n")
# specific sources gathered in one expression, renamed accumulator, subscript lookup
T("C19", "twin-specific-one-expression", F, GH_HEAD + "\n" + GH_METHOD,
  "        on_handler = getattr(self, f\"on_{command_name}\", None)\n        handlers = list(self.task_map.get(command_id, [])) + ([on_handler] if on_handler else [])\n")
T("C19", "twin-specific-subscript-lookup", F, "        handlers = list(self.task_map.get(command_id, []))\n",
  "        handlers = list(self.task_map[command_id]) if command_id in self.task_map else []\n")
# string building of the method name
T("C19", "twin-method-name-concat", F, "        on_handler = getattr(self, f\"on_{command_name}\", None)\n", "        method_name = \"on_\" + command_name\n        on_handler = getattr(self, method_name, None)\n")
M("C19", "fallback-tests-registered-only", F, "", "", "C19.R2",
  edits=[(F, "        handlers = list(self.task_map.get(command_id, []))\n", "        registered = list(self.task_map.get(command_id, []))\n        handlers = list(registered)\n"),
         (F, "        if not handlers:\n            handlers = list(self.task_map.get(-1, []))", "        if not registered:\n            handlers = handlers + list(self.task_map.get(-1, []))")])
M("C19", "guard-clause-method-handler-late", F, GH_METHOD + "\n" + GH_FALL,
  "        if handlers:\n            return handlers\n        fallback = list(self.task_map.get(-1, []))\n        on_catch_all = getattr(self, \"on_catch_all\", None)\n"
  "        if on_catch_all:\n            fallback.append(on_catch_all)\n        if on_handler:\n            fallback.append(on_handler)\n        return fallback\n", "C19.R2")
M("C19", "or-selection-always-adds-catch-all", F, GH_FALL,
  "        catch_all = list(self.task_map.get(-1, []))\n        on_catch_all = getattr(self, \"on_catch_all\", None)\n"
  "        if on_catch_all:\n            catch_all.append(on_catch_all)\n        return handlers + catch_all\n", "C19.R2")
M("C19", "on-catch-all-unconditional", F, GH_FALL,
  "        if not handlers:\n            handlers = list(self.task_map.get(-1, []))\n        on_catch_all = getattr(self, \"on_catch_all\", None)\n"
  "        if on_catch_all:\n            handlers.append(on_catch_all)\n        return handlers\n", "C19.R2")
M("C19", "specific-lookup-dropped", F, "        handlers = list(self.task_map.get(command_id, []))\n", "        handlers = []\n", "C19.R2")

# ---------------------------------------------------------------------------------------------- R2 _beacon_loop
T("C19", "twin-loop-inline-get-handlers", F, "            handlers = self.get_handlers(command_id)\n            for handler in handlers:\n", "            for handler in self.get_handlers(command_id):\n")
T("C19", "twin-loop-continue-guards", F, LOOP,
  "            for handler in handlers:\n                if not callable(handler):\n                    continue\n                try:\n"
  "                    response = handler(task)\n                    if not response:\n                        continue\n"
  "                    self.send_callback(*response)\n                except Exception as e:\n                    logger.exception(e)\n")
T("C19", "twin-loop-unpacked-response", F, "                        if response:\n                            self.send_callback(*response)\n",
  "                        if response:\n                            callback_id, data = response\n                            self.send_callback(callback_id, data)\n")
T("C19", "twin-loop-command-local", F, "            command_id = task.command.value if task else None\n", "            command = task.command if task else None\n            command_id = command.value if command is not None else None\n")
M("C19", "dispatch-list-doubled", F, "            for handler in handlers:\n", "            for handler in handlers + handlers:\n", "C19.R2")
M("C19", "dispatch-retry-second-call", F, "                        response = handler(task)\n                        if response:",
  "                        response = handler(task)\n                        if not response:\n                            response = handler(task)\n                        if response:", "C19.R2")
M("C19", "callback-unguarded", F, "                        if response:\n                            self.send_callback(*response)\n", "                        self.send_callback(*response)\n", "C19.R2")
M("C19", "command-id-constant", F, "            command_id = task.command.value if task else None\n", "            command_id = task.size if task else None\n", "C19.R2")

# ---------------------------------------------------------------------------------------------- R3 beacon id
T("C19", "twin-id-chained-range-check", F, ID_C, "        if not 0 <= self.beacon_id <= 0x7FFFFFFF:\n            raise ValueError(\"beacon_id must be less or equal than 2147483647\")\n")
T("C19", "twin-id-if-statement-local", F, ID_A + ID_B + ID_C,
  "        if beacon_id is None:\n            beacon_id = random.getrandbits(32) & 0x7FFFFFFF\n        self.beacon_id = beacon_id\n"
  "        self.beacon_id = self.beacon_id & ~1 & 0xFFFFFFFF\n        if self.beacon_id > 0x7FFFFFFF:\n            raise ValueError(\"beacon_id must be less or equal than 2147483647\")\n")
T("C19", "twin-id-parity-branch", F, ID_B, "        if self.beacon_id % 2:\n            self.beacon_id -= 1\n        self.beacon_id = self.beacon_id & 0xFFFFFFFF\n")
T("C19", "twin-id-xor-low-bit", F, ID_B, "        self.beacon_id = (self.beacon_id ^ (self.beacon_id & 1)) & 0xFFFFFFFF\n")
T("C19", "twin-id-shift-pair", F, ID_B, "        self.beacon_id = ((self.beacon_id >> 1) << 1) & 0xFFFFFFFF\n")
T("C19", "twin-bid-constructor-kwarg", F, "", "",
  edits=[(F, "        self.metadata = BeaconMetadata()\n", "        self.metadata = BeaconMetadata(bid=self.beacon_id)\n"), (F, "        self.metadata.bid = self.beacon_id\n", "")])
T("C19", "twin-callback-id-fstring", F, "                id=str(self.beacon_id).encode(),\n", "                id=f\"{self.beacon_id}\".encode(),\n")
M("C19", "id-range-check-off-by-bit", F, ID_C, "        if not 0 <= self.beacon_id <= 0xFFFFFFFF:\n            raise ValueError(\"beacon_id must be less or equal than 2147483647\")\n", "C19.R3")
M("C19", "id-parity-branch-wrong-way", F, ID_B, "        if self.beacon_id % 2 == 0:\n            self.beacon_id -= 1\n        self.beacon_id = self.beacon_id & 0xFFFFFFFF\n", "C19.R3")
M("C19", "id-sets-low-bit", F, ID_B, "        self.beacon_id = (self.beacon_id | 1) & 0xFFFFFFFF\n", "C19.R3")
M("C19", "bid-raw-parameter", F, "        self.metadata.bid = self.beacon_id\n", "        self.metadata.bid = beacon_id or self.beacon_id\n", "C19.R3")
M("C19", "callback-id-is-pid", F, "                id=str(self.beacon_id).encode(),\n", "                id=str(self.pid).encode(),\n", "C19.R3")

# ---------------------------------------------------------------------------------------------- R4 seed -> aes_rand
T("C19", "twin-seed-local-draw-local", F, SEED + DRAW,
  "        seed = self.beacon_id ^ 0xACCE55ED\n        random.seed(seed)\n        aes_rand = random.getrandbits(128)\n        self.aes_rand = aes_rand.to_bytes(16, \"big\")\n")
T("C19", "twin-draw-keyword-arguments", F, DRAW, "        self.aes_rand = random.getrandbits(8 * 16).to_bytes(length=16, byteorder=\"big\")\n")
T("C19", "twin-normalised-id-in-local", F, "", "",
  edits=[(F, ID_A + ID_B + ID_C,
          "        if beacon_id is None:\n            beacon_id = random.getrandbits(32) & 0x7FFFFFFF\n        bid = (beacon_id - beacon_id % 2) & 0xFFFFFFFF\n"
          "        if bid > 0x7FFFFFFF:\n            raise ValueError(\"beacon_id must be less or equal than 2147483647\")\n        self.beacon_id = bid\n"),
         (F, SEED, "        random.seed(bid ^ 0xACCE55ED)\n")])
M("C19", "seed-removed", F, SEED, "", "C19.R4")
M("C19", "seed-after-draw", F, SEED + DRAW, DRAW + SEED, "C19.R4")
M("C19", "seed-before-normalisation", F, "", "", "C19.R4", edits=[(F, SEED, ""), (F, ID_B, "        random.seed(self.beacon_id ^ 0xACCE55ED)\n" + ID_B)])
M("C19", "seed-conditional", F, SEED, "        if beacon_id is not None:\n            random.seed(self.beacon_id ^ 0xACCE55ED)\n", "C19.R4")
M("C19", "draw-through-local-random-between", F, SEED + DRAW,
  SEED + "        self.pid = pid or random.randrange(1000, 5000)\n        aes_rand = random.getrandbits(128)\n        self.aes_rand = aes_rand.to_bytes(16, \"big\")\n", "C19.R4")
M("C19", "draw-short-width", F, DRAW, "        self.aes_rand = random.getrandbits(128).to_bytes(17, \"big\")[1:].lstrip(b\"\\x00\")\n", "C19.R4")
M("C19", "draw-from-system-random", F, DRAW, "        self.aes_rand = random.SystemRandom().getrandbits(128).to_bytes(16, \"big\")\n", "C19.R4")

# ---------------------------------------------------------------------------------------------- R5 info bytes
T("C19", "twin-info-truncate-in-two-steps", F, "        info_bytes = info.encode()[:51]\n", "        info_bytes = info.encode()\n        if len(info_bytes) > 51:\n            info_bytes = info_bytes[:51]\n")
T("C19", "twin-info-constructor-kwarg", F, "", "",
  edits=[(F, "        self.metadata = BeaconMetadata()\n", "        self.metadata = BeaconMetadata(info=info_bytes)\n"), (F, "        self.metadata.info = info_bytes\n", "")])
M("C19", "info-limit-too-large", F, "        info_bytes = info.encode()[:51]\n", "        info_bytes = info.encode()[:64]\n", "C19.R5")
M("C19", "info-kwarg-untruncated", F, "", "", "C19.R5",
  edits=[(F, "        self.metadata = BeaconMetadata()\n", "        self.metadata = BeaconMetadata(info=info.encode())\n"), (F, "        self.metadata.info = info_bytes\n", "")])

# ---------------------------------------------------------------------------------------------- R6 sleep time
T("C19", "twin-sleep-max-jitter-local", F, SLEEP, "        max_jitter = self.sleeptime * self.jitter / 100\n        return self.sleeptime - random.uniform(0, max_jitter)")
T("C19", "twin-sleep-factor-form", F, SLEEP, "        return self.sleeptime * (1 - random.uniform(0, self.jitter / 100))")
T("C19", "twin-sleep-band-form", F, SLEEP, "        return random.uniform(self.sleeptime - self.sleeptime * self.jitter / 100, self.sleeptime)")
T("C19", "twin-sleep-settings-two-steps", F, "        self.sleeptime: int = self.bconfig.settings[\"SETTING_SLEEPTIME\"] if sleeptime is None else sleeptime\n",
  "        default_sleeptime = self.bconfig.settings[\"SETTING_SLEEPTIME\"]\n        self.sleeptime = sleeptime\n        if self.sleeptime is None:\n            self.sleeptime = default_sleeptime\n")
M("C19", "sleep-jitter-not-percent", F, SLEEP, "        return self.sleeptime - random.uniform(0, self.sleeptime * self.jitter)", "C19.R6")
M("C19", "sleep-band-above", F, SLEEP, "        return random.uniform(self.sleeptime, self.sleeptime + self.sleeptime * self.jitter / 100)", "C19.R6")
M("C19", "sleeptime-from-jitter-setting", F, "        self.sleeptime: int = self.bconfig.settings[\"SETTING_SLEEPTIME\"] if sleeptime is None else sleeptime\n",
  "        self.sleeptime: int = self.bconfig.settings[\"SETTING_JITTER\"] if sleeptime is None else sleeptime\n", "C19.R6")

# ---------------------------------------------------------------------------------------------- helper extraction (new helpers are inlined by the normaliser; what cannot be inlined must end undecided, not violated)
T("C19", "twin-fallback-helper-extracted", F, "", "",
  edits=[(F, "    def get_handlers(self, command_id: Union[int, None]) -> List[Callable]:\n",
          "    def _catch_all_handlers(self) -> List[Callable]:\n        found = list(self.task_map.get(-1, []))\n        on_catch_all = getattr(self, \"on_catch_all\", None)\n"
          "        if on_catch_all:\n            found.append(on_catch_all)\n        return found\n\n    def get_handlers(self, command_id: Union[int, None]) -> List[Callable]:\n"),
         (F, GH_FALL, "        if not handlers:\n            handlers = self._catch_all_handlers()\n        return handlers\n")])
T("C19", "twin-fallback-guard-clause-same-name", F, GH_FALL,
  "        if len(handlers) > 0:\n            return handlers\n        handlers = list(self.task_map.get(-1, []))\n        on_catch_all = getattr(self, \"on_catch_all\", None)\n"
  "        if on_catch_all:\n            handlers.append(on_catch_all)\n        return handlers\n")
T("C19", "twin-register-get-or-create", F, REG,
  "        registered = self.task_map.get(command_id)\n        if registered is None:\n            registered = self.task_map[command_id] = []\n        registered.append(func)\n")
T("C19", "twin-id-normaliser-helper", F, "", "",
  edits=[(F, "    def get_sleep_time(self) -> float:\n",
          "    @staticmethod\n    def _normalise_beacon_id(beacon_id: int) -> int:\n        beacon_id = (beacon_id - beacon_id % 2) & 0xFFFFFFFF\n        if beacon_id > 0x7FFFFFFF:\n"
          "            raise ValueError(\"beacon_id must be less or equal than 2147483647\")\n        return beacon_id\n\n    def get_sleep_time(self) -> float:\n"),
         (F, ID_B + ID_C, "        self.beacon_id = self._normalise_beacon_id(self.beacon_id)\n")])
T("C19", "twin-dispatch-helper-extracted", F, "", "",
  edits=[(F, "    def _beacon_loop(self):\n",
          "    def _dispatch(self, task, handlers):\n        for handler in handlers:\n            if callable(handler):\n                try:\n                    response = handler(task)\n"
          "                    if response:\n                        self.send_callback(*response)\n                except Exception as e:\n                    logger.exception(e)\n\n    def _beacon_loop(self):\n"),
         (F, LOOP, "            self._dispatch(task, handlers)\n")])
T("C19", "twin-session-keys-helper", F, "", "",
  edits=[(F, "    def get_sleep_time(self) -> float:\n",
          "    def _derive_aes_rand(self) -> bytes:\n        random.seed(self.beacon_id ^ 0xACCE55ED)\n        return random.getrandbits(128).to_bytes(16, \"big\")\n\n    def get_sleep_time(self) -> float:\n"),
         (F, SEED + DRAW, "        self.aes_rand = self._derive_aes_rand()\n")])
T("C19", "twin-info-helper", F, "", "",
  edits=[(F, "    def get_sleep_time(self) -> float:\n",
          "    @staticmethod\n    def _info_bytes(computer: str, user: str, process: str) -> bytes:\n        return f\"{computer}\\t{user}\\t{process}\".encode()[:51]\n\n    def get_sleep_time(self) -> float:\n"),
         (F, "        info = f\"{self.computer}\\t{self.user}\\t{self.process}\"\n\n        # info cannot be larger than 51 bytes, truncate it to be sure.\n        info_bytes = info.encode()[:51]\n",
          "        info_bytes = self._info_bytes(self.computer, self.user, self.process)\n")])

# ---------------------------------------------------------------------------------------------- more spellings of the same kinds
T("C19", "twin-id-range-power", F, ID_C, "        if self.beacon_id >= 2**31:\n            raise ValueError(\"beacon_id must be less or equal than 2147483647\")\n")
T("C19", "twin-id-range-in-range", F, ID_C, "        if self.beacon_id not in range(0x80000000):\n            raise ValueError(\"beacon_id must be less or equal than 2147483647\")\n")
T("C19", "twin-id-range-high-bit", F, ID_C, "        if self.beacon_id >> 31:\n            raise ValueError(\"beacon_id must be less or equal than 2147483647\")\n")
T("C19", "twin-id-range-sign-bit-mask", F, ID_C, "        if self.beacon_id & 0x80000000:\n            raise ValueError(\"beacon_id must be less or equal than 2147483647\")\n")
M("C19", "id-range-power-off-by-one", F, ID_C, "        if self.beacon_id >= 2**32:\n            raise ValueError(\"beacon_id must be less or equal than 2147483647\")\n", "C19.R3")
M("C19", "id-range-high-bit-wrong-shift", F, ID_C, "        if self.beacon_id >> 32:\n            raise ValueError(\"beacon_id must be less or equal than 2147483647\")\n", "C19.R3")
T("C19", "twin-catch-all-class-constant", F, "", "",
  edits=[(F, "    def get_handlers(self, command_id: Union[int, None]) -> List[Callable]:\n", "    CATCH_ALL = -1\n\n    def get_handlers(self, command_id: Union[int, None]) -> List[Callable]:\n"),
         (F, "            handlers = list(self.task_map.get(-1, []))\n", "            handlers = list(self.task_map.get(self.CATCH_ALL, []))\n"),
         (F, "            self.register_task(-1, func)\n", "            self.register_task(self.CATCH_ALL, func)\n")])
T("C19", "twin-on-catch-all-hasattr", F, "            on_catch_all = getattr(self, \"on_catch_all\", None)\n            if on_catch_all:\n                handlers.append(on_catch_all)\n",
  "            if hasattr(self, \"on_catch_all\") and self.on_catch_all:\n                handlers.append(self.on_catch_all)\n")
T("C19", "twin-loop-filter-callable", F, "            for handler in handlers:\n                if callable(handler):\n", "            for handler in filter(callable, handlers):\n                if True:\n")
T("C19", "twin-loop-keyword-task", F, "                        response = handler(task)\n", "                        response = handler(task=task)\n")
M("C19", "dispatch-chain-twice", F, "            for handler in handlers:\n", "            for handler in [*handlers, *handlers]:\n", "C19.R2")
T("C19", "twin-seed-mask-class-constant", F, "", "",
  edits=[(F, "    def get_sleep_time(self) -> float:\n", "    AES_RAND_SEED_MASK = 0xACCE55ED\n\n    def get_sleep_time(self) -> float:\n"),
         (F, SEED, "        random.seed(self.beacon_id ^ self.AES_RAND_SEED_MASK)\n")])
M("C19", "seed-local-rebound-before-seed", F, "", "", "C19.R4",
  edits=[(F, ID_A + ID_B + ID_C,
          "        if beacon_id is None:\n            beacon_id = random.getrandbits(32) & 0x7FFFFFFF\n        bid = beacon_id\n        beacon_id = (bid - bid % 2) & 0xFFFFFFFF\n"
          "        if beacon_id > 0x7FFFFFFF:\n            raise ValueError(\"beacon_id must be less or equal than 2147483647\")\n        self.beacon_id = beacon_id\n        beacon_id = bid\n"),
         (F, SEED, "        random.seed(beacon_id ^ 0xACCE55ED)\n")])

# ---------------------------------------------------------------------------------------------- R5: other ways of building / encoding / slicing the info string
INFO = "        info = f\"{self.computer}\\t{self.user}\\t{self.process}\"\n"
INFO_BYTES = "        info_bytes = info.encode()[:51]\n"
T("C19", "twin-info-str-format-explicit-codec", F, "", "",
  edits=[(F, INFO, "        info = \"{}\\t{}\\t{}\".format(self.computer, self.user, self.process)\n"), (F, INFO_BYTES, "        info_bytes = info.encode(\"utf-8\")[0:51]\n")])
T("C19", "twin-info-join-bytes-constructor", F, "", "",
  edits=[(F, INFO, "        info = \"\\t\".join([self.computer, self.user, self.process])\n"), (F, INFO_BYTES, "        info_bytes = bytes(info, \"utf-8\")[:51:1]\n")])
T("C19", "twin-info-percent-format", F, INFO, "        info = \"%s\\t%s\\t%s\" % (self.computer, self.user, self.process)\n")
# an encoder the length domain does not model: the slice still bounds the length (kind unknown) / no bound -> undecided
T("C19", "twin-info-memoryview-slice", F, INFO_BYTES, "        info_bytes = bytes(memoryview(info.encode())[:51])\n")
M("C19", "info-format-limit-too-large", F, "", "", "C19.R5",
  edits=[(F, INFO, "        info = \"{}\\t{}\\t{}\".format(self.computer, self.user, self.process)\n"), (F, INFO_BYTES, "        info_bytes = info.encode(\"utf-8\")[0:64]\n")])
M("C19", "info-truncates-characters-not-bytes", F, "", "", "C19.R5",
  edits=[(F, INFO, "        info = \"\\t\".join([self.computer, self.user, self.process])\n"), (F, INFO_BYTES, "        info_bytes = info[:51].encode(\"utf-8\")\n")])

# ---------------------------------------------------------------------------------------------- R7: the on_<command> method name, per BeaconCommand member
GH_NAME = "            command_name = task.name.replace(\"COMMAND_\", \"\").lower() if task else \"empty_task\"\n"
T("C19", "twin-method-name-removeprefix", F, GH_NAME, "            command_name = task.name.removeprefix(\"COMMAND_\").lower() if task else \"empty_task\"\n")
T("C19", "twin-method-name-prefix-slice", F, GH_NAME, "            command_name = task.name[len(\"COMMAND_\"):].lower() if task else \"empty_task\"\n")
T("C19", "twin-method-name-lower-first", F, GH_NAME, "            command_name = task.name.lower().replace(\"command_\", \"\") if task else \"empty_task\"\n")
T("C19", "twin-method-name-partition", F, GH_NAME, "            command_name = task.name.partition(\"_\")[2].lower() if task else \"empty_task\"\n")
T("C19", "twin-method-name-if-statements", F,
  "        if command_id is not None:\n            task = BeaconCommand(command_id)\n" + GH_NAME + "        else:\n            command_name = \"empty_task\"\n",
  "        if command_id is None:\n            command_name = \"empty_task\"\n        else:\n            task = BeaconCommand(command_id)\n            if task:\n"
  "                command_name = task.name.replace(\"COMMAND_\", \"\").lower()\n            else:\n                command_name = \"empty_task\"\n")
T("C19", "twin-method-name-percent-format", F, "        on_handler = getattr(self, f\"on_{command_name}\", None)\n", "        on_handler = getattr(self, \"on_%s\" % command_name, None)\n")
M("C19", "method-name-slice-off-by-one", F, GH_NAME, "            command_name = task.name[len(\"COMMAND\"):].lower() if task else \"empty_task\"\n", "C19.R7")
M("C19", "method-name-first-word-only", F, GH_NAME, "            command_name = task.name.split(\"_\")[1].lower() if task else \"empty_task\"\n", "C19.R7")
M("C19", "method-name-not-lowered", F, GH_NAME, "            command_name = task.name.replace(\"COMMAND_\", \"\") if task else \"empty_task\"\n", "C19.R7")
M("C19", "method-name-prefix-without-underscore", F, "        on_handler = getattr(self, f\"on_{command_name}\", None)\n", "        on_handler = getattr(self, f\"on{command_name}\", None)\n", "C19.R7")

# ---------------------------------------------------------------------------------------------- R8: a given override (also 0) is the value the client sleeps by
SET_SLEEP = "        self.sleeptime: int = self.bconfig.settings[\"SETTING_SLEEPTIME\"] if sleeptime is None else sleeptime\n"
SET_JITTER = "        self.jitter: int = self.bconfig.settings[\"SETTING_JITTER\"] if jitter is None else jitter\n"
# the selection is decided by None-ness: other orientation, parameter rebound by an if statement, settings in a local, default with its own fallback
T("C19", "twin-override-not-none-first", F, SET_JITTER, "        self.jitter: int = jitter if jitter is not None else self.bconfig.settings[\"SETTING_JITTER\"]\n")
T("C19", "twin-override-parameter-rebound", F, SET_SLEEP,
  "        if sleeptime is None:\n            sleeptime = self.bconfig.settings[\"SETTING_SLEEPTIME\"]\n        self.sleeptime: int = sleeptime\n")
T("C19", "twin-override-default-first-then-given", F, SET_JITTER,
  "        beacon_settings = self.bconfig.settings\n        self.jitter = beacon_settings[\"SETTING_JITTER\"]\n        if jitter is not None:\n            self.jitter = jitter\n")
T("C19", "twin-override-default-with-own-fallback", F, SET_JITTER,
  "        self.jitter: int = (self.bconfig.settings[\"SETTING_JITTER\"] or 0) if jitter is None else int(jitter)\n")
T("C19", "twin-override-range-validated", F, SET_JITTER,
  "        if jitter is not None and not 0 <= jitter <= 100:\n            raise ValueError(\"jitter must be a percentage\")\n" + SET_JITTER)
# the selection is decided by a test that the given number 0 fails
M("C19", "override-truthiness-conditional", F, SET_JITTER, "        self.jitter: int = jitter if jitter else self.bconfig.settings[\"SETTING_JITTER\"]\n", "C19.R8")
M("C19", "override-truthiness-statement", F, SET_SLEEP,
  "        self.sleeptime: int = self.bconfig.settings[\"SETTING_SLEEPTIME\"]\n        if sleeptime:\n            self.sleeptime = sleeptime\n", "C19.R8")
M("C19", "override-positive-only", F, SET_JITTER,
  "        use_override = jitter is not None and jitter > 0\n        self.jitter: int = jitter if use_override else self.bconfig.settings[\"SETTING_JITTER\"]\n", "C19.R8")
M("C19", "override-parameter-rebound-by-truthiness", F, SET_SLEEP,
  "        if not sleeptime:\n            sleeptime = self.bconfig.settings[\"SETTING_SLEEPTIME\"]\n        self.sleeptime: int = sleeptime\n", "C19.R8")
M("C19", "override-ignored", F, SET_JITTER, "        self.jitter: int = self.bconfig.settings[\"SETTING_JITTER\"]\n", "C19.R8")
T("C19", "twin-override-helper-extracted", F, "", "",
  edits=[(F, "    def get_sleep_time(self) -> float:\n",
          "    @staticmethod\n    def _given_or(override, default):\n        return default if override is None else override\n\n    def get_sleep_time(self) -> float:\n"),
         (F, SET_SLEEP, "        self.sleeptime: int = self._given_or(sleeptime, self.bconfig.settings[\"SETTING_SLEEPTIME\"])\n"),
         (F, SET_JITTER, "        self.jitter: int = self._given_or(jitter, self.bconfig.settings[\"SETTING_JITTER\"])\n")])
T("C19", "twin-override-tuple-assignment", F, SET_SLEEP + SET_JITTER,
  "        beacon_settings = self.bconfig.settings\n        self.sleeptime, self.jitter = (\n            beacon_settings[\"SETTING_SLEEPTIME\"] if sleeptime is None else sleeptime,\n"
  "            beacon_settings[\"SETTING_JITTER\"] if None is jitter else jitter,\n        )\n")
M("C19", "override-swapped-parameters", F, SET_JITTER, "        self.jitter: int = self.bconfig.settings[\"SETTING_JITTER\"] if jitter is None else sleeptime\n", "C19.R8")
M("C19", "override-helper-tests-truthiness", F, "", "", "C19.R8",
  edits=[(F, "    def get_sleep_time(self) -> float:\n",
          "    @staticmethod\n    def _given_or(override, default):\n        return override if override else default\n\n    def get_sleep_time(self) -> float:\n"),
         (F, SET_SLEEP, "        self.sleeptime: int = self._given_or(sleeptime, self.bconfig.settings[\"SETTING_SLEEPTIME\"])\n")])

# ---------------------------------------------------------------------------------------------- R9: the registration decorators hand back the function and register it once under their key
H_DEC = ("        def decorator(func):\n            logger.debug(\"register_task %s -> %s\", command, func)\n            value = command\n"
         "            if command and not isinstance(command, int):\n                value = command.value\n            self.register_task(value, func)\n            return func\n\n        return decorator\n")
C_DEC = "        def decorator(func):\n            self.register_task(-1, func)\n            return func\n\n        return decorator\n"
H_KEY = "            value = command\n            if command and not isinstance(command, int):\n                value = command.value\n            self.register_task(value, func)\n"
# the key computed in the factory, the decorator a lambda that registers and yields its argument
T("C19", "twin-decorator-lambda-key-in-factory", F, H_DEC,
  "        value = command\n        if command and not isinstance(command, int):\n            value = command.value\n"
  "        return lambda func: (self.register_task(value, func), func)[1]\n")
T("C19", "twin-decorator-lambda-or", F, C_DEC, "        return lambda func: self.register_task(-1, func) or func\n")
# catch_all() delegates to the general front end
T("C19", "twin-catch-all-delegates-to-handle", F, C_DEC, "        return self.handle(-1)\n")
# register_task hands the handler back, the decorators are partial applications of it
T("C19", "twin-register-returns-handler-partial-decorators", F, "", "",
  edits=[(F, REG, REG + "        return func\n"),
         (F, H_DEC, "        value = command\n        if command and not isinstance(command, int):\n            value = command.value\n        return functools.partial(self.register_task, value)\n"),
         (F, C_DEC, "        return functools.partial(self.register_task, -1)\n"),
         (F, "import hashlib\n", "import functools\nimport hashlib\n")])
T("C19", "twin-register-returns-handler-tail-call", F, "", "",
  edits=[(F, REG, REG + "        return func\n"), (F, "            self.register_task(-1, func)\n            return func\n", "            return self.register_task(-1, func)\n")])
# a registering helper method bound with partial
T("C19", "twin-decorator-partial-of-helper-method", F, "", "",
  edits=[(F, "    def handle(self, command: Union[None, int, BeaconCommand]):\n",
          "    def _register_and_return(self, key, func):\n        self.register_task(key, func)\n        return func\n\n    def handle(self, command: Union[None, int, BeaconCommand]):\n"),
         (F, C_DEC, "        return functools.partial(self._register_and_return, -1)\n"),
         (F, "import hashlib\n", "import functools\nimport hashlib\n")])
# key as a conditional expression, keyword arguments, validation that raises
T("C19", "twin-decorator-key-ifexp-keywords", F, H_KEY,
  "            is_member = bool(command) and not isinstance(command, int)\n            self.register_task(func=func, command_id=command.value if is_member else command)\n")
T("C19", "twin-decorator-validates-callable", F, "            self.register_task(-1, func)\n            return func\n",
  "            if not callable(func):\n                raise TypeError(\"handler must be callable\")\n            self.register_task(-1, func)\n            return func\n")
T("C19", "twin-decorator-named-result", F, "            self.register_task(-1, func)\n            return func\n", "            handler = func\n            self.register_task(-1, handler)\n            return handler\n")
# the decorated name is replaced by something that is not the function
M("C19", "decorator-returns-registration-result", F, "            self.register_task(value, func)\n            return func\n", "            return self.register_task(value, func)\n", "C19.R9")
M("C19", "catch-all-decorator-returns-nothing", F, "            self.register_task(-1, func)\n            return func\n", "            self.register_task(-1, func)\n", "C19.R9")
M("C19", "decorator-lambda-yields-none", F, C_DEC, "        return lambda func: self.register_task(-1, func)\n", "C19.R9")
M("C19", "decorator-partial-of-helper-without-result", F, "", "", "C19.R9",
  edits=[(F, "    def handle(self, command: Union[None, int, BeaconCommand]):\n",
          "    def _register_logged(self, key, func):\n        logger.debug(\"register_task %s -> %s\", key, func)\n        self.register_task(key, func)\n\n    def handle(self, command: Union[None, int, BeaconCommand]):\n"),
         (F, C_DEC, "        return functools.partial(self._register_logged, -1)\n"),
         (F, "import hashlib\n", "import functools\nimport hashlib\n")])
M("C19", "decorator-returns-only-first-registration", F, "            self.register_task(value, func)\n            return func\n",
  "            first = value not in self.task_map\n            self.register_task(value, func)\n            return func if first else None\n", "C19.R9")
# the registration itself
M("C19", "decorator-registers-only-truthy-command", F, "            self.register_task(value, func)\n", "            if value:\n                self.register_task(value, func)\n", "C19.R9")
M("C19", "decorator-registers-twice", F, "            self.register_task(-1, func)\n            return func\n", "            self.register_task(-1, func)\n            self.register_task(-1, func)\n            return func\n", "C19.R9")
M("C19", "decorator-registers-the-decorator", F, "            self.register_task(-1, func)\n            return func\n", "            self.register_task(-1, decorator)\n            return func\n", "C19.R9")
M("C19", "decorator-arguments-swapped", F, "            self.register_task(-1, func)\n", "            self.register_task(func, -1)\n", "C19.R9")
# the key
M("C19", "handle-key-ignores-command", F, H_KEY, "            self.register_task(None, func)\n", "C19.R9")
M("C19", "catch-all-key-zero", F, "            self.register_task(-1, func)\n", "            self.register_task(0, func)\n", "C19.R9")
M("C19", "catch-all-delegates-with-none", F, C_DEC, "        return self.handle(None)\n", "C19.R9")
# a shape the rule does not follow must end undecided: a wrapper of the function is registered and handed back
T("C19", "twin-decorator-registers-wrapper", F, "", "",
  edits=[(F, "            self.register_task(-1, func)\n            return func\n",
          "            @functools.wraps(func)\n            def wrapper(task):\n                return func(task)\n\n            self.register_task(-1, wrapper)\n            return wrapper\n"),
         (F, "import hashlib\n", "import functools\nimport hashlib\n")])

# ---------------------------------------------------------------------------------------------- R10 one table per client, one list per key
INIT = "    def __init__(self):\n        self.task_map = {}\n"
CLS = "class HttpBeaconClient:\n"
# the pre-populated table as an optional argument, chosen by None-ness / by `or` / in a guard clause
T("C19", "twin-init-optional-table-none-default", F, INIT, "    def __init__(self, task_map=None):\n        self.task_map = task_map if task_map is not None else {}\n")
T("C19", "twin-init-optional-table-guard-clause", F, INIT, "    def __init__(self, task_map=None):\n        if task_map is None:\n            task_map = {}\n        self.task_map = task_map\n")
# a mutable default that never becomes the table: copied, or empty = falsy and replaced
T("C19", "twin-init-mutable-default-copied", F, INIT, "    def __init__(self, task_map={}):\n        self.task_map = dict(task_map)\n")
T("C19", "twin-init-empty-default-replaced", F, INIT, "    def __init__(self, task_map={}):\n        if not task_map:\n            task_map = {}\n        self.task_map = task_map\n")
T("C19", "twin-init-sentinel-default", F, INIT,
  "    _UNSET = object()\n\n    def __init__(self, task_map=_UNSET):\n        self.task_map = {} if task_map is HttpBeaconClient._UNSET else task_map\n")
# other spellings of a fresh table
T("C19", "twin-init-defaultdict", F, "", "", edits=[(F, INIT, "    def __init__(self):\n        self.task_map = collections.defaultdict(list)\n"), (F, "import hashlib\n", "import collections\nimport hashlib\n")])
T("C19", "twin-init-annotated-dict-call", F, INIT, "    def __init__(self) -> None:\n        self.task_map: Dict[Union[None, int], List[Callable]] = dict()\n")
T("C19", "twin-init-reset-method", F, INIT, "    def __init__(self):\n        self.reset_handlers()\n\n    def reset_handlers(self):\n        self.task_map = {}\n")
# class-level template that is copied (empty: shallow is enough; with lists: deep) / class-level declaration replaced in __init__
T("C19", "twin-init-class-template-copied", F, INIT, "    DEFAULT_TASK_MAP = {}\n\n    def __init__(self):\n        self.task_map = dict(self.DEFAULT_TASK_MAP)\n")
T("C19", "twin-init-class-template-deepcopied", F, "", "",
  edits=[(F, INIT, "    DEFAULT_TASK_MAP = {-1: []}\n\n    def __init__(self):\n        self.task_map = copy.deepcopy(self.DEFAULT_TASK_MAP)\n"), (F, "import hashlib\n", "import copy\nimport hashlib\n")])
T("C19", "twin-init-class-level-declaration", F, INIT, "    task_map = {}\n\n    def __init__(self):\n        self.task_map = {}\n")
# the handler list of a key: created in a chained assignment and kept in a local
T("C19", "twin-register-chained-new-list", F, REG,
  "        handlers = self.task_map.get(command_id)\n        if handlers is None:\n            handlers = self.task_map[command_id] = []\n        handlers.append(func)\n")
# one object for all clients (different carriers than the seeded change: class body, module level, shallow copy, callee default)
M("C19", "table-is-class-attribute-only", F, INIT, "    task_map = {}\n\n    def __init__(self):\n", "C19.R10")
M("C19", "table-is-class-level-template", F, INIT, "    DEFAULT_TASK_MAP = {}\n\n    def __init__(self):\n        self.task_map = self.DEFAULT_TASK_MAP\n", "C19.R10")
M("C19", "table-is-module-level-object", F, "", "", "C19.R10",
  edits=[(F, CLS, "_REGISTERED_TASKS = {}\n\n\n" + CLS), (F, INIT, "    def __init__(self):\n        self.task_map = _REGISTERED_TASKS\n")])
M("C19", "table-mutable-default-via-or", F, INIT, "    def __init__(self, task_map={-1: []}):\n        self.task_map = task_map or {}\n", "C19.R10")
M("C19", "table-shallow-copy-of-class-template", F, INIT, "    DEFAULT_TASK_MAP = {-1: [], None: []}\n\n    def __init__(self):\n        self.task_map = dict(self.DEFAULT_TASK_MAP)\n", "C19.R10")
M("C19", "table-fromkeys-one-list", F, INIT, "    def __init__(self):\n        self.task_map = dict.fromkeys([command.value for command in BeaconCommand], [])\n", "C19.R10")
M("C19", "table-conditionally-class-level", F, INIT, "    task_map = {}\n\n    def __init__(self, isolated=False):\n        if isolated:\n            self.task_map = {}\n", "C19.R10")
# one list for all keys / all clients
M("C19", "handler-list-mutable-default", F, "", "", "C19.R10",
  edits=[(F, "    def register_task(self, command_id: Union[None, int], func):\n", "    def register_task(self, command_id: Union[None, int], func, handlers=[]):\n"),
         (F, REG, "        self.task_map.setdefault(command_id, handlers).append(func)\n")])
M("C19", "handler-list-module-level-empty", F, "", "", "C19.R10",
  edits=[(F, CLS, "_NO_HANDLERS = []\n\n\n" + CLS), (F, REG, "        if command_id not in self.task_map:\n            self.task_map[command_id] = _NO_HANDLERS\n        self.task_map[command_id].append(func)\n")])

# ---------------------------------------------------------------------------------------------- R2 _beacon_loop: producer / consumer split, failure of one handler contained in its iteration
GET_TASK = "        while True:\n            task = self.get_task()\n"
BL_DEF = "    def _beacon_loop(self):\n"
EXC = "                    except Exception as e:\n                        logger.exception(e)\n"
# the check-ins come from a lazy generator (one get_task per item asked for), with and without a local in the producer
T("C19", "twin-loop-task-generator", F, "", "",
  edits=[(F, BL_DEF, "    def _check_ins(self):\n        while True:\n            received = self.get_task()\n            yield received\n\n" + BL_DEF),
         (F, GET_TASK, "        for task in self._check_ins():\n")])
T("C19", "twin-loop-task-generator-local", F, "", "",
  edits=[(F, BL_DEF, "    def _poll(self):\n        while True:\n            yield self.get_task()\n\n" + BL_DEF),
         (F, GET_TASK, "        tasks = self._poll()\n        for task in tasks:\n")])
# a producer the rule does not follow (the task passes through a queue): undecided, not violated
T("C19", "twin-loop-task-producer-not-followed", F, "", "",
  edits=[(F, BL_DEF, "    def _buffered(self):\n        pending = []\n        while True:\n            pending.append(self.get_task())\n            yield pending.pop(0)\n\n" + BL_DEF),
         (F, GET_TASK, "        for task in self._buffered():\n")])
# same containment, other spellings: explicit continue, bare `except Exception`, per-handler helper with its own try
T("C19", "twin-loop-except-continue", F, EXC, "                    except Exception as e:\n                        logger.exception(e)\n                        continue\n")
T("C19", "twin-loop-except-no-name", F, EXC, "                    except Exception:\n                        logger.exception(\"handler %r failed\", handler)\n")
T("C19", "twin-loop-call-one-helper", F, "", "",
  edits=[(F, BL_DEF, "    def _call_handler(self, handler, task):\n        try:\n            response = handler(task)\n            if response:\n                self.send_callback(*response)\n"
          "        except Exception as e:\n            logger.exception(e)\n\n" + BL_DEF),
         (F, "                if callable(handler):\n                    try:\n                        response = handler(task)\n                        if response:\n"
          "                            self.send_callback(*response)\n" + EXC, "                if callable(handler):\n                    self._call_handler(handler, task)\n")])
# the failure of one handler ends the iteration over the remaining handlers (other carriers than the seeded change)
M("C19", "dispatch-stops-at-first-failing-handler", F, EXC, "                    except Exception as e:\n                        logger.exception(e)\n                        break\n", "C19.R2")
M("C19", "dispatch-try-around-handler-loop", F, LOOP,
  "            try:\n                for handler in handlers:\n                    if callable(handler):\n                        response = handler(task)\n                        if response:\n"
  "                            self.send_callback(*response)\n            except Exception as e:\n                logger.exception(e)\n", "C19.R2")
M("C19", "dispatch-handler-call-outside-try", F, LOOP,
  "            for handler in handlers:\n                if callable(handler):\n                    response = handler(task)\n                    try:\n                        if response:\n"
  "                            self.send_callback(*response)\n                    except Exception as e:\n                        logger.exception(e)\n", "C19.R2")
M("C19", "dispatch-only-value-errors-contained", F, EXC, "                    except (ValueError, KeyError) as e:\n                        logger.exception(e)\n", "C19.R2")
M("C19", "dispatch-failure-reraised", F, EXC, "                    except Exception as e:\n                        logger.exception(e)\n                        raise\n", "C19.R2")
# the guarded call in a helper that hands the response back (two exits: not inlined into the loop -> undecided at most)
T("C19", "twin-loop-safe-call-helper", F, "", "",
  edits=[(F, BL_DEF, "    def _safe_call(self, handler, task):\n        try:\n            return handler(task)\n        except Exception as e:\n            logger.exception(e)\n            return None\n\n" + BL_DEF),
         (F, "                    try:\n                        response = handler(task)\n                        if response:\n                            self.send_callback(*response)\n" + EXC,
          "                    response = self._safe_call(handler, task)\n                    try:\n                        if response:\n                            self.send_callback(*response)\n" + EXC)])
