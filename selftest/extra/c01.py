"""Additional C01 corpus entries: behaviour-preserving refactorings (twins) the rules must stay silent on, and breaking
variants of the *refactored* shapes (mutants) the rules must still report."""

from selftest.corpus import M, T

B = "beacon.py"

# ------------------------------------------------------------------------------------------------ source anchors
_FIND = (
    "    # This is the maximum size for the beacon config and is also padded as such\n"
    "    PATCH_SIZE = 4096\n"
    "    # This is the default Beacon config starting bytes (unless it's modified)\n"
    "    CONFIG_HEADER = b\"\\x00\\x01\\x00\\x01\\x00\\x02\\x00\"\n"
    "    xorred_config_block = xor(CONFIG_HEADER, xorkey)\n"
    "\n"
    "    for pos in iter_find_needle(fh, xorred_config_block, start_offset=0):\n"
    "        fh.seek(pos)\n"
    "        data = fh.read(PATCH_SIZE)\n"
    "        logger.debug(f\"Found CONFIG_HEADER using xorkey: 0x{xorkey.hex()}\")\n"
    "        yield xor(data, xorkey)\n"
)
_FIND_DEF = "def find_beacon_config_bytes(fh: BinaryIO, xorkey: bytes) -> Iterator[bytes]:\n"

_KEYS = "    found = False\n    xor_keys = xor_keys or DEFAULT_XOR_KEYS\n"
_ENC = (
    "            for xorkey in xor_keys:\n"
    "                for config_block in find_beacon_config_bytes(fxor, xorkey):\n"
    "                    found = True\n"
    "                    yield config_block, {\"xorkey\": xorkey, \"xorencoded\": True}\n"
)
_RAW = (
    "        for xorkey in xor_keys:\n"
    "            for config_block in find_beacon_config_bytes(fobj, xorkey):\n"
    "                found = True\n"
    "                yield config_block, {\"xorkey\": xorkey, \"xorencoded\": False}\n"
)
_PHASES = (
    "    # Try XorEncoded files first as they are more common\n"
    "    if not found and xordecode:\n"
    "        try:\n"
    "            fxor = cast(BinaryIO, XorEncodedFile.from_file(fobj))\n"
    + _ENC +
    "        except ValueError:\n"
    "            pass\n"
    "\n"
    "    # Try finding config block without XorEncoding\n"
    "    if not found:\n"
    + _RAW +
    "\n"
    "    # Retry with left over xor keys if specified\n"
    "    if not found and all_xor_keys:\n"
)
_RETRY_KEYS = "        left_xor_keys = make_byte_list(exclude=xor_keys)\n"
_RETRY = "        yield from iter_beacon_config_blocks(fobj, left_xor_keys, xordecode=xordecode, all_xor_keys=False)\n"
_BYTELIST = "    return sorted({p8(x) for x in range(256)} - set(exclude or []))\n"

_FF_HEAD = "        for config_block, extra_info in iter_beacon_config_blocks(fobj, xor_keys=xor_keys, all_xor_keys=all_xor_keys):\n"
_FF_BODY = (
    "            bconfig = cls(config_block)\n"
    "            # Set extra metadata\n"
    "            bconfig.xorkey = extra_info[\"xorkey\"]\n"
    "            bconfig.xorencoded = extra_info[\"xorencoded\"]\n"
)
_FF_LOOP = (
    _FF_HEAD + _FF_BODY +
    "            # Try to extract some PE artifacts\n"
    "            try:\n"
    "                fh = XorEncodedFile.from_file(fobj) if bconfig.xorencoded else fobj\n"
    "            except ValueError:\n"
    "                fh = fobj\n"
    "            bconfig.pe_compile_stamp, bconfig.pe_export_stamp = pe.find_compile_stamps(fh)\n"
    "            bconfig.architecture = pe.find_architecture(fh)\n"
    "            # Return the first found beacon config.\n"
    "            return bconfig\n"
)
_FROM_PATH = (
    "        with open(path, \"rb\") as fobj:\n"
    "            return cls.from_file(fobj, xor_keys=xor_keys, all_xor_keys=all_xor_keys)\n"
)
_FROM_BYTES = "        return cls.from_file(io.BytesIO(data), xor_keys=xor_keys, all_xor_keys=all_xor_keys)\n"
_DEFAULTS = 'DEFAULT_XOR_KEYS: List[bytes] = [b"\\x69", b"\\x2e", b"\\x00"]'


# ================================================================================================ R1: key table
T("C01", "twin-keys-computed-table", B, _DEFAULTS, "DEFAULT_XOR_KEYS: List[bytes] = [bytes([k]) for k in (0x69, 0x2E, 0x00)]")
M("C01", "keys-computed-table-reordered", B, _DEFAULTS, "DEFAULT_XOR_KEYS: List[bytes] = [bytes([k]) for k in (0x00, 0x69, 0x2E)]", "C01.R1")

# ================================================================================================ R2 / R3: scanner
_FIND_HOISTED = (
    "    needle = xor(key=xorkey, data=_CFG_HEADER)\n"
    "    hits = iter_find_needle(fh, needle, 0)\n"
    "    for hit in hits:\n"
    "        fh.seek(hit, io.SEEK_SET)\n"
    "        encoded = fh.read({size})\n"
    "        decoded = xor(encoded, xorkey)\n"
    "        logger.debug(f\"Found CONFIG_HEADER using xorkey: 0x{{xorkey.hex()}}\")\n"
    "        yield decoded\n"
)
_HOIST = "_CFG_BLOCK_SIZE = 0x1000\n_CFG_HEADER = {hdr}\n\n\n" + _FIND_DEF
_HDR = 'b"\\x00\\x01\\x00\\x01\\x00\\x02\\x00"'
# constants hoisted to (new) module-level names, temporaries renamed/introduced, positional/keyword argument style
T("C01", "twin-scan-hoisted-constants", B, _FIND, _FIND_HOISTED.format(size="_CFG_BLOCK_SIZE"),
  edits=[(B, _FIND_DEF, _HOIST.format(hdr=_HDR)), (B, _FIND, _FIND_HOISTED.format(size="_CFG_BLOCK_SIZE"))])
M("C01", "scan-hoisted-header-wrong", B, _FIND, "", "C01.R2",
  edits=[(B, _FIND_DEF, _HOIST.format(hdr='b"\\x00\\x01\\x00\\x01\\x00\\x02"')), (B, _FIND, _FIND_HOISTED.format(size="_CFG_BLOCK_SIZE"))])
M("C01", "scan-hoisted-size-halved", B, _FIND, "", "C01.R3",
  edits=[(B, _FIND_DEF, _HOIST.format(hdr=_HDR)), (B, _FIND, _FIND_HOISTED.format(size="_CFG_BLOCK_SIZE // 2"))])
# explicit rewind instead of start_offset=0
T("C01", "twin-scan-explicit-rewind", B, "    for pos in iter_find_needle(fh, xorred_config_block, start_offset=0):\n",
  "    fh.seek(0)\n    for pos in iter_find_needle(fh, xorred_config_block):\n")
M("C01", "scan-rewind-missing", B, "    for pos in iter_find_needle(fh, xorred_config_block, start_offset=0):\n",
  "    for pos in iter_find_needle(fh, xorred_config_block):\n", "C01.R3")
# helper extracted for the positioned read
_READ_AT = "def _read_block_at(fh: BinaryIO, offset: int, size: int) -> bytes:\n    fh.seek(offset)\n    return fh.read(size)\n\n\n" + _FIND_DEF
T("C01", "twin-scan-read-helper", B, "        fh.seek(pos)\n        data = fh.read(PATCH_SIZE)\n", "        data = _read_block_at(fh, pos, PATCH_SIZE)\n",
  edits=[(B, _FIND_DEF, _READ_AT), (B, "        fh.seek(pos)\n        data = fh.read(PATCH_SIZE)\n", "        data = _read_block_at(fh, pos, PATCH_SIZE)\n")])
M("C01", "scan-seek-relative", B, "        fh.seek(pos)\n", "        fh.seek(pos, io.SEEK_CUR)\n", "C01.R3")
M("C01", "scan-seek-after-header", B, "        fh.seek(pos)\n", "        fh.seek(pos + len(CONFIG_HEADER))\n", "C01.R3")
M("C01", "scan-read-before-seek", B, "        fh.seek(pos)\n        data = fh.read(PATCH_SIZE)\n", "        data = fh.read(PATCH_SIZE)\n        fh.seek(pos)\n", "C01.R3")
M("C01", "scan-stops-after-first-hit", B, "        yield xor(data, xorkey)\n", "        yield xor(data, xorkey)\n        break\n", "C01.R3")
M("C01", "scan-needle-not-xored", B, "    for pos in iter_find_needle(fh, xorred_config_block, start_offset=0):\n",
  "    for pos in iter_find_needle(fh, CONFIG_HEADER, start_offset=0):\n", "C01.R3")
M("C01", "scan-limited", B, "iter_find_needle(fh, xorred_config_block, start_offset=0)", "iter_find_needle(fh, xorred_config_block, 0, 1 << 20)", "C01.R3")

# ================================================================================================ R4: key list / yields
# `x = x or y` -> `if not x: x = y`
T("C01", "twin-keys-if-not", B, _KEYS, "    found = False\n    if not xor_keys:\n        xor_keys = DEFAULT_XOR_KEYS\n")
M("C01", "keys-if-inverted", B, _KEYS, "    found = False\n    if xor_keys:\n        xor_keys = DEFAULT_XOR_KEYS\n", "C01.R4")
# conditional expression, new local used everywhere
T("C01", "twin-keys-conditional-expression", B, _KEYS, "", edits=[
    (B, _KEYS, "    found = False\n    keys = xor_keys if xor_keys else DEFAULT_XOR_KEYS\n"),
    (B, "    logger.debug(f\"xor_keys: {xor_keys!r}\")\n", "    logger.debug(f\"xor_keys: {keys!r}\")\n"),
    (B, _ENC, _ENC.replace("in xor_keys:", "in keys:")),
    (B, _RAW, _RAW.replace("in xor_keys:", "in keys:")),
    (B, _RETRY_KEYS, "        left_xor_keys = make_byte_list(keys)\n"),
])
M("C01", "keys-defaults-only", B, _RAW, _RAW.replace("in xor_keys:", "in DEFAULT_XOR_KEYS:"), "C01.R4")
# extra_info built separately with dict(), block and info through temporaries
_ENC_DICT = (
    "            for xorkey in xor_keys:\n"
    "                for config_block in find_beacon_config_bytes(fxor, xorkey=xorkey):\n"
    "                    extra_info = dict(xorkey=xorkey, xorencoded={flag})\n"
    "                    found = True\n"
    "                    yield (config_block, extra_info)\n"
)
T("C01", "twin-yield-dict-temp", B, _ENC, _ENC_DICT.format(flag="True"))
M("C01", "yield-dict-temp-wrong-flag", B, _ENC, _ENC_DICT.format(flag="False"), "C01.R4")
M("C01", "yield-key-and-block-swapped-source", B, _ENC, _ENC.replace("find_beacon_config_bytes(fxor, xorkey)", "find_beacon_config_bytes(fobj, xorkey)"), "C01.R4")

# ================================================================================================ R5: phase gating
# the flag is recorded after the candidate was handed out (the generator resumes there before anything else happens)
T("C01", "twin-found-after-yield", B, _RAW, _RAW.replace("                found = True\n", "").replace("\"xorencoded\": False}\n", "\"xorencoded\": False}\n                found = True\n"))
# guard clauses / early returns instead of nested `if not found`
_GUARDS = (
    "    if xordecode:\n"
    "        try:\n"
    "            fxor = cast(BinaryIO, XorEncodedFile.from_file(fobj))\n"
    + _ENC +
    "        except ValueError:\n"
    "            pass\n"
    "@G1@"
    + _RAW.replace("        for", "    for").replace("            for", "        for").replace("                found", "            found").replace("                yield", "            yield") +
    "    if found or not all_xor_keys:\n"
    "        return\n"
    "    if True:\n"
)
T("C01", "twin-phases-guard-clauses", B, _PHASES, _GUARDS.replace("@G1@", "    if found:\n        return\n"))
M("C01", "phases-guard-clause-missing", B, _PHASES, _GUARDS.replace("@G1@", ""), "C01.R5")
M("C01", "phases-guard-clause-inverted", B, _PHASES, _GUARDS.replace("@G1@", "    if not found:\n        return\n"), "C01.R5")
M("C01", "retry-ignores-found", B, "    if not found and all_xor_keys:\n", "    if all_xor_keys:\n", "C01.R5")
M("C01", "retry-unconditional-option", B, "    if not found and all_xor_keys:\n", "    if not found:\n", "C01.R5")
M("C01", "retry-unbounded", B, _RETRY, _RETRY.replace("all_xor_keys=False", "all_xor_keys=all_xor_keys"), "C01.R5")
M("C01", "retry-excludes-nothing-tried", B, _RETRY_KEYS, "        left_xor_keys = make_byte_list(exclude=DEFAULT_XOR_KEYS)\n", "C01.R5")
T("C01", "twin-retry-loop-positional", B, _RETRY, "        for candidate in iter_beacon_config_blocks(fobj, left_xor_keys, xordecode, False):\n            yield candidate\n")
T("C01", "twin-bytelist-difference", B, _BYTELIST, "    every = set(p8(x) for x in range(0, 0x100))\n    return sorted(every.difference(exclude or []))\n")
M("C01", "bytelist-255", B, _BYTELIST, "    return sorted({p8(x) for x in range(255)} - set(exclude or []))\n", "C01.R5")

# ================================================================================================ R6 / R7: from_file
# for-loop-with-return -> next(.., None) + presence test
_NEXT = (
    "        candidates = iter_beacon_config_blocks(fobj, xor_keys=xor_keys, all_xor_keys=all_xor_keys)\n"
    "{skip}"
    "        first_candidate = next(candidates{default})\n"
    "        if first_candidate is not None:\n"
    "            config_block, extra_info = first_candidate\n"
)
T("C01", "twin-first-candidate-next", B, _FF_HEAD, _NEXT.format(skip="", default=", None"))
M("C01", "next-takes-second-candidate", B, _FF_HEAD, _NEXT.format(skip="        next(candidates, None)\n", default=", None"), "C01.R6")
M("C01", "next-without-default", B, _FF_HEAD, _NEXT.format(skip="", default=""), "C01.R7")
# next() without default inside try/except StopIteration/else
_NEXT_TRY = (
    "        candidates = iter_beacon_config_blocks(fobj, xor_keys, all_xor_keys=all_xor_keys)\n"
    "        try:\n"
    "            config_block, extra_info = next(candidates)\n"
    "        except StopIteration:\n"
    "            pass\n"
    "        else:\n"
    + "".join("    " + ln + "\n" for ln in _FF_LOOP[len(_FF_HEAD):].splitlines())
)
T("C01", "twin-first-candidate-next-try", B, _FF_LOOP, _NEXT_TRY)
M("C01", "next-try-wrong-exception", B, _FF_LOOP, _NEXT_TRY.replace("except StopIteration:", "except ValueError:"), "C01.R7")
# single loop variable unpacked in the body, metadata set by one tuple assignment
_FF_TUPLE = (
    "        for candidate in iter_beacon_config_blocks(fobj, xor_keys, all_xor_keys=all_xor_keys):\n"
    "            block, info = candidate\n"
    "            bconfig = cls(block)\n"
    "            bconfig.xorkey, bconfig.xorencoded = {vals}\n"
)
T("C01", "twin-candidate-tuple-assign", B, _FF_HEAD + _FF_BODY, _FF_TUPLE.format(vals="info[\"xorkey\"], info[\"xorencoded\"]"))
M("C01", "candidate-tuple-assign-swapped", B, _FF_HEAD + _FF_BODY, _FF_TUPLE.format(vals="info[\"xorencoded\"], info[\"xorkey\"]"), "C01.R6")
M("C01", "candidate-metadata-dropped", B, "            bconfig.xorencoded = extra_info[\"xorencoded\"]\n", "", "C01.R6")
M("C01", "candidate-key-from-option", B, "            bconfig.xorkey = extra_info[\"xorkey\"]\n", "            bconfig.xorkey = (xor_keys or DEFAULT_XOR_KEYS)[0]\n", "C01.R6")
M("C01", "source-without-xordecode", B, _FF_HEAD, _FF_HEAD.replace("all_xor_keys=all_xor_keys)", "all_xor_keys=all_xor_keys, xordecode=False)"), "C01.R7")
M("C01", "source-keys-not-forwarded", B, _FF_HEAD, _FF_HEAD.replace("xor_keys=xor_keys, ", ""), "C01.R7")
# candidate handling moved into a (new) helper classmethod
_FF_HELPER = (
    "    @classmethod\n"
    "    def _from_candidate(cls, fobj: BinaryIO, config_block: bytes, extra_info: dict) -> \"BeaconConfig\":\n"
    "        bconfig = cls(config_block)\n"
    "        bconfig.xorkey = extra_info[\"xorkey\"]\n"
    "        bconfig.xorencoded = extra_info[\"xorencoded\"]\n"
    "        try:\n"
    "            fh = XorEncodedFile.from_file(fobj) if bconfig.xorencoded else fobj\n"
    "        except ValueError:\n"
    "            fh = fobj\n"
    "        bconfig.pe_compile_stamp, bconfig.pe_export_stamp = pe.find_compile_stamps(fh)\n"
    "        bconfig.architecture = pe.find_architecture(fh)\n"
    "        return bconfig\n"
    "\n"
    "    @classmethod\n"
    "    def from_file(cls, fobj: BinaryIO, xor_keys: List[bytes] = None, all_xor_keys: bool = False) -> \"BeaconConfig\":\n"
)
_FF_DEF = "    @classmethod\n    def from_file(cls, fobj: BinaryIO, xor_keys: List[bytes] = None, all_xor_keys: bool = False) -> \"BeaconConfig\":\n"
T("C01", "twin-candidate-helper-method", B, _FF_LOOP, "", edits=[
    (B, _FF_DEF, _FF_HELPER),
    (B, _FF_LOOP, _FF_HEAD + "            return cls._from_candidate(fobj, config_block, extra_info)\n"),
])
M("C01", "not-found-returns-none", B, "        raise ValueError(\"No valid Beacon configuration found\")\n", "        return None\n", "C01.R7")
M("C01", "not-found-conditional-raise", B, "        raise ValueError(\"No valid Beacon configuration found\")\n",
  "        if not all_xor_keys:\n            raise ValueError(\"No valid Beacon configuration found\")\n", "C01.R7")
# search strategies split into (new) private classmethods that return the config or None; the trailing raise becomes a
# None test in from_file (early returns / nested tests / one shared return statement for both strategies)
_GR_MARK = "        # Try finding Beacon config protected with Guardrails\n"
_GR_TAIL = "            return bconfig\n\n        raise ValueError(\"No valid Beacon configuration found\")\n"
_NOT_FOUND = "        raise ValueError(\"No valid Beacon configuration found\")\n"
_GR_HELPER_DEF = "\n    @classmethod\n    def _guardrails_config(cls, fobj: BinaryIO) -> Optional[\"BeaconConfig\"]:\n"
_SCAN_HELPER_DEF = (
    "\n    @classmethod\n"
    "    def _scanned_config(cls, fobj: BinaryIO, xor_keys: List[bytes] = None, all_xor_keys: bool = False) -> Optional[\"BeaconConfig\"]:\n"
)
_GR_TAIL_NONE = "            return bconfig\n        return None\n"


def _gr_split(dispatch):
    """guardrails fallback in a helper; `dispatch` is what from_file does after the regular search loop"""
    return [(B, _GR_MARK, dispatch + _GR_HELPER_DEF), (B, _GR_TAIL, _GR_TAIL_NONE)]


def _both_split(dispatch, loop=_FF_LOOP):
    """both strategies in helpers; `dispatch` is the whole body of from_file"""
    return [(B, _FF_LOOP + "\n" + _GR_MARK, dispatch + _SCAN_HELPER_DEF + loop + "        return None\n" + _GR_HELPER_DEF), (B, _GR_TAIL, _GR_TAIL_NONE)]


T("C01", "twin-guardrails-helper-early-return", B, "", "", edits=_gr_split(
    "        config = cls._guardrails_config(fobj)\n        if config is not None:\n            return config\n" + _NOT_FOUND))
T("C01", "twin-guardrails-helper-mirrored-test", B, "", "", edits=_gr_split(
    "        config = cls._guardrails_config(fobj)\n        if None is config:\n" + "    " + _NOT_FOUND + "        return config\n"))
M("C01", "guardrails-helper-result-unchecked", B, "", "", "C01.R7", edits=_gr_split("        return cls._guardrails_config(fobj)\n"))
M("C01", "guardrails-helper-test-inverted", B, "", "", "C01.R7", edits=_gr_split(
    "        config = cls._guardrails_config(fobj)\n        if config is None:\n            return config\n" + _NOT_FOUND))
_SEQ = (
    "        config = cls._scanned_config(fobj, xor_keys, all_xor_keys=all_xor_keys)\n"
    "        if config is not None:\n"
    "            return config\n"
    "        config = cls._guardrails_config(fobj)\n"
    "        if config != None:\n"
    "            return config\n"
    + _NOT_FOUND
)
_NESTED = (
    "        config = cls._scanned_config(fobj, all_xor_keys=all_xor_keys, xor_keys=xor_keys)\n"
    "        if config is None:\n"
    "            config = cls._guardrails_config(fobj)\n"
    "{inner}"
    "        return config\n"
)
_INNER = "            if config is None:\n        " + _NOT_FOUND
T("C01", "twin-strategies-split-early-returns", B, "", "", edits=_both_split(_SEQ))
T("C01", "twin-strategies-split-nested-tests", B, "", "", edits=_both_split(_NESTED.format(inner=_INNER)))
M("C01", "strategies-split-fallback-unchecked", B, "", "", "C01.R7", edits=_both_split(_NESTED.format(inner="")))
# the None test sits before the fallback assignment: it guards the first strategy's result only
M("C01", "strategies-split-test-before-fallback", B, "", "", "C01.R7", edits=_both_split(
    "        config = cls._scanned_config(fobj, xor_keys, all_xor_keys)\n"
    "        if config is not None:\n"
    "            return config\n"
    "        if config is None and not all_xor_keys:\n    " + _NOT_FOUND +
    "        config = cls._guardrails_config(fobj)\n"
    "        return config\n"))
M("C01", "strategies-split-shared-return-metadata-dropped", B, "", "", "C01.R6",
  edits=_both_split(_NESTED.format(inner=_INNER), loop=_FF_LOOP.replace("            bconfig.xorencoded = extra_info[\"xorencoded\"]\n", "")))
M("C01", "strategies-split-shared-return-second-candidate", B, "", "", "C01.R6",
  edits=_both_split(_NESTED.format(inner=_INNER), loop=_FF_LOOP.replace(
      "            return bconfig\n", "            if bconfig.xorencoded:\n                continue\n            return bconfig\n")))

# ================================================================================================ R7: entry points
_FP_POS = (
    "        with open(path, mode=\"{mode}\") as stream:\n"
    "            config = cls.from_file(stream, {args})\n"
    "            return config\n"
)
T("C01", "twin-from-path-positional", B, _FROM_PATH, _FP_POS.format(mode="rb", args="xor_keys, all_xor_keys"))
M("C01", "from-path-text-mode", B, _FROM_PATH, _FP_POS.format(mode="r", args="xor_keys, all_xor_keys"), "C01.R7")
M("C01", "from-path-options-swapped", B, _FROM_PATH, _FP_POS.format(mode="rb", args="all_xor_keys, xor_keys"), "C01.R7")
T("C01", "twin-from-bytes-temp", B, _FROM_BYTES, "        stream = io.BytesIO(data)\n        return cls.from_file(stream, all_xor_keys=all_xor_keys, xor_keys=xor_keys)\n")
M("C01", "from-bytes-all-keys-forced-off", B, _FROM_BYTES, "        stream = io.BytesIO(data)\n        return cls.from_file(stream, all_xor_keys=False, xor_keys=xor_keys)\n", "C01.R7")

# ================================================================================================ further shapes
# the flag compared with a boolean literal
T("C01", "twin-found-is-false", B, "    if not found:\n        for xorkey", "    if found is False:\n        for xorkey")
M("C01", "found-is-true-inverted", B, "    if not found:\n        for xorkey", "    if found is True or not xordecode:\n        for xorkey", "C01.R5")
# dict.get() on the candidate's extra_info
T("C01", "twin-metadata-get", B, "            bconfig.xorkey = extra_info[\"xorkey\"]\n", "            bconfig.xorkey = extra_info.get(\"xorkey\")\n")
M("C01", "metadata-get-wrong-key", B, "            bconfig.xorkey = extra_info[\"xorkey\"]\n", "            bconfig.xorkey = extra_info.get(\"xorencoded\")\n", "C01.R6")
# search loop that only picks the first candidate (break / else), the rest of the work after the loop
_FOR_BREAK = (
    "        for config_block, extra_info in iter_beacon_config_blocks(fobj, xor_keys=xor_keys, all_xor_keys=all_xor_keys):\n"
    "            {stop}\n"
    "        else:\n"
    "            config_block = None\n"
    "        if config_block is not None:\n"
)
T("C01", "twin-first-candidate-break-else", B, _FF_HEAD, _FOR_BREAK.format(stop="break"))
M("C01", "last-candidate-wins", B, _FF_HEAD, _FOR_BREAK.format(stop="pass").replace("        else:\n            config_block = None\n", ""), "C01.R6",
  edits=[(B, _FF_HEAD, "        config_block = None\n" + _FOR_BREAK.format(stop="pass").replace("        else:\n            config_block = None\n", ""))])
# generator closed explicitly
_TRY_FINALLY = (
    "        candidates = iter_beacon_config_blocks(fobj, xor_keys=xor_keys, all_xor_keys=all_xor_keys)\n"
    "        try:\n"
    + "".join("    " + ln + "\n" for ln in _FF_LOOP.splitlines()).replace("in iter_beacon_config_blocks(fobj, xor_keys=xor_keys, all_xor_keys=all_xor_keys):", "in candidates:")
    + "        finally:\n"
    "            candidates.close()\n"
)
T("C01", "twin-candidates-closed", B, _FF_LOOP, _TRY_FINALLY)
T("C01", "twin-from-path-pathlib", B, _FROM_PATH, "        with Path(path).open(\"rb\") as fobj:\n            return cls.from_file(fobj, xor_keys=xor_keys, all_xor_keys=all_xor_keys)\n")
M("C01", "from-path-pathlib-other-path", B, _FROM_PATH, "        with Path(str(path) + \".bin\").open(\"rb\") as fobj:\n            return cls.from_file(fobj, xor_keys=xor_keys, all_xor_keys=all_xor_keys)\n", "C01.R7")
T("C01", "twin-from-bytes-with", B, _FROM_BYTES, "        with io.BytesIO(data) as fobj:\n            return cls.from_file(fobj, xor_keys=xor_keys, all_xor_keys=all_xor_keys)\n")
# shapes the rules do not model: they must stay silent (undecided), not raise an alarm
T("C01", "twin-found-counter", B, _KEYS, "", edits=[
    (B, _KEYS, "    found = 0\n    xor_keys = xor_keys or DEFAULT_XOR_KEYS\n"),
    (B, _ENC, _ENC.replace("found = True", "found += 1")),
    (B, _RAW, _RAW.replace("found = True", "found += 1")),
])
T("C01", "twin-scan-while-next", B, "    for pos in iter_find_needle(fh, xorred_config_block, start_offset=0):\n        fh.seek(pos)\n",
  "    hits = iter_find_needle(fh, xorred_config_block, start_offset=0)\n    while True:\n        pos = next(hits, None)\n        if pos is None:\n            break\n        fh.seek(pos)\n")
T("C01", "twin-key-loop-enumerate", B, _RAW, _RAW.replace("for xorkey in xor_keys:", "for _i, xorkey in enumerate(xor_keys):"))
T("C01", "twin-info-built-in-steps", B, _RAW,
  "        for xorkey in xor_keys:\n            for config_block in find_beacon_config_bytes(fobj, xorkey):\n                found = True\n"
  "                info = {\"xorkey\": xorkey}\n                info[\"xorencoded\"] = False\n                yield config_block, info\n")

# ================================================================================================ R4 / R5: one search loop over a collection of file views
# the two search phases merged into one loop over [(XorEncoded view, True), (raw file, False)]: view-major (every key on
# the XorEncoded view, then every key on the raw file) is the documented order; key-major is not
_VIEWS_HEAD = (
    "    views = []\n"
    "    if xordecode:\n"
    "        try:\n"
    "            views.append((cast(BinaryIO, XorEncodedFile.from_file(fobj)), True))\n"
    "        except ValueError:\n"
    "            pass\n"
    "    views.append((fobj, False))\n"
)
_VIEW_MAJOR = (
    "    for fh, xorencoded in {views}:\n"
    "        if found:\n"
    "            break\n"
    "        for xorkey in xor_keys:\n"
    "            for config_block in find_beacon_config_bytes(fh, xorkey):\n"
    "                found = True\n"
    "                yield config_block, {{\"xorkey\": xorkey, \"xorencoded\": {flag}}}\n"
    "\n"
    "    # Retry with left over xor keys if specified\n"
    "    if not found and all_xor_keys:\n"
)
_KEY_MAJOR = (
    "    for xorkey in xor_keys:\n"
    "        for fh, xorencoded in {views}:\n"
    "            if found and not xorencoded:\n"
    "                continue\n"
    "            for config_block in find_beacon_config_bytes(fh, xorkey):\n"
    "                found = True\n"
    "                yield config_block, {{\"xorkey\": xorkey, \"xorencoded\": xorencoded}}\n"
    "\n"
    "    # Retry with left over xor keys if specified\n"
    "    if not found and all_xor_keys:\n"
)
_FXOR_OR_NONE = (
    "    fxor = None\n"
    "    if xordecode:\n"
    "        try:\n"
    "            fxor = cast(BinaryIO, XorEncodedFile.from_file(fobj))\n"
    "        except ValueError:\n"
    "            pass\n"
)
T("C01", "twin-views-merged-view-major", B, _PHASES, _VIEWS_HEAD + _VIEW_MAJOR.format(views="views", flag="xorencoded"))
M("C01", "views-merged-raw-first", B, _PHASES,
  _VIEWS_HEAD.replace("    views = []\n", "    views = [(fobj, False)]\n").replace("    views.append((fobj, False))\n", "") + _VIEW_MAJOR.format(views="views", flag="xorencoded"), "C01.R5")
M("C01", "views-merged-flag-inverted", B, _PHASES, _VIEWS_HEAD + _VIEW_MAJOR.format(views="views", flag="not xorencoded"), "C01.R4")
M("C01", "views-merged-ungated", B, _PHASES, _VIEWS_HEAD + _VIEW_MAJOR.format(views="views", flag="xorencoded").replace("        if found:\n            break\n", ""), "C01.R5")
# literal tuple of views instead of a list grown by append(); the key loop outside the view loop
M("C01", "views-tuple-literal-key-major", B, _PHASES,
  "    fxor = cast(BinaryIO, XorEncodedFile.from_file(fobj))\n" + _KEY_MAJOR.format(views="((fxor, True), (fobj, False))"), "C01.R5")
# two separate search sites, but interleaved per key
M("C01", "phases-interleaved-per-key", B, _PHASES, _FXOR_OR_NONE +
  "    for xorkey in xor_keys:\n"
  "        if fxor is not None:\n"
  "            for config_block in find_beacon_config_bytes(fxor, xorkey):\n"
  "                found = True\n"
  "                yield config_block, {\"xorkey\": xorkey, \"xorencoded\": True}\n"
  "        if found:\n"
  "            continue\n"
  "        for config_block in find_beacon_config_bytes(fobj, xorkey):\n"
  "            found = True\n"
  "            yield config_block, {\"xorkey\": xorkey, \"xorencoded\": False}\n"
  "\n"
  "    # Retry with left over xor keys if specified\n"
  "    if not found and all_xor_keys:\n", "C01.R5")

# ================================================================================================ R10: key lists changed in place are private to the call
_BYTELIST_DEF = "def make_byte_list(exclude: List[bytes] = None) -> List[bytes]:\n"
_SORT = "        left_xor_keys.sort(key=lambda x: most_common_bytes.index(x) if x in most_common_bytes else 256)\n"
# the left-over list kept in a hand-rolled module-level cache: the in-place frequency sort of the retry re-orders the stored list
M("C01", "bytelist-module-level-cache", B, _BYTELIST, "", "C01.R10", edits=[
    (B, _BYTELIST_DEF, "_LEFT_OVER_KEYS: Dict[frozenset, List[bytes]] = {}\n\n\n" + _BYTELIST_DEF),
    (B, _BYTELIST, "    wanted = frozenset(exclude or [])\n    if wanted not in _LEFT_OVER_KEYS:\n"
                   "        _LEFT_OVER_KEYS[wanted] = sorted({p8(x) for x in range(256)} - wanted)\n    return _LEFT_OVER_KEYS[wanted]\n"),
])
# ... or in a default argument
M("C01", "bytelist-default-argument-cache", B, _BYTELIST, "", "C01.R10", edits=[
    (B, _BYTELIST_DEF, "def make_byte_list(exclude: List[bytes] = None, _seen: dict = {}) -> List[bytes]:\n"),
    (B, _BYTELIST, "    wanted = frozenset(exclude or [])\n    if wanted not in _seen:\n"
                   "        _seen[wanted] = sorted({p8(x) for x in range(256)} - wanted)\n    return _seen[wanted]\n"),
])
# the keys that were tried are put last in the caller's / the default list itself instead of being excluded from a new list
M("C01", "retry-reorders-tried-keys-in-place", B, _SORT, _SORT + "        xor_keys.sort(key=lambda x: most_common_bytes.index(x) if x in most_common_bytes else 256)\n", "C01.R10")
# fresh objects spelled differently: sorted copy instead of list.sort, list built in steps, cached immutable table copied by the caller
T("C01", "twin-retry-sorted-copy", B, _SORT, "        left_xor_keys = sorted(left_xor_keys, key=lambda x: most_common_bytes.index(x) if x in most_common_bytes else 256)\n")
T("C01", "twin-bytelist-built-in-steps", B, _BYTELIST,
  "    skip = set(exclude or [])\n    out = []\n    for x in range(256):\n        if p8(x) not in skip:\n            out.append(p8(x))\n    return out\n")
T("C01", "twin-bytelist-cached-tuple-copied", B, _BYTELIST, "", edits=[
    (B, _BYTELIST_DEF, "@functools.lru_cache(maxsize=None)\ndef _all_single_bytes() -> Tuple[bytes, ...]:\n    return tuple(p8(x) for x in range(256))\n\n\n" + _BYTELIST_DEF),
    (B, _BYTELIST, "    skip = set(exclude or [])\n    return [k for k in _all_single_bytes() if k not in skip]\n"),
])

# ================================================================================================ R11: the XorEncoded view drops no non-empty chunk
X = "xordecode.py"
_CHUNK = (
    "            chunk = self.fh.read(4)\n"
    "            if not chunk:\n"
    "                break\n"
)
_CHUNK_READ = "            chunk = self.fh.read(4)\n"
_DECODE_LOOP = (
    "        while True:\n"
    + _CHUNK +
    "            # log.debug(f\"{chunk}, {nonce}\")\n"
    "            data += xor(chunk, nonce)\n"
    "            nonce = chunk\n"
    "            if n > 0 and len(data) >= n:\n"
    "                break\n"
)
# a last word of 1-3 bytes is consumed but not decoded (other spellings of "only whole words" than the seeded one)
M("C01", "view-drops-short-last-word-ne", X, _CHUNK, _CHUNK_READ + "            if len(chunk) != 4:\n                break\n", "C01.R11")
M("C01", "view-drops-short-last-word-or", X, _CHUNK, _CHUNK_READ + "            if not chunk or len(chunk) <= 3:\n                break\n", "C01.R11")
M("C01", "view-drops-short-last-word-walrus", X, _DECODE_LOOP,
  "        while len(chunk := self.fh.read(4)) == 4:\n"
  "            data += xor(chunk, nonce)\n"
  "            nonce = chunk\n"
  "            if n > 0 and len(data) >= n:\n"
  "                break\n", "C01.R11")
M("C01", "view-drops-short-last-word-nested", X, _DECODE_LOOP,
  "        while True:\n"
  + _CHUNK_READ +
  "            if len(chunk) >= 4:\n"
  "                data += xor(chunk, nonce)\n"
  "                nonce = chunk\n"
  "                if n > 0 and len(data) >= n:\n"
  "                    break\n"
  "            else:\n"
  "                break\n", "C01.R11")
# a chunk is read although enough was decoded already, and thrown away
M("C01", "view-drops-chunk-read-ahead", X, _CHUNK, _CHUNK_READ + "            if not chunk or (n > 0 and len(data) >= n):\n                break\n", "C01.R11")
# "the data has ended" spelled differently; the chunk under another name; the short last word decoded on a path of its own
T("C01", "twin-view-end-of-data-len-eq-0", X, _CHUNK, _CHUNK_READ + "            if len(chunk) == 0:\n                break\n")
T("C01", "twin-view-end-of-data-len-lt-1", X, _CHUNK, _CHUNK_READ + "            if len(chunk) < 1:\n                break\n")
T("C01", "twin-view-end-of-data-eq-empty", X, _CHUNK, _CHUNK_READ + "            if chunk == b\"\":\n                break\n")
T("C01", "twin-view-end-of-data-mirrored", X, _CHUNK, _CHUNK_READ + "            if 0 >= len(chunk):\n                break\n")
T("C01", "twin-view-walrus", X, _DECODE_LOOP,
  "        while chunk := self.fh.read(4):\n"
  "            data += xor(chunk, nonce)\n"
  "            nonce = chunk\n"
  "            if n > 0 and len(data) >= n:\n"
  "                break\n")
T("C01", "twin-view-nested-if", X, _DECODE_LOOP,
  "        while True:\n"
  + _CHUNK_READ +
  "            if len(chunk) > 0:\n"
  "                data += xor(chunk, nonce)\n"
  "                nonce = chunk\n"
  "                if n > 0 and len(data) >= n:\n"
  "                    break\n"
  "            else:\n"
  "                break\n")
# the short last word is decoded like every other one; that it was the last is remembered to save the final empty read
T("C01", "twin-view-short-last-word-ends-loop", X, _DECODE_LOOP,
  "        while True:\n"
  + _CHUNK +
  "            last = len(chunk) < 4\n"
  "            data += xor(chunk, nonce)\n"
  "            nonce = chunk\n"
  "            if last or (n > 0 and len(data) >= n):\n"
  "                break\n")

# ================================================================================================ R12: no answer looked up by file object in a store that outlives the call
P = "pe.py"
_XF_BODY0 = "        eof_shellcode_offsets = []\n        nonce_offsets = []\n\n        nonce_offsets = list(iter_nonce_offsets(fh, maxrange=maxrange))\n"
_XF_FAIL = "        raise ValueError(f\"MZ header not found for: {fh}\")\n"
_XF_HIT = "                xf.seek(0)\n                return xf\n"
_XF_MARKER = "    EOF_SHELLCODE_MARKER = b\"\\xff\\xff\\xff\"\n"
_MZ_DEF = "def find_mz_offset(fh: BinaryIO, start_offset: int = 0, maxrange: int = 1024) -> Optional[int]:\n"
_XOR_DEF = "def xor(data: bytes, key: bytes) -> bytes:\n"
# the MZ probe memoised with functools: keyed by the identity of the file object
M("C01", "mz-probe-lru-cache-on-file-object", P, _MZ_DEF, "", "C01.R12", edits=[
    (P, "import io\nimport logging\n", "import functools\nimport io\nimport logging\n"),
    (P, _MZ_DEF, "@functools.lru_cache(maxsize=64)\n" + _MZ_DEF),
])
# negative outcome remembered in a class-level set of id(fh)
M("C01", "xorencoded-negative-cache-by-id", X, _XF_BODY0, "", "C01.R12", edits=[
    (X, _XF_MARKER, _XF_MARKER + "    _NOT_XORENCODED = set()\n"),
    (X, _XF_FAIL, "        cls._NOT_XORENCODED.add(id(fh))\n" + _XF_FAIL),
    (X, _XF_BODY0, "        if id(fh) in cls._NOT_XORENCODED:\n            raise ValueError(f\"MZ header not found for: {fh}\")\n" + _XF_BODY0),
])
# positive outcome kept in a module-level dict, looked up with .get() under the file's name
M("C01", "xorencoded-offset-cache-by-name", X, _XF_BODY0, "", "C01.R12", edits=[
    (X, "logger = logging.getLogger(__name__)\n", "logger = logging.getLogger(__name__)\n_KNOWN_OFFSETS = {}\n"),
    (X, _XF_BODY0, "        known = _KNOWN_OFFSETS.get(getattr(fh, \"name\", None))\n        if known is not None:\n"
                   "            xf = cls(fh, nonce_offset=known)\n            xf.seek(0)\n            return xf\n" + _XF_BODY0),
    (X, _XF_HIT, "                _KNOWN_OFFSETS[getattr(fh, \"name\", None)] = found_nonce_offset\n" + _XF_HIT),
])
# the offset noted on the caller's file object itself
M("C01", "xorencoded-offset-planted-on-file-object", X, _XF_BODY0, "", "C01.R12", edits=[
    (X, _XF_BODY0, "        known = getattr(fh, \"_cs_nonce_offset\", None)\n        if known is not None:\n"
                   "            xf = cls(fh, nonce_offset=known)\n            xf.seek(0)\n            return xf\n" + _XF_BODY0),
    (X, _XF_HIT, "                with contextlib.suppress(AttributeError):\n                    fh._cs_nonce_offset = found_nonce_offset\n" + _XF_HIT),
])
# the detection in a helper that returns the offset or None, not memoised (the refactoring the seeded change started from)
T("C01", "twin-nonce-offset-helper-no-memo", X, _XF_BODY0, "", edits=[
    (X, _XF_HIT, "                return found_nonce_offset\n"),
    (X, _XF_FAIL, "        return None\n"),
    (X, _XF_BODY0, "        nonce_offset = cls.find_nonce_offset(fh, maxrange=maxrange)\n        if nonce_offset is None:\n"
                   "            raise ValueError(f\"MZ header not found for: {fh}\")\n        xf = cls(fh, nonce_offset=nonce_offset)\n        xf.seek(0)\n        return xf\n\n"
                   "    @classmethod\n    def find_nonce_offset(cls, fh: BinaryIO, maxrange: int = 1024):\n" + _XF_BODY0),
])
# memo keyed by value (immutable bytes arguments), no file object involved
T("C01", "twin-xor-lru-cache-by-value", "utils.py", _XOR_DEF, "", edits=[
    ("utils.py", "import errno\nimport io\n", "import errno\nimport functools\nimport io\n"),
    ("utils.py", _XOR_DEF, "@functools.lru_cache(maxsize=1024)\n" + _XOR_DEF),
])
# a run-time-filled module-level table keyed by the XOR key bytes (not by a file object): not a subject of R12's verdict
T("C01", "twin-needle-table-by-key", B, _FIND_DEF, "_NEEDLES = {}\n\n\n" + _FIND_DEF, edits=[
    (B, "    xorred_config_block = xor(CONFIG_HEADER, xorkey)\n",
        "    if xorkey not in _NEEDLES:\n        _NEEDLES[xorkey] = xor(CONFIG_HEADER, xorkey)\n    xorred_config_block = _NEEDLES[xorkey]\n"),
])
# the outcome remembered on the view instance that the call itself creates
T("C01", "twin-view-instance-cache", X, "        self.nonced_filesize = self.fh.read(4)\n", "        self.nonced_filesize = self.fh.read(4)\n        self._sizes = {}\n        self._sizes[nonce_offset] = self.nonced_filesize\n")

# ================================================================================================ R2: the Setting header under restyled C definitions
_STYPE = "enum SettingsType: uint16 {\n    TYPE_NONE = 0,\n    TYPE_SHORT = 1,\n    TYPE_INT = 2,\n    TYPE_PTR = 3,\n};\n"
_SLEN = "    uint16 length;          // uint16\n"
# implicit consecutive enumerator values, predefined typedef names of dissect.cstruct for the same 16-bit unsigned type
T("C01", "twin-cdef-implicit-enum-unsigned-short", B, _STYPE, "enum SettingsType: unsigned short {\n    TYPE_NONE,\n    TYPE_SHORT,\n    TYPE_INT,\n    TYPE_PTR,\n};\n")
T("C01", "twin-cdef-length-word-alias", B, _SLEN, "    __u16 length;\n")
T("C01", "twin-cdef-enum-partly-implicit", B, _STYPE, "enum SettingsType: uint16_t {\n    TYPE_NONE = 0,\n    TYPE_SHORT,\n    TYPE_INT,\n    TYPE_PTR = 3,\n};\n")
# the same restyling with a slip: the needle constant no longer is the serialised header
M("C01", "cdef-implicit-enum-reordered", B, _STYPE, "enum SettingsType: uint16_t {\n    TYPE_NONE,\n    TYPE_INT,\n    TYPE_SHORT,\n    TYPE_PTR,\n};\n", "C01.R2")
M("C01", "cdef-length-alias-widened", B, _SLEN, "    uint32_t length;\n", "C01.R2")
# a type name that neither csverif.cdefs nor the typedef table knows: nothing is claimed
T("C01", "twin-cdef-length-unknown-typedef", B, _SLEN, "    setting_len_t length;\n")

# ================================================================================================ R13: the key-ordering statistic is counted from the start
_REWIND = "        fxor.seek(0)\n        bytes_counter = collections.Counter()\n"
_NOREWIND = "        bytes_counter = collections.Counter()\n"
_RETRY_VIEW = "                fxor = XorEncodedFile.from_file(fobj)\n            except ValueError:\n                fxor = fobj\n"
_COUNT_LOOP = (
    "        for chunk in iter(functools.partial(fxor.read, io.DEFAULT_BUFFER_SIZE), b\"\"):\n"
    "            fourgrams = grouper(chunk, n=4, fillvalue=0)\n"
    "            bytes_counter.update(gram[0] for gram in fourgrams if gram[0] == gram[1] == gram[2] == gram[3])\n"
)
# the repaired defect F26 put back: counting starts wherever the failed XorEncoded detection / the raw search left the handle
M("C01", "frequency-count-not-rewound", B, _REWIND, _NOREWIND, "C01.R13")
# rewound only when the XorEncoded view could be built; the raw-file fallback is counted from where phase 2 stopped
M("C01", "frequency-count-rewound-in-one-branch", B, _REWIND, "", "C01.R13", edits=[
    (B, _REWIND, _NOREWIND),
    (B, _RETRY_VIEW, "                fxor = XorEncodedFile.from_file(fobj)\n                fxor.seek(0)\n            except ValueError:\n                fxor = fobj\n"),
])
# a seek that does not rewind
M("C01", "frequency-count-relative-seek", B, _REWIND, "        fxor.seek(0, io.SEEK_CUR)\n" + _NOREWIND, "C01.R13")
# the handle is used again between the rewind and the counting loop
M("C01", "frequency-count-peek-after-rewind", B, _REWIND, "        fxor.seek(0)\n        magic = fxor.read(2)\n        logger.debug(f\"magic: {magic!r}\")\n" + _NOREWIND, "C01.R13")
# rewinds spelled differently / placed differently
T("C01", "twin-frequency-count-seek-set", B, _REWIND, "        fxor.seek(0, io.SEEK_SET)\n" + _NOREWIND)
T("C01", "twin-frequency-count-rewound-in-both-branches", B, _REWIND, "", edits=[
    (B, _REWIND, _NOREWIND),
    (B, _RETRY_VIEW, "                fxor = XorEncodedFile.from_file(fobj)\n                fxor.seek(0)\n            except ValueError:\n                fxor = fobj\n                fobj.seek(0)\n"),
])
# the view comes back rewound from its constructor; only the raw-file fallback needs the explicit rewind
T("C01", "twin-frequency-count-fresh-view", B, _REWIND, "", edits=[
    (B, _REWIND, _NOREWIND),
    (B, _RETRY_VIEW, "                fxor = XorEncodedFile.from_file(fobj)\n            except ValueError:\n                fobj.seek(0)\n                fxor = fobj\n"),
])
# counting loop as while/read/break
T("C01", "twin-frequency-count-while-loop", B, _COUNT_LOOP,
  "        while True:\n"
  "            chunk = fxor.read(io.DEFAULT_BUFFER_SIZE)\n"
  "            if not chunk:\n"
  "                break\n"
  "            fourgrams = grouper(chunk, n=4, fillvalue=0)\n"
  "            bytes_counter.update(gram[0] for gram in fourgrams if gram[0] == gram[1] == gram[2] == gram[3])\n")
M("C01", "frequency-count-while-loop-not-rewound", B, _COUNT_LOOP, "", "C01.R13", edits=[
    (B, _REWIND, _NOREWIND),
    (B, _COUNT_LOOP,
     "        while True:\n"
     "            chunk = fxor.read(io.DEFAULT_BUFFER_SIZE)\n"
     "            if not chunk:\n"
     "                break\n"
     "            fourgrams = grouper(chunk, n=4, fillvalue=0)\n"
     "            bytes_counter.update(gram[0] for gram in fourgrams if gram[0] == gram[1] == gram[2] == gram[3])\n"),
])

# ================================================================================================ R14: the retry tries every left-over key
# the frequency order turned into a selection (other spellings than the seeded one), or the list cut short
M("C01", "retry-keys-filtered-by-statistic", B, _SORT, _SORT + "        left_xor_keys = [k for k in left_xor_keys if k in most_common_bytes]\n", "C01.R14")
M("C01", "retry-keys-filter-builtin", B, _SORT, _SORT + "        left_xor_keys = list(filter(lambda k: k in most_common_bytes, left_xor_keys))\n", "C01.R14")
M("C01", "retry-keys-truncated", B, _SORT, _SORT + "        left_xor_keys = left_xor_keys[:32]\n", "C01.R14")
# order-only rewrites: seen bytes first, then the rest (partition); identity copy; reversed twice
T("C01", "twin-retry-keys-partitioned", B, _SORT,
  "        left_xor_keys = [k for k in most_common_bytes if k in left_xor_keys] + [k for k in left_xor_keys if k not in most_common_bytes]\n")
T("C01", "twin-retry-keys-identity-copy", B, _SORT, _SORT + "        left_xor_keys = [k for k in left_xor_keys]\n")
T("C01", "twin-retry-keys-full-slice", B, _SORT, _SORT + "        left_xor_keys = left_xor_keys[:]\n")

# ================================================================================================ R15: the scanner reports the hits of one read in file order
U = "utils.py"
_SCAN_ROUND = (
    "        d = saved + block\n"
    "        p = -1\n"
    "        while True:\n"
    "            p = d.find(needle, p + 1)\n"
    "            if p == -1 or max_offset and p > max_offset:\n"
    "                break\n"
    "            offset = pos + p - len(saved)\n"
    "            yield offset\n"
    "        saved = d[-overlap_len:] if overlap_len else b\"\"\n"
)
_SEAM = (
    "        if carried:\n"
    "            seam = saved + block[:overlap_len]\n"
    "            q = -1\n"
    "            while True:\n"
    "                q = seam.find(needle, q + 1)\n"
    "                if q == -1 or {guard} or max_offset and q > max_offset:\n"
    "                    break\n"
    "                yield {seam_offset}\n"
)
_BLOCK = (
    "        p = -1\n"
    "        while True:\n"
    "            p = block.find(needle, p + 1)\n"
    "            if p == -1 or max_offset and carried + p > max_offset:\n"
    "                break\n"
    "            yield pos + p\n"
)
_NEW_SAVED = "        saved = (saved + block[-overlap_len:])[-overlap_len:] if overlap_len else b\"\"\n"
# the seam with the previous read searched separately from the new block: hits that straddle the boundary come first ...
T("C01", "twin-scan-seam-then-block", U, _SCAN_ROUND,
  "        carried = len(saved)\n" + _SEAM.format(guard="q >= carried", seam_offset="pos + q - carried") + _BLOCK + _NEW_SAVED)
# ... not after the hits of the block behind them (other spelling than the seeded change: mirrored guard, other term order)
M("C01", "scan-block-then-seam", U, _SCAN_ROUND,
  "        carried = len(saved)\n" + _BLOCK + _SEAM.format(guard="carried <= q", seam_offset="pos - len(saved) + q") + _NEW_SAVED, "C01.R15")
# one buffer, searched from its end
M("C01", "scan-round-backwards", U, _SCAN_ROUND, _SCAN_ROUND.replace("        p = -1\n", "        p = len(d) + 1\n").replace(
    "            p = d.find(needle, p + 1)\n", "            p = d.rfind(needle, 0, p + needle_len - 1)\n"), "C01.R15")
# the search start spelled differently
T("C01", "twin-scan-start-mirrored", U, "            p = d.find(needle, p + 1)\n", "            p = d.find(needle, 1 + p)\n")
