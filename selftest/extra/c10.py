"""C10 - extra corpus for R3 (the Python side of the text round trip), R8 (the parse tree is not modified on its way to
the reconstructor), R7 (ignored terminals keep lexical precedence), R9 (statement forms per block context), R10 (every
keyword / option word is lexed whole) and R11 (every node is printed by lark's tree matcher) - the R8 / R7 / R9 / R10 / R11
entries are at the end of the file, each group with its own comment.

R3 locates the post-processor by role (the callable handed to `Reconstructor.reconstruct`) and decides token preservation
by an inductive argument over one arbitrary iteration of its loop over the items (path-wise value flow with symbolic
terms, nothing is executed), so the twins below cover the kinds of refactoring that must not matter: the function moved to
module level / made a method / wrapped in a lambda or functools.partial, keyword arguments and temporaries at the call, a
module-level reconstructor, the inverted test with an early `continue`, hoisted sub-expressions, index loops with the last
element split off, `yield from` of a prepared list or of the buffer itself, joined / concatenated / formatted line text, an
extracted generator or separator helper, an explicit iterator with `next`, different spellings of the terminator set and
of the buffer reset, a clamped indent counter, an indent loop, a final flush after the loop.  Two twins are outside the
recognised forms and only have to stay silent (undecided): the zip-based emission and the pipeline of two generators.
The mutants break token preservation in each of those shapes (and on the original one)."""

from selftest.corpus import M, T

F = "c2profile.py"

AS_TEXT = (
    '        def postproc(items):\n'
    '            line = []\n'
    '            indent = 0\n'
    '            for item in items:\n'
    '                line.append(item)\n'
    '                if item in "{};":\n'
    '                    if "}" in line:\n'
    '                        indent -= 1\n'
    '                    if "{" in line:\n'
    '                        yield "\\n"\n'
    '                    yield " " * 4 * indent\n'
    '                    for i, x in enumerate(line):\n'
    '                        yield x\n'
    '                        if len(line) > i + 1 and line[i + 1] != ";":\n'
    '                            yield " "\n'
    '                    yield "\\n"\n'
    '                    if "{" in line:\n'
    '                        indent += 1\n'
    '                    line = []\n'
    '\n'
    '        return Reconstructor(c2profile_parser).reconstruct(self.tree, postproc)\n'
)
RETURN = '        return Reconstructor(c2profile_parser).reconstruct(self.tree, postproc)\n'
EMIT = (
    '                    for i, x in enumerate(line):\n'
    '                        yield x\n'
    '                        if len(line) > i + 1 and line[i + 1] != ";":\n'
    '                            yield " "\n'
)
CLASS_HEAD = 'class C2Profile(ConfigBlock):\n'
PARSER = 'c2profile_parser = Lark.open("c2profile.lark", parser="lalr", rel_to=__file__, maybe_placeholders=False)\n'
FROM_TEXT = '        profile.tree = c2profile_parser.parse(source)\n'


def _layout(name, indent="", emit=None, first="items", extra_params=""):
    """The original algorithm as a function `name` at indentation `indent` (optionally with another emit block)."""
    emit = emit or (
        '        for i, x in enumerate(line):\n'
        '            yield x\n'
        '            if len(line) > i + 1 and line[i + 1] != ";":\n'
        '                yield " "\n'
    )
    body = (
        f'def {name}({first}{extra_params}):\n'
        '    line = []\n'
        '    indent = 0\n'
        '    for item in items:\n'
        '        line.append(item)\n'
        '        if item not in "{};":\n'
        '            continue\n'
        '        if "}" in line:\n'
        '            indent -= 1\n'
        '        if "{" in line:\n'
        '            yield "\\n"\n'
        '        yield " " * 4 * indent\n'
        + emit +
        '        yield "\\n"\n'
        '        if "{" in line:\n'
        '            indent += 1\n'
        '        line = []\n'
    )
    return "".join(indent + l + "\n" if l else "\n" for l in body.split("\n")[:-1])


# ---------------------------------------------------------------------------------------------------- twins: location
T("C10", "twin-postproc-module-level-keyword", F, AS_TEXT,
  '        reconstructor = Reconstructor(c2profile_parser)\n        return reconstructor.reconstruct(self.tree, postproc=_layout_profile_tokens)\n',
  edits=[(F, CLASS_HEAD, _layout("_layout_profile_tokens") + "\n\n" + CLASS_HEAD),
         (F, AS_TEXT, '        reconstructor = Reconstructor(c2profile_parser)\n        return reconstructor.reconstruct(self.tree, postproc=_layout_profile_tokens)\n')])
T("C10", "twin-postproc-renamed-nested", F, AS_TEXT, AS_TEXT.replace("def postproc(items)", "def layout(tokens)").replace("in items:", "in tokens:").replace("self.tree, postproc)", "self.tree, layout)"))
T("C10", "twin-postproc-staticmethod", F, AS_TEXT,
  '        return Reconstructor(c2profile_parser).reconstruct(self.tree, self._layout)\n\n    @staticmethod\n' + _layout("_layout", "    "))
T("C10", "twin-postproc-method", F, AS_TEXT,
  '        text = Reconstructor(c2profile_parser).reconstruct(tree=self.tree, postproc=self._layout)\n        return text\n\n' + _layout("_layout", "    ", first="self, items"))
T("C10", "twin-postproc-lambda-width", F, AS_TEXT,
  '        return Reconstructor(c2profile_parser).reconstruct(self.tree, lambda items: _layout_tokens(items, 4))\n',
  edits=[(F, CLASS_HEAD, _layout("_layout_tokens", extra_params=", width").replace('" " * 4 * indent', '" " * width * indent') + "\n\n" + CLASS_HEAD),
         (F, AS_TEXT, '        return Reconstructor(c2profile_parser).reconstruct(self.tree, lambda items: _layout_tokens(items, 4))\n')])
T("C10", "twin-postproc-partial", F, AS_TEXT,
  '        import functools\n\n        layout = functools.partial(_layout_tokens, width=4)\n        return Reconstructor(c2profile_parser).reconstruct(self.tree, layout)\n',
  edits=[(F, CLASS_HEAD, _layout("_layout_tokens", extra_params=", width=2").replace('" " * 4 * indent', '" " * width * indent') + "\n\n" + CLASS_HEAD),
         (F, "import collections\n", "import collections\nimport functools\n"),
         (F, AS_TEXT, '        layout = functools.partial(_layout_tokens, width=4)\n        return Reconstructor(c2profile_parser).reconstruct(self.tree, layout)\n')])
T("C10", "twin-module-level-reconstructor", F, RETURN, '        return _RECONSTRUCTOR.reconstruct(self.tree, postproc)\n',
  edits=[(F, PARSER, PARSER + "_RECONSTRUCTOR = Reconstructor(c2profile_parser)\n"), (F, RETURN, '        return _RECONSTRUCTOR.reconstruct(self.tree, postproc)\n')])
T("C10", "twin-closure-constant", F, AS_TEXT, AS_TEXT.replace('        def postproc(items):\n', '        unit = " " * 4\n\n        def postproc(items):\n').replace('" " * 4 * indent', 'unit * indent'))
T("C10", "twin-from-text-temp", F, FROM_TEXT, '        tree = c2profile_parser.parse(source)\n        profile.tree = tree\n')
T("C10", "twin-from-text-tree-helper", F, '        profile = cls()\n' + FROM_TEXT + '        return profile\n',
  '        return cls._from_tree(c2profile_parser.parse(source))\n\n    @classmethod\n    def _from_tree(cls, tree):\n        profile = cls()\n        profile.tree = tree\n        return profile\n')
T("C10", "twin-render-in-dunder-str", F, "x", "y",
  edits=[(F, '    def __str__(self) -> str:\n        return self.as_text()\n\n    def as_text(self) -> str:\n', '    def as_text(self) -> str:\n        return str(self)\n\n    def __str__(self) -> str:\n')])
T("C10", "twin-from-text-keyword", F, FROM_TEXT, '        profile.tree = c2profile_parser.parse(text=source)\n')

# ---------------------------------------------------------------------------------------------------- twins: shape of the loop
T("C10", "twin-continue-flags-index-loop", F, AS_TEXT, AS_TEXT.replace(
    '                if item in "{};":\n                    if "}" in line:\n                        indent -= 1\n                    if "{" in line:\n                        yield "\\n"\n                    yield " " * 4 * indent\n'
    + EMIT + '                    yield "\\n"\n                    if "{" in line:\n                        indent += 1\n                    line = []\n',
    '                if item not in "{};":\n                    continue\n\n                opens_block = "{" in line\n                if "}" in line:\n                    indent -= 1\n                if opens_block:\n                    yield "\\n"\n'
    '                yield " " * (4 * indent)\n\n                last = len(line) - 1\n                for i in range(last):\n                    yield line[i]\n                    if line[i + 1] != ";":\n                        yield " "\n'
    '                yield line[last]\n                yield "\\n"\n\n                if opens_block:\n                    indent += 1\n                line = []\n'))
T("C10", "twin-yield-from-prepared-list", F, EMIT,
  '                    pieces = []\n                    for i, x in enumerate(line):\n                        pieces.append(x)\n                        if len(line) > i + 1 and line[i + 1] != ";":\n                            pieces.append(" ")\n                    yield from pieces\n')
T("C10", "twin-joined-line", F, EMIT,
  '                    if line[-1] == ";":\n                        yield " ".join(line[:-1]) + line[-1]\n                    else:\n                        yield " ".join(line)\n')
T("C10", "twin-joined-line-constant-semicolon", F, EMIT,
  '                    if item == ";":\n                        yield " ".join(line[:-1]) + ";"\n                    else:\n                        yield " ".join(line)\n')
T("C10", "twin-concatenated-separator", F, EMIT,
  '                    for i, x in enumerate(line):\n                        sep = " " if len(line) > i + 1 and line[i + 1] != ";" else ""\n                        yield x + sep\n')
T("C10", "twin-fstring-separator", F, EMIT,
  '                    for x, nxt in zip(line, line[1:] + [None]):\n                        yield f"{x} " if nxt is not None and nxt != ";" else x\n')
T("C10", "twin-extracted-generator-helper", F, EMIT, '                    yield from _spaced(line)\n',
  edits=[(F, CLASS_HEAD, 'def _spaced(line):\n    for i, x in enumerate(line):\n        yield x\n        if len(line) > i + 1 and line[i + 1] != ";":\n            yield " "\n\n\n' + CLASS_HEAD),
         (F, EMIT, '                    yield from _spaced(line)\n')])
T("C10", "twin-nested-helper-closure", F, AS_TEXT, AS_TEXT.replace('        def postproc(items):\n',
  '        def spaced(line):\n            for i, x in enumerate(line):\n                yield x\n                if len(line) > i + 1 and line[i + 1] != ";":\n                    yield " "\n\n        def postproc(items):\n').replace(EMIT, '                    yield from spaced(line)\n'))
T("C10", "twin-explicit-iterator", F, '            for item in items:\n                line.append(item)\n',
  '            it = iter(items)\n            while True:\n                item = next(it, None)\n                if item is None:\n                    break\n                line.append(item)\n')
T("C10", "twin-terminator-tuple", F, '                if item in "{};":\n', '                if item in ("{", "}", ";"):\n')
T("C10", "twin-terminator-module-constant", F, '                if item in "{};":\n', '                if item in _TERMINATORS:\n',
  edits=[(F, PARSER, PARSER + '_TERMINATORS = frozenset("{};")\n'), (F, '                if item in "{};":\n', '                if item in _TERMINATORS:\n')])
T("C10", "twin-terminator-comparisons", F, '                if item in "{};":\n', '                if item == "{" or item == "}" or ";" == item:\n')
T("C10", "twin-buffer-clear", F, '                    line = []\n\n', '                    line.clear()\n\n')
T("C10", "twin-buffer-del-slice", F, '                    line = []\n\n', '                    del line[:]\n\n')
T("C10", "twin-depth-from-item", F, AS_TEXT, AS_TEXT.replace('if "}" in line:', 'if item == "}":').replace('if "{" in line:', 'if item == "{":'))
T("C10", "twin-lines-generator-pipeline", F, AS_TEXT,
  '        def lines(items):\n            line = []\n            for item in items:\n                line.append(item)\n                if item in "{};":\n                    yield line\n                    line = []\n\n'
  '        def postproc(items):\n            indent = 0\n            for line in lines(items):\n                if "}" in line:\n                    indent -= 1\n                if "{" in line:\n                    yield "\\n"\n                yield " " * 4 * indent\n'
  '                for i, x in enumerate(line):\n                    yield x\n                    if len(line) > i + 1 and line[i + 1] != ";":\n                        yield " "\n                yield "\\n"\n                if "{" in line:\n                    indent += 1\n\n' + RETURN)
# (not text-identical - the layout whitespace goes away - but token-identical, which is all C10 asks of the post-processor)
T("C10", "twin-no-postproc", F, RETURN, '        return Reconstructor(c2profile_parser).reconstruct(self.tree)\n')

# ---------------------------------------------------------------------------------------------------- mutants
M("C10", "flush-not-on-closing-brace", F, '                if item in "{};":\n', '                if item in "{;":\n', "C10.R3")
M("C10", "flush-only-on-semicolon", F, '                if item in "{};":\n', '                if item == ";":\n', "C10.R3")
M("C10", "buffer-never-reset", F, '                    line = []\n\n', '\n', "C10.R3")
M("C10", "buffer-reset-before-emit", F, AS_TEXT, AS_TEXT.replace('                    line = []\n', '').replace('                    yield " " * 4 * indent\n', '                    yield " " * 4 * indent\n                    line = [item]\n'), "C10.R3")
M("C10", "join-replace-space-semicolon", F, EMIT, '                    yield " ".join(line).replace(" ;", ";")\n', "C10.R3")
M("C10", "join-without-separator", F, EMIT, '                    yield "".join(line)\n', "C10.R3")
M("C10", "emit-skips-first-item-of-long-lines", F, EMIT, EMIT.replace("enumerate(line):", "enumerate(line[1:] if len(line) > 3 else line):"), "C10.R3")
M("C10", "emit-strips-quotes", F, '                        yield x\n', '                        yield x.strip(\'"\')\n', "C10.R3")
M("C10", "emit-lowercases", F, '                        yield x\n', '                        yield x.lower()\n', "C10.R3")
M("C10", "emit-drops-empty-string-literal", F, '                        yield x\n', '                        if x != \'""\':\n                            yield x\n', "C10.R3")
M("C10", "emit-reversed", F, EMIT, '                    yield " ".join(reversed(line))\n', "C10.R3")
M("C10", "emit-closing-brace-twice", F, '                    yield "\\n"\n                    if "{" in line:\n                        indent += 1\n', '                    yield "\\n"\n                    if "}" in line:\n                        yield "}"\n                    if "{" in line:\n                        indent += 1\n', "C10.R3")
M("C10", "index-loop-forgets-last", F, EMIT, '                    for i in range(len(line) - 1):\n                        yield line[i]\n                        yield " "\n', "C10.R3")
M("C10", "module-level-postproc-drops-variant", F, AS_TEXT, "x",
  "C10.R3", edits=[(F, CLASS_HEAD, _layout("_layout_profile_tokens", emit='        for i, x in enumerate(line):\n            if i == 1 and item == "{":\n                continue\n            yield x\n            yield " "\n') + "\n\n" + CLASS_HEAD),
                   (F, AS_TEXT, '        reconstructor = Reconstructor(c2profile_parser)\n        return reconstructor.reconstruct(self.tree, postproc=_layout_profile_tokens)\n')])
M("C10", "method-postproc-truncates-line", F, AS_TEXT,
  '        return Reconstructor(c2profile_parser).reconstruct(self.tree, self._layout)\n\n' + _layout("_layout", "    ", first="self, items", emit='        for x in line[:3]:\n            yield x\n            yield " "\n'), "C10.R3")
M("C10", "emit-index-past-end", F, '                        if len(line) > i + 1 and line[i + 1] != ";":\n', '                        if line[i + 1] != ";":\n', "C10.R3")
M("C10", "separator-empty-string", F, '                            yield " "\n', '                            yield ""\n', "C10.R3")
M("C10", "no-spaces-and-glued-words", F, AS_TEXT, AS_TEXT.replace('                            yield " "\n', '                            yield ""\n').replace("self.tree, postproc)", "self.tree, postproc, insert_spaces=False)"), "C10.R3")
M("C10", "as-text-other-tree", F, RETURN, '        return Reconstructor(c2profile_parser).reconstruct(Tree("start", []), postproc)\n', "C10.R3")
M("C10", "as-text-strips-result", F, RETURN, '        return Reconstructor(c2profile_parser).reconstruct(self.tree, postproc).replace("\\n\\n", "\\n")\n', "C10.R3")
M("C10", "as-text-other-parser", F, RETURN, '        return Reconstructor(_other_parser).reconstruct(self.tree, postproc)\n', "C10.R3",
  edits=[(F, PARSER, PARSER + '_other_parser = Lark.open("c2profile.lark", parser="lalr", rel_to=__file__, maybe_placeholders=False, keep_all_tokens=True)\n'),
         (F, RETURN, '        return Reconstructor(_other_parser).reconstruct(self.tree, postproc)\n')])
M("C10", "from-text-lowercases-source", F, FROM_TEXT, '        tree = c2profile_parser.parse(source.lower())\n        profile.tree = tree\n', "C10.R3")
M("C10", "from-text-reassigned-source", F, FROM_TEXT, '        source = source.strip().rstrip(";")\n        profile.tree = c2profile_parser.parse(source)\n', "C10.R3")
M("C10", "from-text-stores-empty-tree", F, FROM_TEXT, '        c2profile_parser.parse(source)\n        profile.tree = Tree("start", [])\n', "C10.R3")
M("C10", "dunder-str-render-drops-items", F, "x", "y", "C10.R3",
  edits=[(F, '    def __str__(self) -> str:\n        return self.as_text()\n\n    def as_text(self) -> str:\n', '    def as_text(self) -> str:\n        return str(self)\n\n    def __str__(self) -> str:\n'),
         (F, '                if item in "{};":\n', '                if item in "{;":\n')])
M("C10", "from-text-prunes-tree", F, FROM_TEXT, '        profile.tree = c2profile_parser.parse(source)\n        profile.tree = Tree("start", profile.tree.children[:64])\n', "C10.R3")


# ---------------------------------------------------------------------------------------------------- whole post-processors
def _pp(body, ret=RETURN):
    """A replacement for the nested post-processor of as_text: `body` is its (dedented) body."""
    import textwrap

    return "        def postproc(items):\n" + textwrap.indent(textwrap.dedent(body).strip("\n"), " " * 12) + "\n\n" + ret


_HEAD = """
line = []
indent = 0
for item in items:
    line.append(item)
    if item in "{};":
"""

T("C10", "twin-yield-from-buffer", F, AS_TEXT, _pp(_HEAD + '        yield from line\n        yield "\\n"\n        line = []\n'))
T("C10", "twin-join-plus-item", F, AS_TEXT, _pp(_HEAD + '        yield " ".join(line[:-1]) + item + "\\n"\n        line = []\n'))
T("C10", "twin-final-flush-after-loop", F, AS_TEXT, _pp(_HEAD + '        yield " ".join(line) + "\\n"\n        line = []\nif line:\n    yield " ".join(line)\n'))
T("C10", "twin-clamped-indent", F, AS_TEXT, _pp("""
line = []
indent = 0
for item in items:
    line.append(item)
    if item in "{};":
        if item == "}":
            indent = max(indent - 1, 0)
        yield "    " * indent + " ".join(line) + "\\n"
        if item == "{":
            indent += 1
        line = []
"""))
T("C10", "twin-indent-loop", F, AS_TEXT, _pp("""
line = []
indent = 0
for item in items:
    line.append(item)
    if item in "{};":
        if item == "}":
            indent -= 1
        for _ in range(indent):
            yield "    "
        yield " ".join(line) + "\\n"
        if item == "{":
            indent += 1
        line = []
"""))
T("C10", "twin-constant-brace", F, AS_TEXT, _pp("""
line = []
for item in items:
    line.append(item)
    if item == "{":
        yield " ".join(line[:-1]) + " {\\n"
        line = []
    elif item in "};":
        yield " ".join(line) + "\\n"
        line = []
"""))
T("C10", "twin-separator-helper-function", F, AS_TEXT, _pp("""
def sep_for(buf, i):
    if len(buf) > i + 1 and buf[i + 1] != ";":
        return " "
    return ""

line = []
for item in items:
    line.append(item)
    if item in "{};":
        for i, x in enumerate(line):
            yield x + sep_for(line, i)
        yield "\\n"
        line = []
"""))
T("C10", "twin-reset-by-empty-slice", F, '                    line = []\n\n', '                    line = line[:0]\n\n')
M("C10", "yield-from-buffer-without-lark-spaces", F, AS_TEXT, _pp(_HEAD + '        yield from line\n        yield "\\n"\n        line = []\n', RETURN.replace("postproc)", "postproc, insert_spaces=False)")), "C10.R3")
M("C10", "reversed-emit-loop", F, EMIT, '                    for x in reversed(line):\n                        yield x\n                        yield " "\n', "C10.R3")
M("C10", "flush-line-without-terminator", F, AS_TEXT, _pp(_HEAD + '        yield " ".join(line[:-1]) + "\\n"\n        line = []\n'), "C10.R3")
M("C10", "flush-test-on-first-buffered-item", F, '                if item in "{};":\n', '                if line[0] in "{};":\n', "C10.R3")
M("C10", "terminator-starts-next-line", F, AS_TEXT, _pp("""
line = []
for item in items:
    if item in "{};":
        yield " ".join(line) + "\\n"
        line = []
    line.append(item)
"""), "C10.R3")
M("C10", "constant-semicolon-for-every-terminator", F, AS_TEXT, _pp(_HEAD + '        yield " ".join(line[:-1]) + " ;\\n"\n        line = []\n'), "C10.R3")
M("C10", "only-first-buffered-item-emitted", F, EMIT, '                    yield line[0]\n', "C10.R3")
M("C10", "item-stripped-before-buffering", F, '                line.append(item)\n', '                line.append(item.strip())\n', "C10.R3")
M("C10", "set-keyword-not-buffered", F, '                line.append(item)\n', '                if item == "set":\n                    continue\n                line.append(item)\n', "C10.R3")
M("C10", "comment-text-yielded", F, '                    yield " " * 4 * indent\n', '                    yield " " * 4 * indent\n                    yield "# line\\n"\n', "C10.R3")
M("C10", "item-yielded-twice", F, '                        yield x\n', '                        yield x\n                        yield " "\n                        yield x\n', "C10.R3")
M("C10", "flush-only-long-lines", F, '                if item in "{};":\n', '                if item in "{};" and len(line) > 1:\n', "C10.R3")


# ---------------------------------------------------------------------------------------------------- R3: where / how the module's parser object is built
# The parser identity is the module-level NAME all of whose bindings are lark `Lark(...)` / `Lark.open(...)` constructions,
# wherever the binding stands in the module's own scope (plain statement, `with open(...)`, `try`, `if`) and whichever lark
# constructor is used.  A name bound to something the rule cannot follow (a loader function) -> undecided, but the other
# conditions of the reader / renderer (source text unchanged, own tree, result returned as it is) are still decided.
IMPORT_OS = "import collections\n"
_WITH_PARSER = (
    'with open(os.path.join(os.path.dirname(__file__), "c2profile.lark"), encoding="utf8") as _grammar_fh:\n'
    '    c2profile_parser = Lark(_grammar_fh, parser="lalr", maybe_placeholders=False)\n'
)
_TEXT_PARSERS = (
    'with open(os.path.join(os.path.dirname(__file__), "c2profile.lark"), encoding="utf8") as _grammar_fh:\n'
    '    _grammar_text = _grammar_fh.read()\n'
    '    c2profile_parser = Lark(_grammar_text, parser="lalr", maybe_placeholders=False)\n'
    '    _render_parser = Lark(_grammar_text, parser="lalr", maybe_placeholders=False, keep_all_tokens=True)\n'
)
_LOADER = 'def _load_parser():\n    return Lark.open("c2profile.lark", parser="lalr", rel_to=__file__, maybe_placeholders=False)\n\n\nc2profile_parser = _load_parser()\n'
T("C10", "twin-parser-built-from-open-file", F, PARSER, _WITH_PARSER, edits=[(F, IMPORT_OS, IMPORT_OS + "import os\n"), (F, PARSER, _WITH_PARSER)])
T("C10", "twin-parser-built-under-try", F, PARSER,
  'try:\n    ' + PARSER + 'except OSError as exc:  # pragma: no cover\n    raise ImportError("the c2profile.lark grammar is missing from the installation") from exc\n')
T("C10", "twin-parser-alias-under-if", F, PARSER, PARSER + 'if TYPE_CHECKING:\n    pass\nelse:\n    _PROFILE_PARSER = c2profile_parser\n',
  edits=[(F, PARSER, PARSER + 'if TYPE_CHECKING:\n    pass\nelse:\n    _PROFILE_PARSER = c2profile_parser\n'), (F, FROM_TEXT, '        profile.tree = _PROFILE_PARSER.parse(source)\n')])
T("C10", "twin-parser-and-reconstructor-in-with-block", F, PARSER, _WITH_PARSER,
  edits=[(F, IMPORT_OS, IMPORT_OS + "import os\n"), (F, PARSER, _WITH_PARSER + "    _RECONSTRUCTOR = Reconstructor(c2profile_parser)\n"),
         (F, RETURN, '        return _RECONSTRUCTOR.reconstruct(self.tree, postproc)\n')])
# the parser comes out of a loader function: which object the name denotes is not followed (undecided, silent)
T("C10", "twin-parser-from-loader-function-undecided", F, PARSER, _LOADER)
M("C10", "with-block-second-parser-for-rendering", F, PARSER, _TEXT_PARSERS, "C10.R3",
  edits=[(F, IMPORT_OS, IMPORT_OS + "import os\n"), (F, PARSER, _TEXT_PARSERS), (F, RETURN, '        return Reconstructor(_render_parser).reconstruct(self.tree, postproc)\n')])
M("C10", "with-block-parser-source-expandtabs", F, PARSER, _WITH_PARSER, "C10.R3",
  edits=[(F, IMPORT_OS, IMPORT_OS + "import os\n"), (F, PARSER, _WITH_PARSER), (F, FROM_TEXT, '        profile.tree = c2profile_parser.parse(source.expandtabs(4))\n')])
M("C10", "loader-function-parser-source-casefolded", F, PARSER, _LOADER, "C10.R3",
  edits=[(F, PARSER, _LOADER), (F, FROM_TEXT, '        profile.tree = c2profile_parser.parse(source.casefold())\n')])
M("C10", "loader-function-parser-render-result-stripped", F, PARSER, _LOADER, "C10.R3",
  edits=[(F, PARSER, _LOADER), (F, RETURN, '        return Reconstructor(c2profile_parser).reconstruct(self.tree, postproc).strip()\n')])
M("C10", "try-bound-parser-local-parser-in-reader", F, PARSER, "x", "C10.R3",
  edits=[(F, PARSER, 'try:\n    ' + PARSER + 'except OSError as exc:  # pragma: no cover\n    raise ImportError("grammar missing") from exc\n'),
         (F, FROM_TEXT, '        profile.tree = Lark.open("c2profile.lark", rel_to=__file__, keep_all_tokens=True).parse(source)\n')])


# ---------------------------------------------------------------------------------------------------- R8: the parser's tree is the tree that is printed
# (a part of the tree = whatever is read off the `.parse(...)` result / the profile's `.tree` by attribute, item, iteration,
# unpacking, navigation method; fresh collections of parts - list(..), slices, comprehensions - may be changed freely)
FROM_PATH = '            return cls.from_text(f.read())\n'
M("C10", "from-text-sorts-blocks-in-place", F, FROM_TEXT, '        tree = c2profile_parser.parse(source)\n        tree.children.sort(key=lambda t: t.data)\n        profile.tree = tree\n', "C10.R8")
M("C10", "from-text-lowercases-variant-names", F, FROM_TEXT,
  FROM_TEXT + '        for node in profile.tree.iter_subtrees():\n            if node.data == "variant":\n                name = node.children[0].children[0]\n'
  '                node.children[0].children[0] = Token("STRING", name.lower())\n', "C10.R8")
M("C10", "from-text-drops-empty-blocks", F, FROM_TEXT,
  FROM_TEXT + '        for block in profile.tree.find_pred(lambda t: not t.children):\n            block.data = "empty"\n'
  '        profile.tree.children[:] = [b for b in profile.tree.children if b.data != "empty"]\n', "C10.R8")
M("C10", "from-text-keeps-last-duplicate-option", F, FROM_TEXT,
  '        tree = c2profile_parser.parse(source)\n        seen = {}\n        for i, (name, *_rest) in enumerate(b.children for b in tree.children if b.data == "option"):\n            seen[name] = i\n'
  '        blocks = tree.children\n        for b in [b for b in blocks if b.data == "option"][:-1]:\n            if seen.get(b.children[0]) is not None:\n                blocks.remove(b)\n        profile.tree = tree\n', "C10.R8")
M("C10", "as-text-filters-children", F, RETURN, '        self.tree.children = [c for c in self.tree.children if c.children]\n' + RETURN, "C10.R8")
M("C10", "as-text-pops-trailing-options", F, RETURN,
  '        blocks = self.tree.children\n        while blocks and blocks[-1].data == "option":\n            blocks.pop()\n' + RETURN, "C10.R8")
M("C10", "as-text-helper-method-merges-variants", F, RETURN,
  '        self._merge_default_blocks(self.tree)\n' + RETURN + '\n    @staticmethod\n    def _merge_default_blocks(tree):\n        for block in tree.children:\n'
  '            kids = block.children\n            if kids and isinstance(kids[0], Tree) and kids[0].data == "variant":\n                del kids[0]\n', "C10.R8")
M("C10", "from-path-deduplicates-blocks", F, FROM_PATH,
  '            profile = cls.from_text(f.read())\n        seen = []\n        for block in list(profile.tree.children):\n            if block in seen:\n                profile.tree.children.remove(block)\n'
  '            seen.append(block)\n        return profile\n', "C10.R8")
T("C10", "twin-from-text-inspects-tree", F, FROM_TEXT,
  '        tree = c2profile_parser.parse(source)\n        names = [block.data for block in tree.children]\n        names.sort()\n        logger.debug("parsed blocks: %s", names)\n'
  '        kids = list(tree.children)\n        kids.pop()\n        first = tree.children[:1]\n        first.clear()\n        profile.tree = tree\n        profile._dict_hash = None\n')
T("C10", "twin-as-text-counts-nodes", F, RETURN,
  '        counts = collections.Counter(t.data for t in self.tree.iter_subtrees())\n        counts.pop("string", None)\n        logger.debug("rendering %s", counts)\n        seen = []\n'
  '        for block in self.tree.children:\n            seen.append(block.data)\n' + RETURN)
T("C10", "twin-from-text-validating-helper", F, FROM_TEXT, '        profile.tree = cls._checked(c2profile_parser.parse(source))\n',
  edits=[(F, FROM_TEXT, '        profile.tree = cls._checked(c2profile_parser.parse(source))\n'),
         (F, '    @classmethod\n    def from_path(', '    @staticmethod\n    def _checked(tree):\n        if tree.data != "start":\n            raise ValueError("not a profile tree")\n'
          '        stack = [tree]\n        while stack:\n            node = stack.pop()\n            stack.extend(c for c in node.children if isinstance(c, Tree))\n        return tree\n\n    @classmethod\n    def from_path(')])
# a modification through lark's visitor dispatch is not decided (undecided, not a violation)
T("C10", "twin-from-text-visitor-undecided", F, FROM_TEXT, FROM_TEXT + '        _Stats().visit(profile.tree)\n',
  edits=[(F, FROM_TEXT, FROM_TEXT + '        _Stats().visit(profile.tree)\n'),
         (F, 'def value_to_string(', 'class _Stats(Visitor):\n    seen = 0\n\n    def __default__(self, tree):\n        _Stats.seen += 1\n\n\ndef value_to_string(')])

# ---------------------------------------------------------------------------------------------------- R7: comments / whitespace stay ignored in every parser state
G = "c2profile.lark"
IMPORT_WS = '%import common.WS\n'
IMPORT_COMMENT = '%import common.SH_COMMENT\n'
# the comment terminal is demoted instead of another terminal being promoted: "#" (priority 0) is now tried first
M("C10", "comment-terminal-lower-priority", G, IMPORT_COMMENT, 'SH_COMMENT.-1: /#[^\\n]*/\n', "C10.R7")
# a prioritised regexp terminal for the `# dns_resolver` line: a comment that starts with these words is lexed as that terminal
M("C10", "prioritised-regexp-terminal-inside-comment-language", G, IMPORT_WS, 'x',
  "C10.R7", edits=[(G, '    | "#" "dns_resolver" string ";"             -> comment_dns_resolver', '    | _DNS_RESOLVER_NOTE string ";"             -> comment_dns_resolver'),
                   (G, IMPORT_WS, '_DNS_RESOLVER_NOTE.2: /#[ \\t]*dns_resolver/\n\n' + IMPORT_WS)])
# a second comment syntax whose introducer is outranked by a new prioritised punctuation terminal of a reachable rule
M("C10", "second-comment-syntax-outranked", G, IMPORT_COMMENT, 'x',
  "C10.R7", edits=[(G, IMPORT_COMMENT, IMPORT_COMMENT + 'C_COMMENT: /\\/[^\\n]*/\n%ignore C_COMMENT\n'),
                   (G, IMPORT_WS, 'SLASH.1: "/"\n\n' + IMPORT_WS),
                   (G, '    | "#" "dns_resolver" string ";"             -> comment_dns_resolver', '    | "#" "dns_resolver" string ";"             -> comment_dns_resolver\n    | "/" "dns_resolver" string ";"             -> comment_dns_resolver')])
T("C10", "twin-named-hash-terminal-same-priority", G, IMPORT_WS, 'HASH: "#"\n\n' + IMPORT_WS)
T("C10", "twin-priorities-on-terminals-that-start-differently", G, IMPORT_WS, 'LBRACE.1: "{"\nDNS_RESOLVER.3: "dns_resolver"\n\n' + IMPORT_WS)
T("C10", "twin-own-comment-terminal-two-syntaxes", G, IMPORT_COMMENT, 'SH_COMMENT: /#[^\\n]*/ | "//" /[^\\n]*/\n')

# ---------------------------------------------------------------------------------------------------- R9: every statement form of the language stays accepted in its block context
# R9 compares the LANGUAGE VIEW of the compiled grammar (block context -> terminal sequences of the statement forms accepted
# there, rule names / inline rules / unit productions / repetition helpers looked through) with the reference table of the
# profile language.  Mutants: a statement form is lost in another place and another way than in the seeded change (an
# alternative dropped from a rule shared by four blocks, a variant form, a word of the OPTION terminal, an execute-list
# entry lost in a de-duplication through an inlined helper, a keyword respelled, a block body narrowed).  Twins: the same
# kinds of grammar refactoring done completely (de-duplication through `?helper`, one copy of a shared rule per block,
# a factored-out statement tail, the OPTION terminal composed from two terminals, alternatives reordered).
CLIENT_RULE = (
    'http_get_client_options: "header" string string ";" -> header\n'
    '    | "set" "verb" string ";"                       -> verb\n'
    '    | "metadata" "{" data_transform* "}"            -> metadata\n'
    '    | "id" "{" data_transform*  "}"                 -> id\n'
    '    | "parameter" string string ";"                 -> parameter\n'
    '    | "output" "{"  data_transform*  "}"            -> output\n'
)
M("C10", "strrep-dropped-from-shared-transform-rule", G, '    | "strrep" string string ";"            -> strrep\n', '', "C10.R9")
M("C10", "variant-form-of-https-certificate-dropped", G, '    | "https-certificate" variant? "{" https_certificate_options* "}"   -> https_certificate',
  '    | "https-certificate" "{" https_certificate_options* "}"   -> https_certificate', "C10.R9")
M("C10", "option-word-dropped-from-terminal", G, '    | "tcp_port"\n', '', "C10.R9")
M("C10", "execute-entry-lost-in-deduplication", G, 'x', 'x', "C10.R9",
  edits=[(G, '    | "NtQueueApcThread" ";"                -> ntqueueapcthread\n    | "NtQueueApcThread-s" ";"              -> ntqueueapcthread_s\n', '    | apc_executors\n'),
         (G, 'beacon_gate_options: "None" ";"', '?apc_executors: "NtQueueApcThread" ";"      -> ntqueueapcthread\n\nbeacon_gate_options: "None" ";"')])
M("C10", "termination-keyword-respelled", G, '    | "uri-append" ";"                      -> uri_append', '    | "uri_append" ";"                      -> uri_append', "C10.R9")
M("C10", "stager-client-body-narrowed-to-headers", G, 'x', 'x', "C10.R9",
  edits=[(G, 'http_stager_options: "set" "uri_x86" string ";"     -> uri_x86\n    | "set" "uri_x64" string ";"                    -> uri_x64\n    | "client" "{" http_options* "}"                -> client',
          'http_stager_options: "set" "uri_x86" string ";"     -> uri_x86\n    | "set" "uri_x64" string ";"                    -> uri_x64\n    | "client" "{" http_stager_client_options* "}"  -> client'),
         (G, 'http_options: "header" string string ";"            -> header\n',
          'http_stager_client_options: "header" string string ";" -> header\n    | "parameter" string string ";"                 -> parameter\n\nhttp_options: "header" string string ";"            -> header\n')])
# the de-duplication of the seeded change done completely: the non-shared `set verb` alternative is kept
T("C10", "twin-client-options-deduplicated-through-inline-rule", G, CLIENT_RULE,
  '?http_get_client_options: http_options\n'
  '    | "set" "verb" string ";"                       -> verb\n'
  '    | "metadata" "{" data_transform* "}"            -> metadata\n'
  '    | "id" "{" data_transform* "}"                  -> id\n')
# the shared rule un-shared: http-post gets its own copy (other alternative order)
T("C10", "twin-client-options-one-copy-per-block", G, 'x', 'x',
  edits=[(G, 'http_post_options: "set" "uri" string ";"           -> uri\n    | "set" "verb" string ";"                       -> verb\n    | "client" "{" http_get_client_options* "}"     -> client\n',
          'http_post_options: "set" "uri" string ";"           -> uri\n    | "set" "verb" string ";"                       -> verb\n    | "client" "{" http_post_client_options* "}"    -> client\n'),
         (G, CLIENT_RULE, CLIENT_RULE + '\nhttp_post_client_options: "output" "{" data_transform* "}" -> output\n'
          '    | "id" "{" data_transform* "}"                  -> id\n'
          '    | "metadata" "{" data_transform* "}"            -> metadata\n'
          '    | "header" string string ";"                    -> header\n'
          '    | "parameter" string string ";"                 -> parameter\n'
          '    | "set" "verb" string ";"                       -> verb\n')])
# a statement tail factored out into a spliced rule (no node of its own in the tree)
T("C10", "twin-statement-tail-factored-out", G, 'x', 'x',
  edits=[(G, 'http_get_options: "set" "uri" string ";"            -> uri\n    | "set" "verb" string ";"                       -> verb\n',
          'http_get_options: "set" "uri" _value                -> uri\n    | "set" "verb" _value                           -> verb\n'),
         (G, 'string: STRING\n', 'string: STRING\n_value: string ";"\n')])
# the OPTION terminal composed from two terminals
T("C10", "twin-option-terminal-composed", G, 'x', 'x',
  edits=[(G, '    | "tcp_frame_header"\n    | "tcp_port"\n', '    | TCP_OPTION\n'),
         (G, 'http_config_options: "set" "headers" string ";"', 'TCP_OPTION: "tcp_port" | "tcp_frame_header"\n\nhttp_config_options: "set" "headers" string ";"')])
T("C10", "twin-transform-alternatives-reordered", G, 'stage_transform: "prepend" string ";"       -> prepend\n    | "append" string ";"                   -> append\n    | "strrep" string string ";"            -> strrep\n',
  'stage_transform: "strrep" string string ";"  -> strrep\n    | "append" string ";"                   -> append\n    | "prepend" string ";"                  -> prepend\n')

# ---------------------------------------------------------------------------------------------------- R10: every keyword / option word is lexed whole
# python's alternation is leftmost-first; lark orders longest-first only inside one group of string alternatives and orders
# the terminals of a state by (priority, width, length, name).  Mutants: the order is lost in another way than in the seeded
# change (a prefix family split between the OPTION terminal and a sub-terminal, a hand-written regexp alternation with the
# short word first, a priority on the shorter of two keywords of one block).  Twins: the same regroupings with every prefix
# family kept together / the longer word first / the priority on the longer keyword.
M("C10", "pipename-family-split-over-subterminal", G, 'x', 'x', "C10.R10",
  edits=[(G, '    | "pipename"\n    | "pipename_stager"\n', '    | PIPE_OPTION\n    | "pipename_stager"\n'),
         (G, 'http_config_options: "set" "headers" string ";"', 'PIPE_OPTION: "pipename" | "ssh_pipename" | "smb_frame_header"\n\nhttp_config_options: "set" "headers" string ";"'),
         (G, '    | "smb_frame_header"\n', ''), (G, '    | "ssh_pipename"\n', '')])
M("C10", "regexp-alternation-short-word-first", G, '    | "spawnto"                 // deprecated since Cobalt Strike 3.6\n    | "spawnto_x86"             // moved to post-ex since Cobalt Strike 3.14\n'
  '    | "spawnto_x64"             // moved to post-ex since Cobalt Strike 3.14\n', '    | /spawnto|spawnto_x86|spawnto_x64/\n', "C10.R10")
M("C10", "priority-on-the-shorter-execute-keyword", G, IMPORT_WS, 'x', "C10.R10",
  edits=[(G, '    | "NtQueueApcThread" ";"                -> ntqueueapcthread\n', '    | _NTQUEUEAPCTHREAD ";"                 -> ntqueueapcthread\n'),
         (G, IMPORT_WS, '_NTQUEUEAPCTHREAD.1: "NtQueueApcThread"\n\n' + IMPORT_WS)])
T("C10", "twin-option-groups-keep-prefix-families-together", G, 'x', 'x',
  edits=[(G, '    | "spawnto"                 // deprecated since Cobalt Strike 3.6\n    | "spawnto_x86"             // moved to post-ex since Cobalt Strike 3.14\n'
          '    | "spawnto_x64"             // moved to post-ex since Cobalt Strike 3.14\n', '    | SPAWN_OPTION\n'),
         (G, '    | "pipename"\n    | "pipename_stager"\n', '    | PIPE_OPTION\n'),
         (G, 'http_config_options: "set" "headers" string ";"', 'SPAWN_OPTION: "spawnto" | "spawnto_x86" | "spawnto_x64"\nPIPE_OPTION: "pipename" | "pipename_stager"\n\nhttp_config_options: "set" "headers" string ";"')])
T("C10", "twin-regexp-alternation-long-word-first", G, '    | "spawnto"                 // deprecated since Cobalt Strike 3.6\n    | "spawnto_x86"             // moved to post-ex since Cobalt Strike 3.14\n'
  '    | "spawnto_x64"             // moved to post-ex since Cobalt Strike 3.14\n', '    | /spawnto_x86|spawnto_x64|spawnto/\n')
T("C10", "twin-priority-on-the-longer-execute-keyword", G, IMPORT_WS, 'x',
  edits=[(G, '    | "NtQueueApcThread-s" ";"              -> ntqueueapcthread_s\n', '    | _NTQUEUEAPCTHREAD_S ";"                -> ntqueueapcthread_s\n'),
         (G, IMPORT_WS, '_NTQUEUEAPCTHREAD_S.1: "NtQueueApcThread-s"\n\n' + IMPORT_WS)])

# ---------------------------------------------------------------------------------------------------- R11: every node is printed by lark's tree matcher
# A package subclass of lark's Reconstructor whose `_reconstruct` has a path that does not hand the node to the inherited
# method prints that node by itself: the keywords / punctuation filtered out of the tree are not in the node.  Mutants:
# another node name, another way of writing the shortcut (a loop over the children, a non-generator override with the test
# inverted, an intermediate base class, a module-level reconstructor object) than the seeded change.  Twins: a subclass that
# overrides nothing of lark's API, an override that only delegates, the shortcut restricted to token-only nodes by a test
# on the children (undecided), a subclass with a constructor of its own (undecided).
def _recon(cls_src, ret):
    return [(F, CLASS_HEAD, cls_src + '\n\n' + CLASS_HEAD), (F, RETURN, ret)]


M("C10", "reconstructor-shortcut-for-uri-nodes", F, 'x', 'x', "C10.R11", edits=_recon(
    'class FastReconstructor(Reconstructor):\n'
    '    def _reconstruct(self, tree):\n'
    '        if tree.data in ("uri_x86", "uri_x64"):\n'
    '            for child in tree.children:\n'
    '                yield from child.children\n'
    '            return\n'
    '        yield from super()._reconstruct(tree)\n',
    '        return FastReconstructor(c2profile_parser).reconstruct(self.tree, postproc)\n'))
M("C10", "reconstructor-shortcut-inverted-test-module-level-object", F, 'x', 'x', "C10.R11", edits=_recon(
    'class _CountingReconstructor(Reconstructor):\n'
    '    created = 0\n\n\n'
    'class ProfileWriter(_CountingReconstructor):\n'
    '    def _reconstruct(self, tree):\n'
    '        if tree.data != "string":\n'
    '            return super()._reconstruct(tree)\n'
    '        return iter(tree.children)\n\n\n'
    '_PROFILE_WRITER = ProfileWriter(c2profile_parser)\n',
    '        return _PROFILE_WRITER.reconstruct(self.tree, postproc)\n'))
T("C10", "twin-reconstructor-subclass-without-override", F, 'x', 'x', edits=_recon(
    'class ProfileReconstructor(Reconstructor):\n'
    '    """The reconstructor of Malleable C2 profiles."""\n\n'
    '    grammar_name = "c2profile.lark"\n\n'
    '    def describe(self):\n'
    '        return "reconstructor for " + self.grammar_name\n',
    '        return ProfileReconstructor(c2profile_parser).reconstruct(self.tree, postproc)\n'))
T("C10", "twin-reconstructor-override-only-delegates", F, 'x', 'x', edits=_recon(
    'class ProfileReconstructor(Reconstructor):\n'
    '    def _reconstruct(self, tree):\n'
    '        self.nodes_seen = getattr(self, "nodes_seen", 0) + 1\n'
    '        yield from super()._reconstruct(tree)\n',
    '        return ProfileReconstructor(c2profile_parser).reconstruct(self.tree, postproc)\n'))
T("C10", "twin-reconstructor-shortcut-for-token-only-leaves", F, 'x', 'x', edits=_recon(
    'class ProfileReconstructor(Reconstructor):\n'
    '    def _reconstruct(self, tree):\n'
    '        if tree.data == "string" and len(tree.children) == 1 and isinstance(tree.children[0], Token):\n'
    '            yield from tree.children\n'
    '        else:\n'
    '            yield from super()._reconstruct(tree)\n',
    '        return ProfileReconstructor(c2profile_parser).reconstruct(self.tree, postproc)\n'))
T("C10", "twin-reconstructor-subclass-own-constructor", F, 'x', 'x', edits=_recon(
    'class ProfileReconstructor(Reconstructor):\n'
    '    def __init__(self):\n'
    '        super().__init__(c2profile_parser)\n',
    '        return ProfileReconstructor().reconstruct(self.tree, postproc)\n'))

# ------------------------------------------------------------------------------------------------ R12 (round 8, C10o)
M("C10", "keyword-literal-case-insensitive", "c2profile.lark", '"set" "CN" string ";"', '"set" "CN"i string ";"', "C10.R12")
