"""C12 - additional mutants / twins: one twin per kind of refactoring the rules are robust against, mutants for every
restructured rule (rules/c12.py).  All edits are textual edits of dissect/cobaltstrike/c2profile.py (or the grammar)."""

from selftest.corpus import M, T

F = "c2profile.py"

# ---------------------------------------------------------------------------------------------- anchors (source text)
ENC_BODY = ("    if isinstance(value, bytes):\n"
            "        # we prepend a double quote to the bytes so repr() always escapes using single quote and strip it afterwards\n"
            "        value = repr(b'\"' + value)[3:-1]\n"
            "    if isinstance(value, str):\n"
            "        # we escape double quotes, because we return it as a double quoted string value\n"
            "        value = value.replace('\"', '\\\\\"')\n"
            "        # we don't have to escape single quotes, as we return it as a double quoted value\n"
            "        value = value.replace(\"\\\\'\", \"'\")\n"
            "    return f'\"{value}\"'\n")
ESCAPER = "        value = repr(b'\"' + value)[3:-1]\n"
QREP = "        value = value.replace('\"', '\\\\\"')\n"
SQREP = "        value = value.replace(\"\\\\'\", \"'\")\n"
RET = "    return f'\"{value}\"'\n"

DEC_HEAD = ("        bstring = token.value[1:-1]\n"
            "        buffer = []\n"
            "        # logger.debug(bstring)\n"
            "        it = StringIterator(bstring)\n")
U_BRANCH = ("                    if not it.has_next(4):\n"
            "                        raise ValueError(\"not enough remaining chars for \\\\uXXXX\")\n"
            "                    _ = it.next(2)\n"
            "                    hexstr = \"\".join(it.next(2))\n"
            "                    buffer.append(int(hexstr, 16))\n")
X_BRANCH = ("                    if not it.has_next(2):\n"
            "                        raise ValueError(\"not enough remaining chars for \\\\xXX\")\n"
            "                    hexstr = \"\".join(it.next(2))\n"
            "                    buffer.append(int(hexstr, 16))\n")
SIMPLE = ("                elif next2 == \"n\":\n"
          "                    buffer.append(ord(\"\\n\"))\n"
          "                elif next2 == \"r\":\n"
          "                    buffer.append(ord(\"\\r\"))\n"
          "                elif next2 == \"t\":\n"
          "                    buffer.append(ord(\"\\t\"))\n"
          "                elif next2 == \"\\\\\":\n"
          "                    buffer.append(ord(\"\\\\\"))\n"
          "                elif next2 == '\"':\n"
          "                    buffer.append(ord('\"'))\n"
          "                elif next2 == \"'\":\n"
          "                    buffer.append(ord(\"'\"))\n")
LOOP = ("        for c in it:\n"
        "            if c == \"\\\\\" and it.has_next():\n"
        "                next2 = next(it)\n"
        "                if next2 == \"u\":\n" + U_BRANCH +
        "                elif next2 == \"x\":\n" + X_BRANCH + SIMPLE +
        "            else:\n"
        "                buffer.append(ord(c))\n")
ELSE_ORD = "            else:\n                buffer.append(ord(c))\n"
MASK = "[chr(ord(c) & 0xFF) for c in string]"


def table(n="ord(\"\\n\")", r="ord(\"\\r\")", t="ord(\"\\t\")", extra=""):
    return ("{\"n\": " + n + ", \"r\": " + r + ", \"t\": " + t + ", \"\\\\\": ord(\"\\\\\"), '\"': ord('\"'), \"'\": ord(\"'\")" + extra + "}")


def table_get(tbl):
    """simple escapes through a module-level mapping + .get() (no elif chain)"""
    return [(F, "def string_token_to_bytes(", "_SIMPLE = " + tbl + "\n\n\ndef string_token_to_bytes("),
            (F, SIMPLE, "                else:\n                    byte = _SIMPLE.get(next2)\n                    if byte is not None:\n                        buffer.append(byte)\n")]


def table_in(tbl):
    """simple escapes through `x in TABLE` + TABLE[x]"""
    return [(F, "def string_token_to_bytes(", "SIMPLE_ESC = " + tbl + "\n\n\ndef string_token_to_bytes("),
            (F, SIMPLE, "                elif next2 in SIMPLE_ESC:\n                    buffer.append(SIMPLE_ESC[next2])\n")]


def while_loop(u_branch=None, x_branch=None, plain="decoded.append(ord(char))", guard="char == \"\\\\\" and chars.has_next()"):
    """`while it.has_next(): c = next(it)` loop, escape decoding in a helper that returns the byte (or None)"""
    u = u_branch or ("        if not chars.has_next(4):\n            raise ValueError(\"short\")\n        chars.next(2)\n        return int(\"\".join(chars.next(2)), 16)\n")
    x = x_branch or ("        if not chars.has_next(2):\n            raise ValueError(\"short\")\n        return int(\"\".join(chars.next(2)), 16)\n")
    helper = ("def _decode_escape(chars):\n    kind = next(chars)\n    if kind == \"u\":\n" + u + "    if kind == \"x\":\n" + x +
              "    if kind == \"n\":\n        return 10\n    if kind == \"r\":\n        return 13\n    if kind == \"t\":\n        return 9\n"
              "    if kind in ('\"', \"'\", \"\\\\\"):\n        return ord(kind)\n    return None\n\n\n")
    body = ("        chars = StringIterator(token.value[1:-1])\n        decoded = []\n        while chars.has_next():\n            char = next(chars)\n"
            "            if " + guard + ":\n                byte = _decode_escape(chars)\n                if byte is not None:\n                    decoded.append(byte)\n"
            "            else:\n                " + plain + "\n        return bytes(decoded)\n")
    return [(F, "def string_token_to_bytes(", helper + "def string_token_to_bytes("),
            (F, DEC_HEAD + LOOP + "        # logger.debug(f\"DEBUG: {bytes(buffer)}\")\n        return bytes(buffer)\n", body)]


# ============================================================================================== R1 encoder
# chained replaces into a new local, early return for non-str values, escaper in a helper
T("C12", "twin-enc-chained-early-return", F, "", "", edits=[
    (F, "def value_to_string(", "def _escape_bytes(raw):\n    return repr(b'\"' + raw)[3:-1]\n\n\ndef value_to_string("),
    (F, ENC_BODY, "    if isinstance(value, bytes):\n        value = _escape_bytes(value)\n    if not isinstance(value, str):\n        return f'\"{value}\"'\n"
                  "    escaped = value.replace('\"', '\\\\\"').replace(\"\\\\'\", \"'\")\n    return f'\"{escaped}\"'\n")])
# escaper split into temporaries
T("C12", "twin-enc-escaper-temporaries", F, ESCAPER, "        pinned = b'\"' + value\n        text = repr(pinned)\n        text = text[3:]\n        value = text[:-1]\n")
# the pin appended instead of prepended (slice adapted)
T("C12", "twin-enc-pin-suffix", F, ESCAPER, "        value = repr(value + b'\"')[2:-2]\n")
# if/elif with the whole pipeline per type, separate result variable
T("C12", "twin-enc-per-type-pipeline", F, ENC_BODY,
  "    if isinstance(value, bytes):\n        text = repr(b'\"' + value)[3:-1].replace('\"', '\\\\\"').replace(\"\\\\'\", \"'\")\n"
  "    elif isinstance(value, str):\n        text = value.replace('\"', '\\\\\"').replace(\"\\\\'\", \"'\")\n    else:\n        text = value\n    return f'\"{text}\"'\n")
# the two replacements commute
T("C12", "twin-enc-replacements-swapped", F, QREP + "        # we don't have to escape single quotes, as we return it as a double quoted value\n" + SQREP,
  SQREP + QREP)
# other ways to put the value between the quotes
T("C12", "twin-enc-return-format", F, RET, "    return '\"{}\"'.format(value)\n")
T("C12", "twin-enc-return-percent", F, RET, "    return '\"%s\"' % (value,)\n")
T("C12", "twin-enc-return-concat", F, RET, "    return '\"' + str(value) + '\"'\n")
# literal-pattern re.sub is the same replacement
T("C12", "twin-enc-resub-literal", F, "", "", edits=[(F, "import sys\n", "import sys\nimport re\n"), (F, QREP, "        value = re.sub('\"', r'\\\\\"', value)\n")])

M("C12", "enc-chained-quote-escape-dropped", F, ENC_BODY,
  "    if isinstance(value, bytes):\n        value = repr(b'\"' + value)[3:-1]\n    if not isinstance(value, str):\n        return f'\"{value}\"'\n"
  "    escaped = value.replace(\"\\\\'\", \"'\")\n    return f'\"{escaped}\"'\n", "C12.R1")
M("C12", "enc-quote-escape-first-only", F, QREP, "        value = value.replace('\"', '\\\\\"', 1)\n", "C12.R1")
M("C12", "enc-quote-to-single-quote", F, QREP, "        value = value.replace('\"', \"'\")\n", "C12.R1")
M("C12", "enc-pin-kept-in-output", F, ESCAPER, "        value = repr(b'\"' + value)[2:-1]\n", "C12.R1")
M("C12", "enc-pin-suffix-wrong-slice", F, ESCAPER, "        value = repr(value + b'\"')[2:-1]\n", "C12.R1")
M("C12", "enc-pin-is-single-quote", F, ESCAPER, "        value = repr(b\"'\" + value)[4:-1]\n", "C12.R1")
M("C12", "enc-bytes-early-return-unescaped-quote", F, ESCAPER, "        return '\"' + repr(b'\"' + value)[3:-1] + '\"'\n", "C12.R1")
M("C12", "enc-no-closing-quote", F, RET, "    return f'\"{value}'\n", "C12.R1")
M("C12", "enc-bytes-formatted-raw", F, "    if isinstance(value, bytes):\n", "    if isinstance(value, bytearray):\n", "C12.R1")
M("C12", "enc-single-quote-dropped", F, SQREP, "        value = value.replace(\"\\\\'\", \"\")\n", "C12.R1")

# ============================================================================================== R2 decoder
# table-driven dispatch
T("C12", "twin-dec-table-get", F, "", "", edits=table_get("MappingProxyType(" + table() + ")") + [(F, "import sys\n", "import sys\nfrom types import MappingProxyType\n")])
T("C12", "twin-dec-table-in-subscript", F, "", "", edits=table_in(table(n="0x0A", r="0x0D", t="0x09")))
# local table defined before the loop
T("C12", "twin-dec-local-table", F, "", "", edits=[
    (F, "        buffer = []\n", "        buffer = []\n        simple = " + table() + "\n"),
    (F, SIMPLE, "                elif next2 in simple:\n                    buffer.append(simple[next2])\n")])
# guard clause + continue instead of if/else, temporaries inlined
T("C12", "twin-dec-continue-inverted", F, LOOP,
  "        for c in it:\n            if c != \"\\\\\" or not it.has_next():\n                buffer.append(ord(c))\n                continue\n            escape = next(it)\n"
  "            if escape == \"u\":\n                if not it.has_next(4):\n                    raise ValueError(\"short\")\n                it.next(2)\n                buffer.append(int(\"\".join(it.next(2)), 16))\n"
  "            elif escape == \"x\":\n                if not it.has_next(2):\n                    raise ValueError(\"short\")\n                buffer.append(int(\"\".join(it.next(2)), 16))\n"
  "            elif escape in \"nrt\":\n                buffer.append({\"n\": 10, \"r\": 13, \"t\": 9}[escape])\n"
  "            elif escape in ('\"', \"'\", \"\\\\\"):\n                buffer.append(ord(escape))\n")
# while loop + helper returning the byte
T("C12", "twin-dec-while-helper", F, "", "", edits=while_loop())
# match statement
T("C12", "twin-dec-match", F, SIMPLE,
  "                else:\n                    match next2:\n                        case \"n\":\n                            buffer.append(10)\n                        case \"r\":\n                            buffer.append(13)\n"
  "                        case \"t\":\n                            buffer.append(9)\n                        case \"\\\\\" | '\"' | \"'\":\n                            buffer.append(ord(next2))\n                        case _:\n                            pass\n")
# hex digits read one at a time / all four digits read at once and sliced
T("C12", "twin-dec-x-char-by-char", F, X_BRANCH,
  "                    if not it.has_next(2):\n                        raise ValueError(\"short\")\n                    hexstr = next(it) + next(it)\n                    buffer.append(int(hexstr, 16))\n")
T("C12", "twin-dec-u-read-four-slice", F, U_BRANCH,
  "                    if not it.has_next(4):\n                        raise ValueError(\"short\")\n                    digits = it.next(4)\n                    buffer.append(int(\"\".join(digits[2:]), 16))\n")
# two availability checks, each covering the following read
T("C12", "twin-dec-u-two-checks", F, U_BRANCH,
  "                    if not it.has_next(2):\n                        raise ValueError(\"short\")\n                    it.next(2)\n                    if not it.has_next(2):\n                        raise ValueError(\"short\")\n"
  "                    buffer.append(int(\"\".join(it.next(2)), 16))\n")
# positive check with else-raise
T("C12", "twin-dec-x-positive-check", F, X_BRANCH,
  "                    if it.has_next(count=2):\n                        buffer.append(int(\"\".join(it.next(2)), 16))\n                    else:\n                        raise ValueError(\"short\")\n")
# output buffer variants
T("C12", "twin-dec-bytearray-iadd", F, "", "", edits=[(F, "        buffer = []\n", "        buffer = bytearray()\n"), (F, ELSE_ORD, "            else:\n                buffer += bytes([ord(c)])\n")])
T("C12", "twin-dec-extend-list", F, ELSE_ORD, "            else:\n                buffer.extend([ord(c)])\n")
# quote stripping / masking spelled differently
T("C12", "twin-dec-strip-inline-token-slice", F, DEC_HEAD, "        buffer = []\n        it = StringIterator(str(token)[1:-1])\n")
T("C12", "twin-dec-strip-len-minus-one", F, "        bstring = token.value[1:-1]\n", "        bstring = token.value[1 : len(token.value) - 1]\n")
T("C12", "twin-dec-strip-removeprefix-suffix", F, "        bstring = token.value[1:-1]\n", "        bstring = token.value.removeprefix('\"').removesuffix('\"')\n")
T("C12", "twin-dec-mask-modulo", F, MASK, "[chr(ord(ch) % 256) for ch in string]")
T("C12", "twin-dec-mask-flipped", F, MASK, "list(map(lambda ch: chr(255 & ord(ch)), string))")
# the body any-character class of the STRING terminal spelled as a class
T("C12", "twin-gram-any-char-class", "c2profile.lark", "STRING: \"\\\"\" /(.|\\n)*?/ /(?<!\\\\)(\\\\\\\\)*?/ \"\\\"\"", "STRING: /\"[\\s\\S]*?(?<!\\\\)(\\\\\\\\)*?\"/")
T("C12", "twin-gram-named-fragments", "c2profile.lark", "STRING: \"\\\"\" /(.|\\n)*?/ /(?<!\\\\)(\\\\\\\\)*?/ \"\\\"\"",
  "_DQ: \"\\\"\"\n_BODY: /(.|\\n)*?/\n_EVEN_BACKSLASHES: /(?<!\\\\)(\\\\\\\\)*?/\nSTRING: _DQ _BODY _EVEN_BACKSLASHES _DQ")

M("C12", "dec-table-wrong-byte", F, "", "", "C12.R2", edits=table_get(table(r="0x0A")))
M("C12", "dec-table-missing-quote", F, "", "", "C12.R2", edits=table_in("{\"n\": 10, \"r\": 13, \"t\": 9, \"\\\\\": 92, '\"': 34}"))
M("C12", "dec-table-missing-quote-r3", F, "", "", "C12.R3", edits=table_in("{\"n\": 10, \"r\": 13, \"t\": 9, \"\\\\\": 92, '\"': 34}"))
M("C12", "dec-table-extra-letter", F, "", "", "C12.R2", edits=table_get(table(extra=", \"0\": 0")))
M("C12", "dec-x-nul-byte-dropped", F, "", "", "C12.R2", edits=[
    (F, X_BRANCH, "                    if not it.has_next(2):\n                        raise ValueError(\"short\")\n                    byte = int(\"\".join(it.next(2)), 16)\n                    if byte:\n                        buffer.append(byte)\n")])
M("C12", "dec-while-u-check-after-skip", F, "", "", "C12.R2",
  edits=while_loop(u_branch="        chars.next(2)\n        if not chars.has_next(4):\n            raise ValueError(\"short\")\n        return int(\"\".join(chars.next(2)), 16)\n"))
M("C12", "dec-while-x-one-digit", F, "", "", "C12.R2",
  edits=while_loop(x_branch="        if not chars.has_next(2):\n            raise ValueError(\"short\")\n        return int(\"\".join(chars.next(1)), 16)\n"))
M("C12", "dec-while-plain-char-masked-7bit", F, "", "", "C12.R2", edits=while_loop(plain="decoded.append(ord(char) & 0x7F)"))
M("C12", "dec-while-escape-read-unchecked", F, "", "", "C12.R2", edits=while_loop(guard="char == \"\\\\\""))
M("C12", "dec-x-check-demands-three", F, "                    if not it.has_next(2):\n", "                    if not it.has_next(3):\n", "C12.R2")
M("C12", "dec-u-check-covers-two-only", F, "                    if not it.has_next(4):\n", "                    if not it.has_next(2):\n", "C12.R2")
M("C12", "dec-u-base-ten", F, U_BRANCH, U_BRANCH.replace("int(hexstr, 16)", "int(hexstr, 10)"), "C12.R2")
M("C12", "dec-x-short-input-ignored", F, "                        raise ValueError(\"not enough remaining chars for \\\\xXX\")\n", "                        continue\n", "C12.R2")
M("C12", "dec-x-short-input-indexerror", F, "                        raise ValueError(\"not enough remaining chars for \\\\xXX\")\n", "                        raise IndexError(\"not enough remaining chars for \\\\xXX\")\n", "C12.R2")
M("C12", "dec-backslash-appends-twice", F, "                    buffer.append(ord(\"\\\\\"))\n", "                    buffer.append(ord(\"\\\\\"))\n                    buffer.append(ord(\"\\\\\"))\n", "C12.R2")
M("C12", "dec-plain-char-skips-next", F, ELSE_ORD, "            else:\n                buffer.append(ord(c))\n                if c == \"%\":\n                    next(it)\n", "C12.R2")
M("C12", "dec-strip-all-quotes-inline", F, DEC_HEAD, "        buffer = []\n        it = StringIterator(token.value.strip('\"'))\n", "C12.R2")
M("C12", "dec-strip-leading-only", F, "        bstring = token.value[1:-1]\n", "        bstring = token.value[1:]\n", "C12.R2")
M("C12", "dec-no-strip", F, "        bstring = token.value[1:-1]\n", "        bstring = token.value\n", "C12.R2")
M("C12", "dec-mask-removed", F, MASK, "[chr(ord(c)) for c in string]", "C12.R2")
M("C12", "gram-body-excludes-newline", "c2profile.lark", "STRING: \"\\\"\" /(.|\\n)*?/ /(?<!\\\\)(\\\\\\\\)*?/ \"\\\"\"", "STRING: \"\\\"\" /.*?/ /(?<!\\\\)(\\\\\\\\)*?/ \"\\\"\"", "C12.R4")
M("C12", "gram-single-backslashes", "c2profile.lark", "STRING: \"\\\"\" /(.|\\n)*?/ /(?<!\\\\)(\\\\\\\\)*?/ \"\\\"\"", "STRING: \"\\\"\" /(.|\\n)*?/ /(?<!\\\\)(\\\\)*?/ \"\\\"\"", "C12.R4")

# ---------------------------------------------------------------------------------------------- further reshapes
# both hex escapes share one branch, the digit count is selected by the letter
T("C12", "twin-dec-hex-shared-branch", F, "                if next2 == \"u\":\n" + U_BRANCH + "                elif next2 == \"x\":\n" + X_BRANCH,
  "                if next2 in (\"u\", \"x\"):\n                    count = 4 if next2 == \"u\" else 2\n                    if not it.has_next(count):\n"
  "                        raise ValueError(f\"not enough remaining chars for \\\\{next2}\")\n                    digits = it.next(count)\n"
  "                    buffer.append(int(\"\".join(digits[-2:]), 16))\n")
# table of characters, converted at the append
T("C12", "twin-dec-char-table", F, "", "", edits=[
    (F, "def string_token_to_bytes(", "ESCAPE_CHARS = {\"n\": \"\\n\", \"r\": \"\\r\", \"t\": \"\\t\"}\n\n\ndef string_token_to_bytes("),
    (F, SIMPLE, "                elif next2 in ESCAPE_CHARS:\n                    buffer.append(ord(ESCAPE_CHARS[next2]))\n                elif next2 in \"\\\\\\\"'\":\n                    buffer.append(ord(next2))\n")])
# conditional expression instead of the if statement in the encoder
T("C12", "twin-enc-ifexp", F, "    if isinstance(value, bytes):\n        # we prepend a double quote to the bytes so repr() always escapes using single quote and strip it afterwards\n" + ESCAPER,
  "    value = repr(b'\"' + value)[3:-1] if isinstance(value, bytes) else value\n")
# reshaped beyond what the interpreter models: must be undecided (silent), never violated
T("C12", "twin-dec-undecided-try-stopiteration", F, "            if c == \"\\\\\" and it.has_next():\n                next2 = next(it)\n",
  "            if c == \"\\\\\" and it.has_next():\n                try:\n                    next2 = next(it)\n                except StopIteration:\n                    break\n")
T("C12", "twin-dec-undecided-state-machine", F, DEC_HEAD + LOOP + "        # logger.debug(f\"DEBUG: {bytes(buffer)}\")\n        return bytes(buffer)\n",
  "        text = [chr(ord(ch) & 0xFF) for ch in token.value[1:-1]]\n        out = []\n        i = 0\n        simple = {\"n\": 10, \"r\": 13, \"t\": 9, \"\\\\\": 92, '\"': 34, \"'\": 39}\n"
  "        while i < len(text):\n            ch = text[i]\n            i += 1\n            if ch != \"\\\\\" or i >= len(text):\n                out.append(ord(ch))\n                continue\n"
  "            esc = text[i]\n            i += 1\n            if esc in simple:\n                out.append(simple[esc])\n            elif esc in \"xu\":\n                n = 2 if esc == \"x\" else 4\n"
  "                if i + n > len(text):\n                    raise ValueError(\"short\")\n                out.append(int(\"\".join(text[i + n - 2 : i + n]), 16))\n                i += n\n        return bytes(out)\n")
T("C12", "twin-enc-undecided-translate", F, QREP, "        value = value.translate({34: '\\\\\"'})\n")

# ---------------------------------------------------------------------------------------------- symbolic characters
# the decoder is analysed with the characters symbolic: the code of an ordinary character is the term ord(c); a mask that
# keeps all eight bits of a code in 0..255 is the identity (known-bits lemma), one that clears a bit is not
T("C12", "twin-dec-plain-mask-ff", F, ELSE_ORD, "            else:\n                buffer.append(ord(c) & 0xFF)\n")
T("C12", "twin-dec-plain-mod-256", F, ELSE_ORD, "            else:\n                buffer.append(ord(c) % 256)\n")
M("C12", "dec-plain-mask-7f", F, ELSE_ORD, "            else:\n                buffer.append(ord(c) & 0x7F)\n", "C12.R2")
M("C12", "dec-plain-mod-128", F, ELSE_ORD, "            else:\n                buffer.append(ord(c) % 128)\n", "C12.R2")
M("C12", "dec-plain-appended-twice", F, ELSE_ORD, "            else:\n                buffer.append(ord(c))\n                buffer.append(ord(c))\n", "C12.R2")
# the backslash / an escape letter recognised by its code
T("C12", "twin-dec-compare-by-code", F, "", "", edits=[
    (F, "            if c == \"\\\\\" and it.has_next():\n", "            if ord(c) == 0x5C and it.has_next():\n"),
    (F, "                elif next2 == \"n\":\n", "                elif ord(next2) == 0x6E:\n")])
M("C12", "dec-compare-by-wrong-code", F, "                elif next2 == \"n\":\n", "                elif ord(next2) == 0x6D:\n", "C12.R2")
# the "any other character" case of the escape letter must stay silent (both characters dropped)
M("C12", "dec-other-letter-kept", F, "                    buffer.append(ord(\"'\"))\n", "                    buffer.append(ord(\"'\"))\n                else:\n                    buffer.append(ord(next2))\n", "C12.R2")
M("C12", "dec-simple-escape-appends-letter-code", F, "                    buffer.append(ord(\"\\n\"))\n", "                    buffer.append(ord(next2))\n", "C12.R2")
# STRING body: classes decided on the parsed syntax tree (interval cover / complementary categories)
T("C12", "twin-gram-digit-nondigit-class", "c2profile.lark", "STRING: \"\\\"\" /(.|\\n)*?/ /(?<!\\\\)(\\\\\\\\)*?/ \"\\\"\"", "STRING: /\"[\\d\\D]*?(?<!\\\\)(\\\\\\\\)*?\"/")
T("C12", "twin-gram-range-class", "c2profile.lark", "STRING: \"\\\"\" /(.|\\n)*?/ /(?<!\\\\)(\\\\\\\\)*?/ \"\\\"\"", "STRING: /\"[\\x00-\\U0010ffff]*?(?<!\\\\)(\\\\\\\\)*?\"/")
M("C12", "gram-body-excludes-quote", "c2profile.lark", "STRING: \"\\\"\" /(.|\\n)*?/ /(?<!\\\\)(\\\\\\\\)*?/ \"\\\"\"", "STRING: \"\\\"\" /[^\"]*?/ /(?<!\\\\)(\\\\\\\\)*?/ \"\\\"\"", "C12.R4")
M("C12", "gram-body-ascii-only", "c2profile.lark", "STRING: \"\\\"\" /(.|\\n)*?/ /(?<!\\\\)(\\\\\\\\)*?/ \"\\\"\"", "STRING: \"\\\"\" /[\\x00-\\x7f]*?/ /(?<!\\\\)(\\\\\\\\)*?/ \"\\\"\"", "C12.R4")
# a class the syntax-tree inspection does not understand: undecided, never violated
T("C12", "twin-gram-undecided-dot-or-space", "c2profile.lark", "STRING: \"\\\"\" /(.|\\n)*?/ /(?<!\\\\)(\\\\\\\\)*?/ \"\\\"\"", "STRING: \"\\\"\" /(.|\\s)*?/ /(?<!\\\\)(\\\\\\\\)*?/ \"\\\"\"")

# ---------------------------------------------------------------------------------------------- wave 2
# hex escapes: a constant mask / modulus over the parsed digits is judged by the known-bits lemma L7 (all four digits parsed
# and reduced to the low byte is the same decoder; a mask that keeps a higher bit or a modulus other than 256 is not)
U_FOUR = ("                    if not it.has_next(4):\n"
          "                        raise ValueError(\"not enough remaining chars for \\\\uXXXX\")\n"
          "                    hexstr = \"\".join(it.next(4))\n"
          "                    buffer.append(int(hexstr, 16) %s)\n")
T("C12", "twin-dec-u-four-digits-and-ff", F, U_BRANCH, U_FOUR % "& 0xFF")
T("C12", "twin-dec-u-four-digits-mod-256", F, U_BRANCH, U_FOUR % "% 0x100")
T("C12", "twin-dec-u-four-digits-mask-chain", F, U_BRANCH, U_FOUR.replace("int(hexstr, 16) %s", "0x0FFF & int(hexstr, 16) & 0xF0FF"))
T("C12", "twin-dec-x-masked-ff", F, X_BRANCH, X_BRANCH.replace("int(hexstr, 16)", "int(hexstr, 16) & 0xFF"))
T("C12", "twin-dec-x-mod-256", F, X_BRANCH, X_BRANCH.replace("int(hexstr, 16)", "int(hexstr, 16) % 256"))
M("C12", "dec-u-four-digits-and-1ff", F, U_BRANCH, U_FOUR % "& 0x1FF", "C12.R2")
M("C12", "dec-u-four-digits-and-7f", F, U_BRANCH, U_FOUR % "& 0x7F", "C12.R2")
M("C12", "dec-u-four-digits-mod-512", F, U_BRANCH, U_FOUR % "% 512", "C12.R2")
M("C12", "dec-u-high-pair-masked", F, U_BRANCH, U_BRANCH.replace("                    _ = it.next(2)\n", "").replace(
    "                    buffer.append(int(hexstr, 16))\n", "                    it.next(2)\n                    buffer.append(int(hexstr, 16) & 0xFF)\n"), "C12.R2")
M("C12", "dec-x-mod-255", F, X_BRANCH, X_BRANCH.replace("int(hexstr, 16)", "int(hexstr, 16) % 0xFF"), "C12.R2")
M("C12", "dec-x-mask-7f", F, X_BRANCH, X_BRANCH.replace("int(hexstr, 16)", "int(hexstr, 16) & 0x7F"), "C12.R2")

# encoder: the unicode_escape codec over a latin-1 decoding is a second byte-wise escaper (lemma L1b); it leaves the single
# quote unescaped, so it is lossless exactly when no rewrite of backslash + X with X a plain token follows (lemma L2b)
CODEC = "value.decode(\"latin-1\").encode(\"unicode_escape\").decode(\"ascii\")"
ENC_HEAD = ("    if isinstance(value, bytes):\n"
            "        # we prepend a double quote to the bytes so repr() always escapes using single quote and strip it afterwards\n" + ESCAPER)
T("C12", "twin-enc-codec-escaper-own-pipeline", F, ENC_HEAD, "    if isinstance(value, bytes):\n        return '\"' + " + CODEC + ".replace('\"', '\\\\\"') + '\"'\n")
T("C12", "twin-enc-codec-escaper-str-ctor", F, ENC_HEAD,
  "    if isinstance(value, bytes):\n        text = str(value, \"iso-8859-1\")\n        text = str(text.encode(\"unicode-escape\"), \"ascii\")\n        return '\"' + text.replace('\"', '\\\\\"') + '\"'\n")
M("C12", "enc-codec-escaper-unescape-in-own-pipeline", F, ENC_HEAD,
  "    if isinstance(value, bytes):\n        text = str(value, \"iso-8859-1\")\n        text = str(text.encode(\"unicode-escape\"), \"ascii\")\n"
  "        return '\"' + text.replace(\"\\\\'\", \"'\").replace('\"', '\\\\\"') + '\"'\n", "C12.R1")
M("C12", "enc-codec-escaper-ascii-decode", F, ENC_HEAD, "    if isinstance(value, bytes):\n        return '\"' + " + CODEC.replace("latin-1", "ascii") + ".replace('\"', '\\\\\"') + '\"'\n", "C12.R1")
M("C12", "enc-codec-escaper-sliced", F, ENC_HEAD, "    if isinstance(value, bytes):\n        return '\"' + " + CODEC + "[1:-1].replace('\"', '\\\\\"') + '\"'\n", "C12.R1")
# the same kind with the repr escaper: an un-escape of backslash + letter splits an escaped backslash followed by that letter
M("C12", "enc-repr-tab-unescaped", F, SQREP, SQREP + "        value = value.replace(\"\\\\t\", \"\\t\")\n", "C12.R1")
M("C12", "enc-repr-hex-prefix-rewritten", F, ESCAPER, "        value = repr(b'\"' + value)[3:-1].replace(\"\\\\x\", \"%\")\n", "C12.R1")

# ---------------------------------------------------------------------------------------------- wave 4
# hex escapes converted through a table / digit string of the module: the table is folded and compared completely with the
# reference table of hex spellings (both cases unless the digits are case-normalised first); a complete, correct table IS
# int(<pair>, 16), a table without the upper/mixed-case spellings makes a valid escape raise / decode to the default
HEXD = "\"0123456789abcdefABCDEF\""


def hex_via(table_src, convert, branch=X_BRANCH):
    """the digit pair of \\xHH converted by `convert` (an expression over `hexstr`), with a module-level table"""
    return [(F, "def string_token_to_bytes(", table_src + "\n\n\ndef string_token_to_bytes("),
            (F, branch, branch.replace("                    buffer.append(int(hexstr, 16))\n", convert))]


T("C12", "twin-dec-hex-table-both-cases", F, "", "", edits=hex_via(
    "_HEXD = " + HEXD + "\n_HEX_PAIRS = {a + b: int(a + b, 16) for a in _HEXD for b in _HEXD}",
    "                    try:\n                        buffer.append(_HEX_PAIRS[hexstr])\n                    except KeyError:\n                        raise ValueError(\"bad hex digits\") from None\n"))
T("C12", "twin-dec-hex-table-lower-normalised", F, "", "", edits=hex_via(
    "_HEX_PAIRS = {f\"{v:02x}\": v for v in range(256)}",
    "                    buffer.append(_HEX_PAIRS[hexstr.lower()])\n", U_BRANCH))
T("C12", "twin-dec-hex-nibbles", F, X_BRANCH, X_BRANCH.replace("int(hexstr, 16)", "int(hexstr[0], 16) * 16 + int(hexstr[1], 16)"))
T("C12", "twin-dec-hex-nibbles-shift-or", F, U_BRANCH, U_BRANCH.replace("int(hexstr, 16)", "(int(hexstr[0], 16) << 4) | int(hexstr[1], 16)"))
T("C12", "twin-dec-hex-digit-string-index", F, "", "", edits=hex_via(
    "_DIGITS = \"0123456789abcdef\"", "                    hexstr = hexstr.lower()\n                    buffer.append(_DIGITS.index(hexstr[0]) * 16 + _DIGITS.index(hexstr[1]))\n"))
T("C12", "twin-dec-hex-int-try-valueerror", F, X_BRANCH, X_BRANCH.replace(
    "                    buffer.append(int(hexstr, 16))\n",
    "                    try:\n                        buffer.append(int(hexstr, 16))\n                    except ValueError:\n                        raise ValueError(f\"bad hex digits {hexstr!r}\") from None\n"))
M("C12", "dec-hex-table-upper-only-get", F, "", "", "C12.R2", edits=hex_via(
    "_HEX_PAIRS = {\"%02X\" % v: v for v in range(256)}",
    "                    byte = _HEX_PAIRS.get(hexstr)\n                    if byte is None:\n                        raise ValueError(\"bad hex digits\")\n                    buffer.append(byte)\n"))
M("C12", "dec-hex-table-lower-only-default-zero", F, "", "", "C12.R2", edits=hex_via(
    "_HEX_PAIRS = dict((format(v, \"02x\"), v) for v in range(256))", "                    buffer.append(_HEX_PAIRS.get(hexstr, 0))\n", U_BRANCH))
M("C12", "dec-hex-lowercase-set-guard", F, "", "", "C12.R2", edits=hex_via(
    "_VALID_PAIRS = frozenset(f\"{v:02x}\" for v in range(256))",
    "                    if hexstr not in _VALID_PAIRS:\n                        raise ValueError(\"bad hex digits\")\n                    buffer.append(int(hexstr, 16))\n"))
M("C12", "dec-hex-digit-string-index-lowercase", F, "", "", "C12.R2", edits=hex_via(
    "_DIGITS = \"0123456789abcdef\"", "                    buffer.append(_DIGITS.index(hexstr[0]) * 16 + _DIGITS.index(hexstr[1]))\n"))
M("C12", "dec-hex-table-swapped-nibbles", F, "", "", "C12.R2", edits=hex_via(
    "_HEXD = " + HEXD + "\n_HEX_PAIRS = {a + b: int(b + a, 16) for a in _HEXD for b in _HEXD}", "                    buffer.append(_HEX_PAIRS[hexstr])\n"))
M("C12", "dec-hex-nibbles-wrong-weight", F, X_BRANCH, X_BRANCH.replace("int(hexstr, 16)", "int(hexstr[0], 16) * 16 + int(hexstr[0], 16)"), "C12.R2")

# R5: the decoding loop is the only decoder.  Whole-text str.replace passes over the literal's text (before the loop or as a
# "fast path" decoder of their own) are judged by lemma L8 against the token structure of a literal; a return that bypasses
# the loop needs a path condition that excludes every escape
ITER = "        it = StringIterator(bstring)\n"
FAST = "        bstring = token.value[1:-1]\n"
T("C12", "twin-dec-fast-path-no-backslash", F, FAST, FAST + "        if \"\\\\\" not in bstring:\n            return bytes(ord(ch) & 0xFF for ch in bstring)\n")
T("C12", "twin-dec-prepass-unescape-double-quote", F, ITER, "        it = StringIterator(bstring.replace('\\\\\"', '\"'))\n")
T("C12", "twin-dec-empty-literal-early", F, FAST, FAST + "        if not bstring:\n            return b\"\"\n")
M("C12", "dec-prepass-unescape-single-quote", F, ITER, "        it = StringIterator(bstring.replace(\"\\\\'\", \"'\"))\n", "C12.R5")
M("C12", "dec-prepass-unescape-backslash", F, FAST, "        bstring = token.value[1:-1].replace(\"\\\\\\\\\", \"\\\\\")\n", "C12.R5")
M("C12", "dec-fast-path-replace-backslash-first", F, "", "", "C12.R5", edits=[
    (F, "def string_token_to_bytes(", "_PAIRS = {\"\\\\\\\\\": \"\\\\\", \"\\\\t\": \"\\t\", \"\\\\n\": \"\\n\", \"\\\\r\": \"\\r\"}\n\n\ndef string_token_to_bytes("),
    (F, FAST, FAST + "        if \"\\\\x\" not in bstring and \"\\\\u\" not in bstring and '\\\\\"' not in bstring and \"\\\\'\" not in bstring:\n"
              "            text = bstring\n            for pair, char in _PAIRS.items():\n                text = text.replace(pair, char)\n            return text.encode(\"latin-1\")\n")])
M("C12", "dec-fast-path-raw-when-no-hex", F, FAST, FAST + "        if \"\\\\x\" not in bstring and \"\\\\u\" not in bstring:\n            return bstring.encode(\"latin-1\")\n", "C12.R5")
M("C12", "dec-tab-unescaped-inline", F, ITER, "        it = StringIterator(bstring.replace(\"\\\\t\", \"\\t\").replace(\"\\\\n\", \"\\n\"))\n", "C12.R5")

# ---------------------------------------------------------------------------------------------- wave 5
# R1: a path that skips the escaper ("fast path" for plain text) is judged by the facts its own tests give about the characters of
# the value (per-character predicates of CPython, lemma L13; `<constant> in value`): they must exclude the backslash byte, and the
# double quote unless it is still replaced
FASTPATH = "    if isinstance(value, bytes):\n%s        # we prepend a double quote to the bytes so repr() always escapes using single quote and strip it afterwards\n" + ESCAPER
T("C12", "twin-enc-fast-path-alnum", F, ENC_HEAD, FASTPATH % "        if value.isalnum():\n            return '\"' + value.decode(\"ascii\") + '\"'\n")
T("C12", "twin-enc-fast-path-printable-without-backslash", F, ENC_HEAD,
  "    if isinstance(value, bytes):\n        if b\"\\\\\" not in value and value.isascii() and value.decode(\"ascii\").isprintable():\n            value = value.decode(\"ascii\")\n"
  "        else:\n            value = repr(b'\"' + value)[3:-1]\n")
T("C12", "twin-enc-fast-path-str-alpha", F, "    if isinstance(value, str):\n", "    if isinstance(value, str) and value.isascii() and value.isalpha():\n        return '\"' + value + '\"'\n    if isinstance(value, str):\n")
# a guard the analysis does not understand: undecided, never violated
T("C12", "twin-enc-undecided-fast-path-generator-guard", F, ENC_HEAD, FASTPATH % "        if all(48 <= b < 58 for b in value):\n            return '\"' + value.decode(\"ascii\") + '\"'\n")
M("C12", "enc-fast-path-ascii-single-line", F, ENC_HEAD,
  FASTPATH % "        if value.isascii() and b\"\\n\" not in value and b\"\\r\" not in value:\n            return '\"' + value.decode(\"ascii\").replace('\"', '\\\\\"') + '\"'\n", "C12.R1")
M("C12", "enc-fast-path-latin1-printable", F, ENC_HEAD,
  "    if isinstance(value, bytes):\n        text = str(value, \"latin-1\")\n        value = text if text.isprintable() else repr(b'\"' + value)[3:-1]\n", "C12.R1")
M("C12", "enc-fast-path-no-backslash-quote-kept", F, ENC_HEAD, FASTPATH % "        if b\"\\\\\" not in value and value.isascii():\n            return '\"' + value.decode(\"ascii\") + '\"'\n", "C12.R1")
M("C12", "enc-bytes-only-decoded", F, ESCAPER, "        value = value.decode(\"latin-1\")\n", "C12.R1")

# R2: the bytes a text codec gives for ONE character (lemma L12): latin-1 over a code in 0..255 is exactly that byte, utf-8 / ascii
# are not (two or more bytes / an exception from 0x80 on) - the documented value of an escape is its low byte
T("C12", "twin-dec-x-chr-latin1", F, X_BRANCH, X_BRANCH.replace("buffer.append(int(hexstr, 16))", "buffer.extend(chr(int(hexstr, 16)).encode(\"latin-1\"))"))
T("C12", "twin-dec-u-four-digits-masked-chr-latin1", F, U_BRANCH, (U_FOUR % "").replace("buffer.append(int(hexstr, 16) )", "buffer += bytes(chr(int(hexstr, 16) & 0xFF), \"iso-8859-1\")"))
T("C12", "twin-dec-plain-encode-latin1", F, ELSE_ORD, "            else:\n                buffer.extend(c.encode(\"latin-1\"))\n")
T("C12", "twin-dec-x-ord-chr", F, X_BRANCH, X_BRANCH.replace("buffer.append(int(hexstr, 16))", "buffer.append(ord(chr(int(hexstr, 16))))"))
M("C12", "dec-x-chr-utf8", F, X_BRANCH, X_BRANCH.replace("buffer.append(int(hexstr, 16))", "buffer.extend(chr(int(hexstr, 16)).encode())"), "C12.R2")
M("C12", "dec-u-four-digits-chr-latin1", F, U_BRANCH, (U_FOUR % "").replace("buffer.append(int(hexstr, 16) )", "buffer.extend(chr(int(hexstr, 16)).encode(\"latin-1\"))"), "C12.R2")
M("C12", "dec-plain-encode-utf8", F, ELSE_ORD, "            else:\n                buffer.extend(c.encode(\"utf-8\"))\n", "C12.R2")
M("C12", "dec-u-low-pair-chr-ascii", F, U_BRANCH, U_BRANCH.replace("buffer.append(int(hexstr, 16))", "buffer += chr(int(hexstr, 16)).encode(\"ascii\")"), "C12.R2")
# an escaper written by hand on the fast path (backslash doubled by a replacement): not worked out - undecided, never violated
T("C12", "twin-enc-undecided-fast-path-own-backslash-escape", F, ENC_HEAD,
  FASTPATH % ("        if value.isascii() and value.decode(\"ascii\").isprintable():\n"
              "            return '\"' + value.decode(\"ascii\").replace(\"\\\\\", \"\\\\\\\\\").replace('\"', '\\\\\"') + '\"'\n"))

# ---------------------------------------------------------------------------------------------- wave 7
# R2: the iterator's cursor read directly instead of has_next().  The iterator's own has_next(n) is `index + n <= len(buffer)`
# (read off its syntax tree), so a comparison of `it.index` (+ constant) with len(<the text> / it.buffer) (+ constant) is a linear
# inequality over the two symbols CUR0 / LEN and IS an availability test for a definite number of characters (lemma L14): the
# guard of an escape must ask for exactly one character, a hex escape for exactly its digits
GUARD = "            if c == \"\\\\\" and it.has_next():\n"
X_CHECK = "                    if not it.has_next(2):\n"
U_CHECK = "                    if not it.has_next(4):\n"
TAIL = "        # logger.debug(f\"DEBUG: {bytes(buffer)}\")\n        return bytes(buffer)\n"
T("C12", "twin-dec-guard-cursor-lt-len", F, GUARD, "            if c == \"\\\\\" and it.index < len(bstring):\n")
T("C12", "twin-dec-guard-cursor-le-last", F, "", "", edits=[
    (F, "        it = StringIterator(bstring)\n", "        it = StringIterator(bstring)\n        last = len(bstring) - 1\n"),
    (F, GUARD, "            if c == \"\\\\\" and it.index <= last:\n")])
T("C12", "twin-dec-guard-remaining-at-least-one", F, GUARD, "            if c == \"\\\\\" and len(it.buffer) - it.index >= 1:\n")
T("C12", "twin-dec-x-check-by-cursor", F, X_CHECK, "                    if it.index + 2 > len(bstring):\n")
T("C12", "twin-dec-u-check-by-cursor-mirrored", F, U_CHECK, "                    if len(it.buffer) < 4 + it.index:\n")
# == / != on the cursor is an availability test only under an invariant that is not established: undecided, never violated
T("C12", "twin-dec-undecided-guard-cursor-ne-len", F, GUARD, "            if c == \"\\\\\" and it.index != len(bstring):\n")
M("C12", "dec-guard-cursor-plus-one-lt-len", F, GUARD, "            if c == \"\\\\\" and it.index + 1 < len(bstring):\n", "C12.R2")
M("C12", "dec-guard-remaining-gt-one", F, GUARD, "            if c == \"\\\\\" and len(it.buffer) - it.index > 1:\n", "C12.R2")
M("C12", "dec-guard-has-next-two", F, GUARD, "            if c == \"\\\\\" and it.has_next(2):\n", "C12.R2")
M("C12", "dec-x-cursor-check-off-by-one", F, X_CHECK, "                    if it.index + 2 >= len(bstring):\n", "C12.R2")
M("C12", "dec-u-cursor-check-covers-three", F, U_CHECK, "                    if it.index + 3 > len(bstring):\n", "C12.R2")

# R6: decoding is a function of the literal alone - the object the loop appends the bytes to is created by the call, or (when it
# outlives the call: a module-level object, a class attribute, a mutable parameter default) it is emptied before the loop on
# every path / in a `finally` covering the loop.  Emptied only on the normal way out = stale bytes after a rejected literal.
SIG = "def string_token_to_bytes(token: Token) -> Union[Token, bytes]:\n"
SCRATCH = (F, "def string_token_to_bytes(", "_SCRATCH = bytearray()\n\n\ndef string_token_to_bytes(")
T("C12", "twin-dec-buffer-bytearray-ctor", F, "        buffer = []\n", "        buffer = bytearray()\n")
T("C12", "twin-dec-buffer-copy-of-module-list", F, "", "", edits=[
    (F, "def string_token_to_bytes(", "_NOTHING = []\n\n\ndef string_token_to_bytes("), (F, "        buffer = []\n", "        buffer = list(_NOTHING)\n")])
T("C12", "twin-dec-shared-buffer-emptied-on-entry", F, "", "", edits=[SCRATCH, (F, "        buffer = []\n", "        buffer = _SCRATCH\n        buffer.clear()\n")])
T("C12", "twin-dec-shared-buffer-emptied-in-finally", F, "", "", edits=[
    SCRATCH, (F, DEC_HEAD + LOOP + TAIL,
              "        bstring = token.value[1:-1]\n        buffer = _SCRATCH\n        it = StringIterator(bstring)\n        try:\n"
              + "".join("    " + ln + "\n" for ln in LOOP.splitlines()) + "            return bytes(buffer)\n        finally:\n            del buffer[:]\n")])
M("C12", "dec-buffer-mutable-default", F, "", "", "C12.R6", edits=[
    (F, SIG, "def string_token_to_bytes(token: Token, buffer=[]) -> Union[Token, bytes]:\n"), (F, "        buffer = []\n", "")])
M("C12", "dec-shared-list-emptied-after-loop-only", F, "", "", "C12.R6", edits=[
    (F, "def string_token_to_bytes(", "_OUT: List[int] = []\n\n\ndef string_token_to_bytes("), (F, "        buffer = []\n", "        buffer = _OUT\n"),
    (F, TAIL, "        data = bytes(buffer)\n        del buffer[:]\n        return data\n")])
M("C12", "dec-buffer-class-attribute-never-emptied", F, "", "", "C12.R6", edits=[
    (F, "    \"\"\"Helper class for iterating over characters in a string\"\"\"\n", "    \"\"\"Helper class for iterating over characters in a string\"\"\"\n\n    scratch: List[int] = []\n"),
    (F, "        buffer = []\n", "        buffer = StringIterator.scratch\n")])
# emptied in a handler that re-raises + on the normal way out: every explicit exit empties it, implicit exceptions are not modelled and
# no `finally` covers the loop - undecided, never violated
T("C12", "twin-dec-undecided-shared-buffer-emptied-in-handler", F, "", "", edits=[
    SCRATCH, (F, DEC_HEAD + LOOP + TAIL,
              "        bstring = token.value[1:-1]\n        buffer = _SCRATCH\n        it = StringIterator(bstring)\n        try:\n"
              + "".join("    " + ln + "\n" for ln in LOOP.splitlines()) + "        except ValueError:\n            buffer.clear()\n            raise\n"
              "        data = bytes(buffer)\n        buffer.clear()\n        return data\n")])
# ... but a handler for another exception class does not help the ValueError of a short escape
M("C12", "dec-shared-buffer-emptied-in-keyerror-handler", F, "", "", "C12.R6", edits=[
    SCRATCH, (F, DEC_HEAD + LOOP + TAIL,
              "        bstring = token.value[1:-1]\n        buffer = _SCRATCH\n        it = StringIterator(bstring)\n        try:\n"
              + "".join("    " + ln + "\n" for ln in LOOP.splitlines()) + "        except KeyError:\n            buffer.clear()\n            raise\n"
              "        data = bytes(buffer)\n        buffer.clear()\n        return data\n")])

# ---------------------------------------------------------------------------------------------- wave 8
# R2: act-then-validate.  next(n) is a slice of the buffer (read off StringIterator.next), so a test of the length of what was read IS
# the availability check, made after the fact (lemma L15): `len(digits) < n`, `!= n`, `== n ... else raise`, mirrored, on the joined text
T("C12", "twin-dec-read-then-validate-length", F, "", "", edits=[
    (F, U_BRANCH, "                    digits = it.next(4)\n                    if len(digits) < 4:\n                        raise ValueError(\"not enough remaining chars for \\\\uXXXX\")\n"
                  "                    hexstr = \"\".join(digits[2:])\n                    buffer.append(int(hexstr, 16))\n"),
    (F, X_BRANCH, "                    digits = it.next(2)\n                    if len(digits) < 2:\n                        raise ValueError(\"not enough remaining chars for \\\\xXX\")\n"
                  "                    hexstr = \"\".join(digits)\n                    buffer.append(int(hexstr, 16))\n")])
T("C12", "twin-dec-read-then-validate-neq-and-else", F, "", "", edits=[
    (F, U_BRANCH, "                    digits = it.next(4)\n                    if len(digits) == 4:\n                        buffer.append(int(\"\".join(digits[2:]), 16))\n"
                  "                    else:\n                        raise ValueError(\"not enough remaining chars for \\\\uXXXX\")\n"),
    (F, X_BRANCH, "                    hexstr = \"\".join(it.next(2))\n                    if 2 != len(hexstr):\n                        raise ValueError(\"not enough remaining chars for \\\\xXX\")\n"
                  "                    buffer.append(int(hexstr, 16))\n")])
T("C12", "twin-dec-read-then-validate-mirrored", F, X_BRANCH,
  "                    pair = it.next(2)\n                    if 2 > len(pair):\n                        raise ValueError(\"not enough remaining chars for \\\\xXX\")\n"
  "                    buffer.append(int(\"\".join(pair), 16))\n")
# ... but the validation must cover everything that was read: "not empty" / "at least one" lets a one-digit escape through
M("C12", "dec-read-then-validate-nonempty-only", F, X_BRANCH,
  "                    digits = it.next(2)\n                    if not digits:\n                        raise ValueError(\"not enough remaining chars for \\\\xXX\")\n"
  "                    buffer.append(int(\"\".join(digits), 16))\n", "C12.R2")
M("C12", "dec-read-then-validate-too-few", F, U_BRANCH,
  "                    digits = it.next(4)\n                    if len(digits) < 3:\n                        raise ValueError(\"not enough remaining chars for \\\\uXXXX\")\n"
  "                    buffer.append(int(\"\".join(digits[2:]), 16))\n", "C12.R2")
M("C12", "dec-read-then-validate-demands-too-much", F, X_BRANCH,
  "                    digits = it.next(2)\n                    if len(digits) < 2 or not it.has_next():\n                        raise ValueError(\"not enough remaining chars for \\\\xXX\")\n"
  "                    buffer.append(int(\"\".join(digits), 16))\n", "C12.R2")

# R1: the encoder decides by a look at the data (length / first / last character of the text) whether it quotes and escapes: a path that
# returns the text without delimiters is violated as soon as a value composed of the compared constants takes it
STR_HEAD = "    if isinstance(value, str):\n"
M("C12", "enc-braces-taken-as-already-formatted", F, STR_HEAD, STR_HEAD + "        if value.startswith(\"{\") and value.endswith(\"}\"):\n            return value\n", "C12.R1")
M("C12", "enc-leading-quote-taken-as-quoted", F, STR_HEAD, STR_HEAD + "        if len(value) > 1 and value[:1] == '\"':\n            return value\n", "C12.R1")
# a constant returned for a special shape / a shape test that only picks between two correct ways: never violated
T("C12", "twin-enc-undecided-empty-value-constant", F, STR_HEAD, STR_HEAD + "        if len(value) == 0:\n            return '\"\"'\n")
T("C12", "twin-enc-shape-test-both-branches-escape", F, QREP, "        if value.startswith('\"') or len(value) > 64:\n            value = value.replace('\"', '\\\\\"')\n        else:\n" + "    " + QREP)

# R5: whatever is returned for a STRING token before the loop is bytes (a str never equals the encoded bytes)
M("C12", "dec-fast-path-returns-text", F, FAST, FAST + "        if \"\\\\\" not in bstring:\n            return bstring\n", "C12.R5")
M("C12", "dec-empty-literal-returns-empty-str", F, FAST, FAST + "        if bstring == \"\":\n            return \"\"\n", "C12.R5")
T("C12", "twin-dec-empty-literal-compared-early", F, FAST, FAST + "        if bstring == \"\":\n            return bytes()\n")

