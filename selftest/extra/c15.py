"""Extra corpus for C15: the scanner written with one rolling window (extended in place, then cut back to the overlap) -
the form the loader's live-range splitting turns back into carry + haystack."""
from selftest.corpus import M, T

_OLD = ("    needle_len = len(needle)\n    overlap_len = needle_len - 1\n    saved = b\"\"\n    if start_offset is not None:\n        fp.seek(start_offset)\n"
        "    while True:\n        pos = fp.tell()\n        if max_offset and pos > max_offset:\n            break\n        block = fp.read(io.DEFAULT_BUFFER_SIZE)\n"
        "        if not block:\n            break\n        d = saved + block\n        p = -1\n        while True:\n            p = d.find(needle, p + 1)\n"
        "            if p == -1 or max_offset and p > max_offset:\n                break\n            offset = pos + p - len(saved)\n            yield offset\n"
        "        saved = d[-overlap_len:] if overlap_len else b\"\"\n")


def _window(offset_stmts="        window_offset = block_offset - len(window)\n        window += block\n", seed='b""',
            tail="        window = window[-overlap_len:] if overlap_len else b\"\"\n", yielded="window_offset + index"):
    return ("    overlap_len = len(needle) - 1\n    window = " + seed + "\n    if start_offset is not None:\n        fp.seek(start_offset)\n"
            "    while True:\n        block_offset = fp.tell()\n        if max_offset and block_offset > max_offset:\n            break\n"
            "        block = fp.read(io.DEFAULT_BUFFER_SIZE)\n        if not block:\n            break\n" + offset_stmts +
            "        index = -1\n        while True:\n            index = window.find(needle, index + 1)\n"
            "            if index == -1 or max_offset and index > max_offset:\n                break\n            yield " + yielded + "\n" + tail)


T("C15", "twin-rolling-window", "utils.py", _OLD, _window())
T("C15", "twin-rolling-window-explicit-concat", "utils.py", _OLD, _window("        window_offset = block_offset - len(window)\n        window = window + block\n"))
T("C15", "twin-rolling-window-carry-length-local", "utils.py", _OLD,
  _window("        carried = len(window)\n        window += block\n", yielded="block_offset + index - carried"))
M("C15", "rolling-window-length-after-extension", "utils.py", _OLD,
  _window("        window += block\n        window_offset = block_offset - len(window)\n"), "C15.R3")
M("C15", "rolling-window-zero-seed", "utils.py", _OLD, _window(seed='b"\\x00" * overlap_len'), "C15.R1")
M("C15", "rolling-window-unguarded-tail", "utils.py", _OLD, _window(tail="        window = window[-overlap_len:]\n"), "C15.R2")
M("C15", "rolling-window-offset-minus-overlap", "utils.py", _OLD,
  _window("        window_offset = block_offset - overlap_len\n        window += block\n"), "C15.R3")

# limit hoisted into a local (`None` = no limit) and the tail slice built once as a slice object
_HOIST = _OLD.replace("    saved = b\"\"\n", "    saved = b\"\"\n    carry = slice(-overlap_len, None) if overlap_len else slice(0, 0)\n    limit = max_offset if max_offset else None\n") \
    .replace("        if max_offset and pos > max_offset:", "        if limit is not None and pos > limit:") \
    .replace("            if p == -1 or max_offset and p > max_offset:", "            if p == -1 or (limit is not None and p > limit):") \
    .replace("        saved = d[-overlap_len:] if overlap_len else b\"\"\n", "        saved = d[carry]\n")
T("C15", "twin-limit-hoisted-slice-object", "utils.py", _OLD, _HOIST)
M("C15", "limit-hoisted-zero-is-a-limit", "utils.py", _OLD, _HOIST.replace("limit = max_offset if max_offset else None", "limit = max_offset if max_offset is not None else None"), "C15.R5")
M("C15", "limit-hoisted-nonstrict", "utils.py", _OLD, _HOIST.replace("limit is not None and pos > limit", "limit is not None and pos >= limit"), "C15.R5")
M("C15", "slice-object-unguarded", "utils.py", _OLD, _HOIST.replace("carry = slice(-overlap_len, None) if overlap_len else slice(0, 0)", "carry = slice(-overlap_len, None)"), "C15.R2")

# ArtifactKit scanner: a match must not be skipped under a further condition
_AK_OLD = "            data = fobj.read(size)\n            payload = utils.xor(data, xorkey)\n"
M("C15", "artifact-skip-short-payload", "artifact.py", _AK_OLD,
  "            data = fobj.read(size)\n            if len(data) != size:\n                pos += 1\n                continue\n            payload = utils.xor(data, xorkey)\n", "C15.R6")
M("C15", "artifact-stop-at-empty-payload", "artifact.py", _AK_OLD,
  "            data = fobj.read(size)\n            if not data:\n                return\n            payload = utils.xor(data, xorkey)\n", "C15.R6")
T("C15", "twin-artifact-log-before-yield", "artifact.py", _AK_OLD,
  "            data = fobj.read(size)\n            if len(data) != size:\n                logger.debug(\"truncated payload at %d\", pos)\n            payload = utils.xor(data, xorkey)\n")

# the limit handed to bytes.find as its end bound
_EB = lambda bound: _OLD.replace("        d = saved + block\n", "        d = saved + block\n        find_end = " + bound + "\n") \
    .replace("            p = d.find(needle, p + 1)\n            if p == -1 or max_offset and p > max_offset:", "            p = d.find(needle, p + 1, find_end)\n            if p == -1:")
T("C15", "twin-limit-as-find-end-buffer-relative", "utils.py", _OLD, _EB("max_offset + needle_len if max_offset else None"))
T("C15", "twin-limit-as-find-end-file-relative", "utils.py", _OLD, _EB("max_offset - pos + len(saved) + needle_len if max_offset else len(d)"))
M("C15", "limit-as-find-end-forgets-carry-and-needle", "utils.py", _OLD, _EB("max_offset - pos - 1 if max_offset else None"), "C15.R5")
M("C15", "limit-as-find-end-always-applies", "utils.py", _OLD, _EB("max_offset + needle_len"), "C15.R5")

# ArtifactKit scanner: the scan starts at the requested offset (0 is an offset), or at the current position for None
_AK_START = "    if start_offset is not None:\n        fobj.seek(start_offset)\n    pos = fobj.tell()\n"
M("C15", "artifact-start-truthiness-guard", "artifact.py", _AK_START, "    if start_offset:\n        fobj.seek(start_offset)\n    pos = fobj.tell()\n", "C15.R6")
M("C15", "artifact-start-tell-before-seek", "artifact.py", _AK_START, "    pos = fobj.tell()\n    if start_offset is not None:\n        fobj.seek(start_offset)\n", "C15.R6")
M("C15", "artifact-start-relative-seek", "artifact.py", _AK_START, "    if start_offset is not None:\n        fobj.seek(start_offset, 1)\n    pos = fobj.tell()\n", "C15.R6")
M("C15", "artifact-start-conditional-expression-on-truth", "artifact.py", _AK_START, "    pos = start_offset if start_offset else fobj.tell()\n", "C15.R6")
T("C15", "twin-artifact-start-conditional-expression", "artifact.py", _AK_START, "    pos = fobj.tell() if start_offset is None else start_offset\n")
T("C15", "twin-artifact-start-rebound-parameter", "artifact.py", _AK_START, "    if start_offset is None:\n        start_offset = fobj.tell()\n    pos = start_offset\n")
T("C15", "twin-artifact-start-seek-result", "artifact.py", _AK_START, "    if start_offset is None:\n        pos = fobj.tell()\n    else:\n        pos = fobj.seek(start_offset, 0)\n")
T("C15", "twin-artifact-start-early-branches", "artifact.py", _AK_START, "    if start_offset is None:\n        pos = fobj.tell()\n    else:\n        fobj.seek(start_offset)\n        pos = fobj.tell()\n")

# restart position held in a temporary
T("C15", "twin-restart-through-temporary", "utils.py", "            p = d.find(needle, p + 1)\n", "            start = p + 1\n            p = d.find(needle, start)\n")
M("C15", "restart-temporary-at-the-match", "utils.py", "            p = d.find(needle, p + 1)\n", "            start = p if p > 0 else 0\n            p = d.find(needle, start)\n", "C15.R4")

# round 8 (C15o): the loop header as an exit - a short read is not the end of the file
_SR = _OLD.replace("    while True:\n        pos = fp.tell()", "    block_size = io.DEFAULT_BUFFER_SIZE\n    eof = False\n    while not eof:\n        pos = fp.tell()") \
    .replace("        block = fp.read(io.DEFAULT_BUFFER_SIZE)\n        if not block:\n            break\n",
             "        block = fp.read(block_size)\n        if not block:\n            break\n        eof = len(block) < block_size\n")
M("C15", "short-read-flag-ends-the-scan", "utils.py", _OLD, _SR, "C15.R4")
M("C15", "short-read-flag-ends-the-scan-positive-flag", "utils.py", _OLD,
  _SR.replace("eof = False", "more = True").replace("while not eof:", "while more:").replace("eof = len(block) < block_size", "more = len(block) >= block_size"), "C15.R4")
T("C15", "twin-header-flag-for-empty-read", "utils.py", _OLD,
  _SR.replace("        if not block:\n            break\n        eof = len(block) < block_size\n", "        if not block:\n            eof = True\n            continue\n"))
