"""Additional C13 corpus entries: behaviour-preserving refactorings (twins) the rules must stay silent on, and breaking
variants of the *refactored* shapes (mutants) the rules must still report."""

from selftest.corpus import M, T

F = "c2profile.py"
B = "beacon.py"

# ------------------------------------------------------------------------------------------------ source anchors
_ADD_STEP = (
    "    def add_step(self, option, value):\n        val = []\n        if value is not None:\n"
    "            val.append(Tree(\"string\", [Token(\"STRING\", value_to_string(value))]))\n        self.steps.append(Tree(option, val))\n"
)
_ADD_TERM = (
    "    def add_termination(self, option, value):\n        val = []\n        if value is not None:\n"
    "            val.append(Tree(\"string\", [Token(\"STRING\", value_to_string(value))]))\n        self.termination.append(Tree(option, val))\n"
)
_INIT_LOOP = (
    "        steps = steps or []\n        for option in steps:\n"
    "            if option in (\"base64\", \"base64url\", \"mask\", \"netbios\", \"netbiosu\"):\n                self.add_step(option, None)\n"
    "            elif option in (\"print\", \"uri-append\", \"uri_append\"):\n                self.add_termination(option.replace(\"-\", \"_\"), None)\n"
    "            elif len(option) == 2:\n                option, value = option\n                if option in (\"header\", \"parameter\"):\n"
    "                    self.add_termination(option, value)\n                else:\n                    self.add_step(option, value)\n"
)
_NON_EMPTY = "        if config_block.tree.children:\n            self.set_config_block(option, config_block)\n"
_GATE_CONS = "        for option in options:\n            block._enable(option.lower(), True)\n"
_EXEC_CONS = (
    "                for item in value:\n                    if \" \" in item:\n                        option, _, val = item.partition(\" \")\n"
    "                        val = val[1:-1]\n                        if option == \"CreateThread\":\n"
    "                            exec_options.set_option(\"createthread_special\", val)\n                        elif option == \"CreateRemoteThread\":\n"
    "                            exec_options.set_option(\"createremotethread_special\", val)\n                    if item in [\n"
    "                        \"CreateThread\",\n                        \"SetThreadContext\",\n                        \"CreateRemoteThread\",\n"
    "                        \"NtQueueApcThread\",\n                        \"NtQueueApcThread-s\",\n                        \"RtlCreateUserThread\",\n"
    "                    ]:\n                        exec_options._enable(item.lower().replace(\"-\", \"_\"), True)\n"
)
_EXEC_PROD = (
    "        elif inject == InjectExecutor.NtQueueApcThread_s:\n            # Cobalt Strike spells this executor with a dash\n"
    "            ret.append(\"NtQueueApcThread-s\")\n        else:\n            ret.append(inject.name)\n"
)
_FROM_EXEC = (
    "        for option in execute_list:\n            if isinstance(option, (list, tuple)):\n                option, value = option\n"
    "                if option == \"CreateThread\":\n                    block.set_option(\"createthread_special\", value)\n"
    "                elif option == \"CreateRemoteThread\":\n                    block.set_option(\"createremotethread_special\", value)\n"
    "                else:\n                    raise ValueError(f\"Unknown option: {option}\")\n            else:\n                if option in [\n"
    "                    \"CreateThread\",\n                    \"SetThreadContext\",\n                    \"CreateRemoteThread\",\n"
    "                    \"NtQueueApcThread\",\n                    \"NtQueueApcThread-s\",\n                    \"RtlCreateUserThread\",\n                ]:\n"
    "                    block._enable(option.lower().replace(\"-\", \"_\"), True)\n                else:\n"
    "                    raise ValueError(f\"Unknown option: {option}\")\n"
)
_DNS = (
    "            elif setting == BeaconSetting.SETTING_DNS_BEACON_BEACON:\n                dns_beacon.set_option(\"beacon\", value)\n"
    "            elif setting == BeaconSetting.SETTING_DNS_BEACON_GET_A:\n                dns_beacon.set_option(\"get_a\", value)\n"
    "            elif setting == BeaconSetting.SETTING_DNS_BEACON_GET_AAAA:\n                dns_beacon.set_option(\"get_aaaa\", value)\n"
    "            elif setting == BeaconSetting.SETTING_DNS_BEACON_GET_TXT:\n                dns_beacon.set_option(\"get_txt\", value)\n"
    "            elif setting == BeaconSetting.SETTING_DNS_BEACON_PUT_METADATA:\n                dns_beacon.set_option(\"put_metadata\", value)\n"
    "            elif setting == BeaconSetting.SETTING_DNS_BEACON_PUT_OUTPUT:\n                dns_beacon.set_option(\"put_output\", value)\n"
)
# (F19 repaired: the byte arguments are handed to the builders unchanged - no `v = repr(v)[2:-1]` before the append)
_POST_TAIL = (
    "                        # log.debug(f\"{k} -> {v}\")\n"
    "                        block_steps[_build].append((k.lower(), v))\n"
)
_GET_TAIL = "                    else:\n                        block_steps[_build].append((k.lower(), v))\n"
_POST_APPEND = "                        block_steps[_build].append((k.lower(), v))\n"


def _post(conv):
    """The SETTING_C2_POSTREQ valued-step branch with a conversion statement put before the append."""
    return "                        # log.debug(f\"{k} -> {v}\")\n" + conv + _POST_APPEND
_POST_ATTACH = "                    http_post_client.set_config_block(block, DataTransformBlock(steps=steps))\n"
_X64_ATTACH = "                    proc_inj.set_config_block(\"transform_x64\", transform_block)\n"
_STAGE_EPI = "        profile.set_non_empty_config_block(\"stage\", stage)\n"


def _dns_table(get_aaaa="get_aaaa"):
    return (
        "            elif setting in (\n                BeaconSetting.SETTING_DNS_BEACON_BEACON,\n                BeaconSetting.SETTING_DNS_BEACON_GET_A,\n"
        "                BeaconSetting.SETTING_DNS_BEACON_GET_AAAA,\n                BeaconSetting.SETTING_DNS_BEACON_GET_TXT,\n"
        "                BeaconSetting.SETTING_DNS_BEACON_PUT_METADATA,\n                BeaconSetting.SETTING_DNS_BEACON_PUT_OUTPUT,\n            ):\n"
        "                dns_names = {\n                    BeaconSetting.SETTING_DNS_BEACON_BEACON: \"beacon\",\n"
        "                    BeaconSetting.SETTING_DNS_BEACON_GET_A: \"get_a\",\n"
        f"                    BeaconSetting.SETTING_DNS_BEACON_GET_AAAA: \"{get_aaaa}\",\n"
        "                    BeaconSetting.SETTING_DNS_BEACON_GET_TXT: \"get_txt\",\n"
        "                    BeaconSetting.SETTING_DNS_BEACON_PUT_METADATA: \"put_metadata\",\n"
        "                    BeaconSetting.SETTING_DNS_BEACON_PUT_OUTPUT: \"put_output\",\n                }\n"
        "                dns_beacon.set_option(dns_names[setting], value)\n"
    )


# ------------------------------------------------------------------------------------------------ R8
def _cond_children(test):
    return (
        "    def add_step(self, option, value):\n"
        f"        children = [] if {test} else [Tree(\"string\", [Token(\"STRING\", value_to_string(value))])]\n"
        "        self.steps.append(Tree(option, children))\n"
    )


T("C13", "twin-add-step-conditional-children", F, _ADD_STEP, _cond_children("value is None"))
M("C13", "add-step-conditional-children-falsy", F, _ADD_STEP, _cond_children("not value"), "C13.R8")
T("C13", "twin-add-termination-early-return", F, _ADD_TERM,
  "    def add_termination(self, option, value):\n        if value is None:\n            self.termination.append(Tree(option, []))\n            return\n"
  "        arg = Tree(\"string\", [Token(\"STRING\", value_to_string(value))])\n        self.termination.append(Tree(option, [arg]))\n")
M("C13", "add-termination-appends-to-steps", F, _ADD_TERM.replace("add_termination", "add_termination"),
  _ADD_TERM.replace("self.termination.append", "self.steps.append"), "C13.R8")

# ------------------------------------------------------------------------------------------------ R9
_INIT_FLAT = (
    "        for step in steps or ():\n            if step in (\"base64\", \"base64url\", \"mask\", \"netbios\", \"netbiosu\"):\n"
    "                self.add_step(step, None)\n                continue\n            if step in {TERMS}:\n"
    "                self.add_termination(step.replace(\"-\", \"_\"), None)\n                continue\n            if len(step) != 2:\n                continue\n"
    "            name, argument = step\n            add = self.add_termination if name in (\"header\", \"parameter\") else self.add_step\n"
    "            add(name, argument)\n"
)
T("C13", "twin-init-flattened-method-select", F, _INIT_LOOP, _INIT_FLAT.replace("{TERMS}", "(\"print\", \"uri-append\", \"uri_append\")"))
M("C13", "init-flattened-drops-uri-append", F, _INIT_LOOP, _INIT_FLAT.replace("{TERMS}", "(\"print\", \"uri-append\")"), "C13.R9")
T("C13", "twin-init-dispatch-table", F, _INIT_LOOP,
  "        kinds = {\"base64\": self.add_step, \"base64url\": self.add_step, \"mask\": self.add_step, \"netbios\": self.add_step, \"netbiosu\": self.add_step,\n"
  "                 \"print\": self.add_termination, \"uri-append\": self.add_termination, \"uri_append\": self.add_termination}\n"
  "        for option in steps or []:\n            if isinstance(option, str):\n                if option in kinds:\n"
  "                    kinds[option](option.replace(\"-\", \"_\"), None)\n            elif len(option) == 2:\n                name, value = option\n"
  "                if name in (\"header\", \"parameter\"):\n                    self.add_termination(name, value)\n                else:\n"
  "                    self.add_step(name, value)\n")
M("C13", "init-header-as-transform", F, "                if option in (\"header\", \"parameter\"):", "                if option in (\"parameter\",):", "C13.R9")

# ------------------------------------------------------------------------------------------------ R6
T("C13", "twin-non-empty-early-return", F, _NON_EMPTY, "        if not config_block.tree.children:\n            return\n        self.set_config_block(option, config_block)\n")
T("C13", "twin-non-empty-len", F, _NON_EMPTY, "        if len(config_block.tree.children) > 0:\n            self.set_config_block(option, config_block)\n")
M("C13", "non-empty-early-return-inverted", F, _NON_EMPTY, "        if config_block.tree.children:\n            return\n        self.set_config_block(option, config_block)\n", "C13.R6")
T("C13", "twin-epilogue-explicit-guard", F, _STAGE_EPI, "        if stage.tree.children:\n            profile.set_config_block(\"stage\", stage)\n")
M("C13", "epilogue-guard-on-other-block", F, _STAGE_EPI, "        if profile.tree.children:\n            profile.set_config_block(\"stage\", stage)\n", "C13.R6")

# ------------------------------------------------------------------------------------------------ R2
T("C13", "twin-gate-consumer-temp-name", F, _GATE_CONS, "        for gate in options:\n            tree_name = gate.lower()\n            block._enable(tree_name, True)\n")
T("C13", "twin-gate-consumer-comprehension", F, _GATE_CONS, "        for tree_name in [o.lower() for o in options]:\n            block._enable(tree_name, True)\n")
M("C13", "gate-consumer-skips-groups", F, _GATE_CONS,
  "        for option in options:\n            if option in (\"All\", \"Core\"):\n                continue\n            block._enable(option.lower(), True)\n", "C13.R2")

# ------------------------------------------------------------------------------------------------ R3
_EXEC_CONS_FLAT = (
    "                for entry in value:\n                    if \" \" in entry:\n                        method, _, quoted = entry.partition(\" \")\n"
    "                        special = {\"CreateThread\": \"createthread_special\", \"CreateRemoteThread\": \"createremotethread_special\"}.get(method)\n"
    "                        if special is not None:\n                            exec_options.set_option(special, quoted[1:-1])\n                        continue\n"
    "                    if entry not in {NAMES}:\n                        continue\n"
    "                    exec_options._enable(entry.lower().replace(\"-\", \"_\"), True)\n"
)
_NAMES6 = "(\"CreateThread\", \"SetThreadContext\", \"CreateRemoteThread\", \"NtQueueApcThread\", \"NtQueueApcThread-s\", \"RtlCreateUserThread\")"
_NAMES5 = "(\"CreateThread\", \"SetThreadContext\", \"CreateRemoteThread\", \"NtQueueApcThread\", \"RtlCreateUserThread\")"
T("C13", "twin-executor-consumer-flattened", F, _EXEC_CONS, _EXEC_CONS_FLAT.replace("{NAMES}", _NAMES6))
M("C13", "executor-consumer-flattened-drops-dash", F, _EXEC_CONS, _EXEC_CONS_FLAT.replace("{NAMES}", _NAMES5), "C13.R3")
T("C13", "twin-executor-producer-conditional", B, _EXEC_PROD,
  "        else:\n            ret.append(\"NtQueueApcThread-s\" if inject == InjectExecutor.NtQueueApcThread_s else inject.name)\n")
M("C13", "executor-producer-underscore-spelling", B, _EXEC_PROD,
  "        else:\n            ret.append(\"NtQueueApcThread_s\" if inject == InjectExecutor.NtQueueApcThread_s else inject.name)\n", "C13.R3")
_FROM_EXEC_INV = (
    "        for entry in execute_list:\n            if not isinstance(entry, (list, tuple)):\n                if entry not in {NAMES}:\n"
    "                    raise ValueError(f\"Unknown option: {entry}\")\n                block._enable(entry.lower().replace(\"-\", \"_\"), True)\n                continue\n"
    "            method, value = entry\n            if method == \"CreateThread\":\n                block.set_option(\"createthread_special\", value)\n"
    "            elif method == \"CreateRemoteThread\":\n                block.set_option(\"createremotethread_special\", value)\n            else:\n"
    "                raise ValueError(f\"Unknown option: {method}\")\n"
)
T("C13", "twin-from-execute-list-inverted", F, _FROM_EXEC, _FROM_EXEC_INV.replace("{NAMES}", _NAMES6))
M("C13", "from-execute-list-inverted-drops-dash", F, _FROM_EXEC, _FROM_EXEC_INV.replace("{NAMES}", _NAMES5), "C13.R3")

# ------------------------------------------------------------------------------------------------ R4 / R5
T("C13", "twin-post-argument-through-temporary", F, _POST_TAIL,
  "                        argument = v\n                        block_steps[_build].append((k.lower(), argument))\n")
M("C13", "post-args-latin1-text", F, _POST_TAIL, "                        block_steps[_build].append((k.lower(), v.decode(\"latin-1\")))\n", "C13.R4")
M("C13", "post-blocks-into-get-client", F, _POST_ATTACH, "                    http_get_client.set_config_block(block, DataTransformBlock(steps=steps))\n", "C13.R5")
M("C13", "x64-transform-under-x86-name", F, _X64_ATTACH, "                    proc_inj.set_config_block(\"transform_x86\", transform_block)\n", "C13.R5")
T("C13", "twin-dns-name-table", F, _DNS, _dns_table())
M("C13", "dns-name-table-wrong-entry", F, _DNS, _dns_table("get_a"), "C13.R5")
M("C13", "dns-name-table-unknown-alias", F, _DNS, _dns_table("get_aaa"), "C13.R1")

# ------------------------------------------------------------------------------------------------ more refactoring kinds
_MAIN_LOOP = "        for setting, value in config.settings_by_index.items():\n"
T("C13", "twin-settings-loop-over-list", F, _MAIN_LOOP, "        for setting, value in list(config.settings_by_index.items()):\n")
T("C13", "twin-settings-loop-other-shape", F, _MAIN_LOOP, "        for setting in config.settings_by_index:\n            value = config.settings_by_index[setting]\n")
T("C13", "twin-keyword-arguments", F, "                profile.set_option(\"jitter\", value)", "                profile.set_option(option=\"jitter\", value=value)",
  edits=[(F, "                profile.set_option(\"jitter\", value)", "                profile.set_option(option=\"jitter\", value=value)"),
         (F, _STAGE_EPI, "        profile.set_non_empty_config_block(option=\"stage\", config_block=stage)\n")])
M("C13", "keyword-arguments-unknown-option", F, "                profile.set_option(\"jitter\", value)", "                profile.set_option(value=value, option=\"jiter\")", "C13.R1")
_GET_HEADERS = "                if headers:\n                    http_get_client._pair(\"header\", headers)\n"
T("C13", "twin-headers-one-by-one", F, _GET_HEADERS, "                for pair in headers:\n                    http_get_client._pair(\"header\", [pair])\n")
T("C13", "twin-headers-through-class-alias", F, _GET_HEADERS, "                if headers:\n                    http_get_client.header(\"header\", headers)\n")
M("C13", "headers-deduplicated", F, _GET_HEADERS, "                if headers:\n                    http_get_client._pair(\"header\", dict(headers).items())\n", "C13.R5")
M("C13", "headers-as-parameters", F, _GET_HEADERS, "                if headers:\n                    http_get_client._pair(\"parameter\", headers)\n", "C13.R5")
T("C13", "twin-gate-consumer-getattr-dispatch", F, _GATE_CONS, "        for option in options:\n            getattr(block, option.lower())(option.lower(), True)\n")
_GATE_PROD = (
    "    ret = []\n    if options.issuperset(comms | core | cleanup):\n        ret.append(\"All\")\n        options -= comms | core | cleanup\n\n"
    "    if options.issuperset(comms):\n        ret.append(\"Comms\")\n        options -= comms\n\n"
    "    if options.issuperset(core):\n        ret.append(\"Core\")\n        options -= core\n\n"
    "    if options.issuperset(cleanup):\n        ret.append(\"Cleanup\")\n        options -= cleanup\n"
)


def _gate_table(last):
    return (
        "    ret = []\n"
        f"    for label, group in ((\"All\", comms | core | cleanup), (\"Comms\", comms), (\"Core\", core), (\"{last}\", cleanup)):\n"
        "        if options.issuperset(group):\n            ret.append(label)\n            options -= group\n"
    )


T("C13", "twin-gate-producer-label-table", B, _GATE_PROD, _gate_table("Cleanup"))
M("C13", "gate-producer-label-appended-wrong", B, "        ret.append(\"Cleanup\")\n", "        ret.append(\"CleanUp\")\n", "C13.R2")
_X86_HEAD = "            elif setting == BeaconSetting.SETTING_PROCINJ_TRANSFORM_X86:\n                steps = []\n                prepend = \"\"\n                append = \"\"\n"
_X86_FOR = "                for k, v in value:\n"
_X86_BODY = "                    if k == \"prepend\":\n                        prepend = v\n                    elif k == \"append\":\n                        append = v\n"
_X86_LOOP = _X86_HEAD + _X86_FOR + _X86_BODY
_X64_HEAD = _X86_HEAD.replace("X86", "X64").replace("                steps = []\n", "                steps = []\n                # proc_inj.set_config_block(\"transform_x64\", DataTransformBlock(steps=steps))\n")
_X64_LOOP = _X64_HEAD + _X86_FOR + _X86_BODY


def _x86_comprehension(expr):
    return _X86_HEAD + "                parts = {k: " + expr + " for k, v in value}\n                prepend = parts.get(\"prepend\", \"\")\n                append = parts.get(\"append\", \"\")\n"


T("C13", "twin-x86-arguments-by-comprehension", F, _X86_LOOP, _x86_comprehension("v"))
M("C13", "x86-arguments-by-comprehension-decoded", F, _X86_LOOP, _x86_comprehension("v.decode(\"latin-1\")"), "C13.R4")
M("C13", "x86-arguments-by-comprehension-unpinned-repr", F, _X86_LOOP, _x86_comprehension("repr(v)[2:-1]"), "C13.R11")
_EXEC_CONS_FULL = "                exec_options = ExecuteOptionsBlock()\n" + _EXEC_CONS
_PLAIN_ANCHOR = "    setthreadcontext = ConfigBlock._enable\n\n    @classmethod\n    def from_execute_list"


def _via_sibling(names):
    return [
        (F, _EXEC_CONS_FULL,
         "                entries = []\n                for item in value:\n                    if \" \" in item:\n"
         "                        option, _, val = item.partition(\" \")\n                        if option in (\"CreateThread\", \"CreateRemoteThread\"):\n"
         "                            entries.append((option, val[1:-1]))\n                    elif item in ExecuteOptionsBlock.PLAIN:\n"
         "                        entries.append(item)\n                exec_options = ExecuteOptionsBlock.from_execute_list(entries)\n"),
        (F, _PLAIN_ANCHOR, "    setthreadcontext = ConfigBlock._enable\n    PLAIN = " + names + "\n\n    @classmethod\n    def from_execute_list"),
    ]


T("C13", "twin-executor-consumer-via-sibling-builder", F, "", "", edits=_via_sibling(_NAMES6))
M("C13", "executor-consumer-via-sibling-builder-drops-dash", F, "", "", "C13.R3", edits=_via_sibling(_NAMES5))
M("C13", "execute-block-attached-when-empty", F, "                if value:\n                    proc_inj.set_config_block(\"execute\", exec_options)\n",
  "                proc_inj.set_config_block(\"execute\", exec_options)\n", "C13.R6")
M("C13", "beacon-gate-attached-when-empty", F, "            elif setting == BeaconSetting.SETTING_BEACON_GATE and value:", "            elif setting == BeaconSetting.SETTING_BEACON_GATE:", "C13.R6")
T("C13", "twin-execute-guard-early-continue", F, "                if value:\n                    proc_inj.set_config_block(\"execute\", exec_options)\n",
  "                if not value:\n                    continue\n                proc_inj.set_config_block(\"execute\", exec_options)\n")

# ------------------------------------------------------------------------------------------------ symbolic-argument forms
# (the rules specialise per vocabulary member and keep the entry's argument symbolic: these entries exercise the term
# classification, the text lemmas and the nullness case analysis)
T("C13", "twin-headers-emitted-unconditionally", F, _GET_HEADERS, "                http_get_client._pair(\"header\", headers)\n")
T("C13", "twin-executor-consumer-split", F,
  "                        option, _, val = item.partition(\" \")\n                        val = val[1:-1]\n",
  "                        option, val = item.split(\" \", 1)\n                        val = val[1:-1]\n")
T("C13", "twin-executor-consumer-startswith", F,
  "                        if option == \"CreateThread\":\n                            exec_options.set_option(\"createthread_special\", val)\n",
  "                        if item.startswith(\"CreateThread \"):\n                            exec_options.set_option(\"createthread_special\", val)\n")
T("C13", "twin-executor-producer-fstring", B,
  "            ret.append('{} \"{}\"'.format(inject.name.rstrip(\"_\"), s))\n",
  "            ret.append(f'{inject.name.rstrip(\"_\")} \"{s}\"')\n")
M("C13", "executor-producer-no-space", B,
  "            ret.append('{} \"{}\"'.format(inject.name.rstrip(\"_\"), s))\n",
  "            ret.append('{}\"{}\"'.format(inject.name.rstrip(\"_\"), s))\n", "C13.R3")
M("C13", "post-args-str-codec", F, _POST_TAIL, "                        block_steps[_build].append((k.lower(), str(v, \"latin-1\")))\n", "C13.R4")
M("C13", "post-args-dropped", F, _POST_TAIL, "                        block_steps[_build].append((k.lower(), \"\"))\n", "C13.R5")
M("C13", "post-flag-step-not-lowered", F, "                    elif v is True:\n                        block_steps[_build].append(k.lower())\n                    else:\n                        # log.debug",
  "                    elif v is True:\n                        block_steps[_build].append(k)\n                    else:\n                        # log.debug", "C13.R5")
M("C13", "post-build-ignored", F, "                    elif k == \"BUILD\":\n                        _build = v\n                    elif v is True:\n                        block_steps[_build].append(k.lower())\n                    else:\n                        # log.debug",
  "                    elif k == \"BUILD\":\n                        _build = \"output\"\n                    elif v is True:\n                        block_steps[_build].append(k.lower())\n                    else:\n                        # log.debug", "C13.R5")
M("C13", "add-step-skips-empty-argument", F, _ADD_STEP, _ADD_STEP.replace("if value is not None:", "if value is not None and value != \"\":"), "C13.R8")
T("C13", "twin-add-step-none-compared-first", F, _ADD_STEP, _ADD_STEP.replace("if value is not None:", "if not (value is None):"))
M("C13", "dns-value-replaced", F, "                dns_beacon.set_option(\"get_a\", value)", "                dns_beacon.set_option(\"get_a\", \"get_a\")", "C13.R5")

# ------------------------------------------------------------------------------------------------ wave 2
# grammar rules whose names never reach the tree (every alternative carries an alias; lark names the node after the alias)
# are renamed: the rules address a grammar rule by the block-alias path that leads to it / by the un-aliased `steps` and
# `termination` parts, never by its name
G = "c2profile.lark"
_GRAMMAR_RENAMES = [
    (G, "start: value*\n", "start: toplevel*\n"),
    (G, "?value: \"set\" OPTION string \";\"", "?toplevel: \"set\" OPTION string \";\""),
    (G, "\"{\" execute_options* \"}\"", "\"{\" executor_statement* \"}\""),
    (G, "\nexecute_options: \"CreateThread\" string \";\"", "\nexecutor_statement: \"CreateThread\" string \";\""),
    (G, "\"{\" beacon_gate_options* \"}\"", "\"{\" gate_api* \"}\""),
    (G, "\nbeacon_gate_options: \"None\" \";\"", "\ngate_api: \"None\" \";\""),
    (G, "steps: transform_statement*\n", "steps: transform_op*\n"),
    (G, "\ntransform_statement: \"append\" string \";\"", "\ntransform_op: \"append\" string \";\""),
    (G, "termination: termination_statement ~ 1\n", "termination: terminator ~ 1\n"),
    (G, "\ntermination_statement: \"header\" string \";\"", "\nterminator: \"header\" string \";\""),
    (G, "\"{\" dns_beacon_options* \"}\"", "\"{\" dns_listener_options* \"}\""),
    (G, "\ndns_beacon_options: \"set\" \"dns_idle\" string \";\"", "\ndns_listener_options: \"set\" \"dns_idle\" string \";\""),
]
T("C13", "twin-grammar-alias-only-rules-renamed", G, "", "", edits=_GRAMMAR_RENAMES)
M("C13", "grammar-renamed-executor-alias-changed", G, "", "", "C13.R3",
  edits=_GRAMMAR_RENAMES + [(G, "    | \"NtQueueApcThread-s\" \";\"              -> ntqueueapcthread_s", "    | \"NtQueueApcThread-s\" \";\"              -> ntqueueapcthread_dash_s")])
M("C13", "grammar-renamed-gate-keyword-changed", G, "", "", "C13.R2",
  edits=_GRAMMAR_RENAMES + [(G, "    | \"VirtualQuery\" \";\"                    -> virtualquery", "    | \"VirtualQuerry\" \";\"                   -> virtualquery")])
M("C13", "grammar-renamed-top-level-alias-changed", G, "", "", "C13.R1",
  edits=_GRAMMAR_RENAMES + [(G, "-> dns_beacon\n", "-> dns_listener\n")])
M("C13", "grammar-renamed-termination-alias-dropped", G, "", "", "C13.R9",
  edits=_GRAMMAR_RENAMES + [(G, "    | \"uri-append\" \";\"                      -> uri_append", "    | \"uri-append\" \";\"                      -> uriappend")])
# a client rule split in two identical rules (one per block) is the same language and the same trees
T("C13", "twin-grammar-client-rule-per-block", G,
  "http_post_options: \"set\" \"uri\" string \";\"           -> uri\n    | \"set\" \"verb\" string \";\"                       -> verb\n    | \"client\" \"{\" http_get_client_options* \"}\"     -> client\n",
  "http_post_options: \"set\" \"uri\" string \";\"           -> uri\n    | \"set\" \"verb\" string \";\"                       -> verb\n    | \"client\" \"{\" http_post_client_options* \"}\"    -> client\n",
  edits=[(G, "http_post_options: \"set\" \"uri\" string \";\"           -> uri\n    | \"set\" \"verb\" string \";\"                       -> verb\n    | \"client\" \"{\" http_get_client_options* \"}\"     -> client\n",
          "http_post_client_options: \"header\" string string \";\" -> header\n    | \"set\" \"verb\" string \";\"                       -> verb\n"
          "    | \"metadata\" \"{\" data_transform* \"}\"            -> metadata\n    | \"id\" \"{\" data_transform*  \"}\"                 -> id\n"
          "    | \"parameter\" string string \";\"                 -> parameter\n    | \"output\" \"{\"  data_transform*  \"}\"            -> output\n\n"
          "http_post_options: \"set\" \"uri\" string \";\"           -> uri\n    | \"set\" \"verb\" string \";\"                       -> verb\n    | \"client\" \"{\" http_post_client_options* \"}\"    -> client\n")])

# R4, lemma E3: a decoding followed by a character-wise mapping with a constant table of the code is judged by what the table
# does to the backslash (integer key 92); other tables / functions of the argument are undecided
_LOGGER = "logger = logging.getLogger(__name__)\n"


def _translate(table_src):
    return [(F, _LOGGER, _LOGGER + table_src),
            (F, _POST_TAIL, _post("                        v = v.decode(\"latin-1\").translate(_ESCAPES)\n"))]


# (a table that doubles the backslash and leaves the apostrophe plain meets the `\\'` rewrite of the str path like the unpinned repr
# did: R11 reads the table entries for the backslash and for the apostrophe; with the str path of repair B it is a twin, undecided)
_TABLE_DOUBLING = "_ESCAPES = {c: \"\\\\x%02x\" % c for c in range(256) if c < 32 or c > 126}\n_ESCAPES[ord(\"\\\\\")] = \"\\\\\\\\\"\n"
M("C13", "post-args-translate-table-apostrophe-plain", F, "", "", "C13.R11", edits=_translate(_TABLE_DOUBLING))
T("C13", "twin-post-args-translate-table-apostrophe-escaped", F, "", "", edits=_translate(_TABLE_DOUBLING + "_ESCAPES[ord(\"'\")] = \"\\\\'\"\n"))
T("C13", "twin-post-args-translate-table-filled-by-loop", F, "", "", edits=_translate(
    "_ESCAPES = {}\nfor _code in list(range(32)) + list(range(127, 256)) + [0x5C]:\n    _ESCAPES[_code] = \"\\\\x%02x\" % _code\n"))
M("C13", "post-args-translate-table-without-backslash", F, "", "", "C13.R4", edits=_translate(
    "_ESCAPES = {c: \"\\\\x%02x\" % c for c in range(256) if c < 32 or c > 126}\n"))
M("C13", "post-args-translate-table-backslash-update-by-character", F, "", "", "C13.R4", edits=_translate(
    "_ESCAPES = {c: \"\\\\x%02x\" % c for c in range(256) if c < 32 or c > 126}\n_ESCAPES.update({\"\\\\\": \"\\\\\\\\\"})\n"))
M("C13", "x86-arguments-decoded-quotes-escaped-only", F, _X86_LOOP, _X86_HEAD + _X86_FOR + "                    v = v.decode(\"latin-1\").replace('\"', '\\\\\"')\n" + _X86_BODY, "C13.R4")
M("C13", "tcp-frame-header-decoded", F, "profile.set_option(\"tcp_frame_header\", value)", "profile.set_option(\"tcp_frame_header\", value.decode(\"latin-1\"))", "C13.R4")
T("C13", "twin-smb-frame-header-keyword-arguments", F, "profile.set_option(\"smb_frame_header\", value)", "profile.set_option(option=\"smb_frame_header\", value=value)")

# R10: the content-less case of every sequence-valued setting
_RECOVER_TAIL = "        if c2_recover:\n            http_get.set_non_empty_config_block(\"server\", HttpOptionsBlock(output=DataTransformBlock(steps=c2_recover)))\n"
M("C13", "recover-server-block-unguarded", F, _RECOVER_TAIL,
  "        http_get.set_non_empty_config_block(\"server\", HttpOptionsBlock(output=DataTransformBlock(steps=c2_recover)))\n", "C13.R10")
T("C13", "twin-recover-server-guard-by-length", F, _RECOVER_TAIL,
  "        if len(c2_recover) > 0:\n            http_get.set_non_empty_config_block(\"server\", HttpOptionsBlock(output=DataTransformBlock(steps=c2_recover)))\n")
T("C13", "twin-recover-server-block-filled-in-loop", F, "", "", edits=[
    (F, "        # http_get_server = HttpOptionsBlock()\n", "        http_get_server = HttpOptionsBlock()\n"),
    (F, "                        c2_recover.append((k, v))\n",
     "                        c2_recover.append((k, v))\n                if c2_recover:\n                    http_get_server.set_config_block(\"output\", DataTransformBlock(steps=c2_recover))\n"),
    (F, _RECOVER_TAIL, "        http_get.set_non_empty_config_block(\"server\", http_get_server)\n")])
M("C13", "post-client-blocks-by-fixed-names", F,
  "                for block, steps in block_steps.items():\n" + _POST_ATTACH,
  "                for block in (\"id\", \"output\"):\n                    http_post_client.set_config_block(block, DataTransformBlock(steps=block_steps[block]))\n", "C13.R10")
M("C13", "x64-transform-attached-when-empty", F, "                if prepend or append:\n" + _X64_ATTACH, _X64_ATTACH.replace("                    proc_inj", "                proc_inj"), "C13.R10")
M("C13", "execute-list-empty-raises", F, "                if value:\n                    proc_inj.set_config_block(\"execute\", exec_options)\n",
  "                if not value:\n                    raise ValueError(\"empty execute list\")\n                proc_inj.set_config_block(\"execute\", exec_options)\n", "C13.R10")
_EXEC_GUARD = "                if value:\n                    proc_inj.set_config_block(\"execute\", exec_options)\n"
T("C13", "twin-execute-guard-by-length", F, _EXEC_GUARD, "                if len(value) > 0:\n                    proc_inj.set_config_block(\"execute\", exec_options)\n")
T("C13", "twin-execute-guard-not-the-empty-list", F, _EXEC_GUARD, "                if value != [] and len(value) >= 1:\n                    proc_inj.set_config_block(\"execute\", exec_options)\n")
M("C13", "execute-guard-length-always-true", F, _EXEC_GUARD, "                if len(value) >= 0:\n                    proc_inj.set_config_block(\"execute\", exec_options)\n", "C13.R10")

# ------------------------------------------------------------------------------------------------ wave 3: R11 (finding F19)
# A byte argument reaches the profile text through the conversion at the generator site AND the path of value_to_string the
# resulting type takes.  F19: `repr(v)[2:-1]` (quote style not pinned: an apostrophe can come out unescaped) handed over as
# str met the str path's `\'` -> `'` rewrite, which then split an escaped backslash (bytes backslash + apostrophe).  The
# repaired tree hands the bytes over unchanged.  Entries are edits of the REPAIRED text.
_VTS_STR = (
    "        value = value.replace('\"', '\\\\\"')\n"
    "        # we don't have to escape single quotes, as we return it as a double quoted value\n"
    "        value = value.replace(\"\\\\'\", \"'\")\n"
)
_VTS_BYTES = "        value = repr(b'\"' + value)[3:-1]\n"
# repair B: the un-escape of the apostrophe pair belongs to the (pinned) bytes branch, the str path only escapes the double quote
_FIX_B = [(F, _VTS_BYTES, _VTS_BYTES + "        value = value.replace(\"\\\\'\", \"'\")\n"),
          (F, _VTS_STR, "        value = value.replace('\"', '\\\\\"')\n")]
_UNPINNED = "                        v = repr(v)[2:-1]\n"
_PINNED = "                        v = repr(b'\"' + v)[3:-1]\n"
_CODEC = "                        v = v.decode(\"latin-1\").encode(\"unicode_escape\").decode(\"ascii\")\n"
_TCP = "profile.set_option(\"tcp_frame_header\", value)"
_SMB = "profile.set_option(\"smb_frame_header\", value)"

# the exact reversal of repair A at one site, and the same at the other kinds of site
M("C13", "post-args-unpinned-repr-reintroduced", F, _POST_TAIL, _post(_UNPINNED), "C13.R11")
M("C13", "get-args-unpinned-repr-through-temporary", F, _GET_TAIL,
  "                    else:\n                        escaped = repr(v)[2:-1]\n                        block_steps[_build].append((k.lower(), escaped))\n", "C13.R11")
M("C13", "tcp-frame-header-unpinned-repr", F, _TCP, "profile.set_option(\"tcp_frame_header\", repr(value)[2:-1])", "C13.R11")
M("C13", "x64-arguments-unpinned-repr", F, _X64_LOOP, _X64_HEAD + _X86_FOR + "                    v = repr(v)[2:-1]\n" + _X86_BODY, "C13.R11")
M("C13", "post-args-str-of-bytes-slice", F, _POST_TAIL, _post("                        v = str(v)[2:-1]\n"), "C13.R11")
# the other escaper that leaves the apostrophe plain
M("C13", "post-args-unicode-escape-codec-as-str", F, _POST_TAIL, _post(_CODEC), "C13.R11")
M("C13", "smb-frame-header-unicode-escape-codecs-module", F, "", "", "C13.R11", edits=[
    (F, "import collections\nimport logging\n", "import codecs\nimport collections\nimport logging\n"),
    (F, _SMB, "profile.set_option(\"smb_frame_header\", codecs.decode(codecs.encode(codecs.decode(value, \"latin-1\"), \"unicode_escape\"), \"ascii\"))")])
M("C13", "post-args-unicode-escape-first-decoding-ascii", F, _POST_TAIL,
  _post("                        v = v.decode(\"ascii\").encode(\"unicode_escape\").decode(\"ascii\")\n"), "C13.R11")
# the escaper moved into a new helper (inlined by the normaliser)
_HELPER_AT = "def string_token_to_bytes(token: Token)"
M("C13", "post-args-escaper-helper-unpinned", F, "", "", "C13.R11", edits=[
    (F, _HELPER_AT, "def _escape_argument(data: bytes) -> str:\n    return repr(data)[2:-1]\n\n\n" + _HELPER_AT),
    (F, _POST_TAIL, _post("                        v = _escape_argument(v)\n"))])
T("C13", "twin-post-args-escaper-helper-pinned", F, "", "", edits=[
    (F, _HELPER_AT, "def _escape_argument(data: bytes) -> str:\n    return repr(b'\"' + data)[3:-1]\n\n\n" + _HELPER_AT),
    (F, _POST_TAIL, _post("                        v = _escape_argument(v)\n"))])
# pinned repr: the apostrophe is always the pair, the `\'` rewrite only ever matches that pair (lemma E5, second case)
T("C13", "twin-post-args-pinned-repr-as-str", F, _POST_TAIL, _post(_PINNED))
T("C13", "twin-tcp-frame-header-pinned-repr-as-str", F, _TCP, "profile.set_option(\"tcp_frame_header\", repr(b'\"' + value)[3:-1])")
T("C13", "twin-post-args-pinned-repr-suffix-pin", F, _POST_TAIL, _post("                        v = repr(v + b'\"')[2:-2]\n"))
M("C13", "post-args-pinned-repr-slice-keeps-pin", F, _POST_TAIL, _post("                        v = repr(b'\"' + v)[2:-1]\n"), "C13.R11")
M("C13", "post-args-unpinned-repr-slice-cuts-value", F, "", "", "C13.R11", edits=_FIX_B + [(F, _POST_TAIL, _post("                        v = repr(v)[2:-2]\n"))])
M("C13", "post-args-escaped-text-handed-over-as-bytes", F, _POST_TAIL, _post("                        v = repr(b'\"' + v)[3:-1].encode(\"ascii\")\n"), "C13.R11")
M("C13", "post-args-unicode-escape-bytes-escaped-twice", F, _POST_TAIL, _post("                        v = v.decode(\"latin-1\").encode(\"unicode_escape\")\n"), "C13.R11")
# repair B shape: the str path only escapes the double quote - every escaper composes with it
T("C13", "twin-fix-b-unpinned-repr-sites", F, "", "", edits=_FIX_B + [
    (F, _POST_TAIL, _post(_UNPINNED)), (F, _TCP, "profile.set_option(\"tcp_frame_header\", repr(value)[2:-1])"),
    (F, _X64_LOOP, _X64_HEAD + _X86_FOR + "                    v = repr(v)[2:-1]\n" + _X86_BODY)])
T("C13", "twin-fix-b-unicode-escape-codec", F, "", "", edits=_FIX_B + [(F, _POST_TAIL, _post(_CODEC))])
T("C13", "twin-fix-b-bytes-handed-over", F, "", "", edits=_FIX_B)
# rewrites of the str path other than the `\'` one, met by a site that hands escaped text over
M("C13", "pinned-repr-site-str-path-strips-backslashes", F, "", "", "C13.R11", edits=[
    (F, _VTS_STR, _VTS_STR.replace("value.replace(\"\\\\'\", \"'\")", "value.replace(\"\\\\\", \"\")")), (F, _POST_TAIL, _post(_PINNED))])
M("C13", "pinned-repr-site-str-path-unescapes-newline", F, "", "", "C13.R11", edits=[
    (F, _VTS_STR, _VTS_STR.replace("value.replace(\"\\\\'\", \"'\")", "value.replace(\"\\\\n\", \"\\n\")")), (F, _POST_TAIL, _post(_PINNED))])
M("C13", "pinned-repr-site-str-path-apostrophe-pair-to-space", F, "", "", "C13.R11", edits=[
    (F, _VTS_STR, _VTS_STR.replace("value.replace(\"\\\\'\", \"'\")", "value.replace(\"\\\\'\", \" \")")), (F, _POST_TAIL, _post(_PINNED))])
T("C13", "twin-pinned-repr-site-str-path-rewrites-chained", F, "", "", edits=[
    (F, _VTS_STR, "        value = value.replace('\"', '\\\\\"').replace(\"\\\\'\", \"'\")\n"), (F, _POST_TAIL, _post(_PINNED))])
T("C13", "twin-pinned-repr-site-str-path-early-return", F, "", "", edits=[
    (F, _VTS_STR + "    return f'\"{value}\"'\n",
     "        escaped = value.replace('\"', '\\\\\"')\n        return '\"' + escaped.replace(\"\\\\'\", \"'\") + '\"'\n    return f'\"{value}\"'\n"),
    (F, _POST_TAIL, _post(_PINNED))])
# the builder looks at the type of the value before the encoder sees it: a bytes / str value still reaches value_to_string itself
_SET_OPTION = "    def set_option(self, option, value):\n        value = value_to_string(value)\n        self.tree.children.append(\n            Tree(\n                option,"
T("C13", "twin-set-option-stringifies-other-types-first", F, "", "", edits=[
    (F, _SET_OPTION, _SET_OPTION.replace("        value = value_to_string(value)\n", "        if not isinstance(value, (bytes, str)):\n            value = str(value)\n        value = value_to_string(value)\n")),
    (F, _X64_LOOP, _X64_HEAD + _X86_FOR + "                    v = repr(b'\"' + v)[3:-1]\n" + _X86_BODY)])
M("C13", "set-option-stringifies-other-types-first-unpinned-site", F, "", "", "C13.R11", edits=[
    (F, _SET_OPTION, _SET_OPTION.replace("        value = value_to_string(value)\n", "        if not isinstance(value, (bytes, str)):\n            value = str(value)\n        value = value_to_string(value)\n")),
    (F, _X64_LOOP, _X64_HEAD + _X86_FOR + "                    v = repr(v)[2:-1]\n" + _X86_BODY)])
T("C13", "twin-fix-b-translate-table", F, "", "", edits=_FIX_B + _translate(_TABLE_DOUBLING))

# ------------------------------------------------------------------------------------------------ wave 4
# (a) a grammar rule that repeated another one refers to it through an inlined ('?') unit production, a rule is split into
# named groups of alternatives, a repetition goes through an always-inlined `_rule`: the same trees (`_alts`)
_POST_OPTIONS = (
    "http_post_options: \"set\" \"uri\" string \";\"           -> uri\n    | \"set\" \"verb\" string \";\"                       -> verb\n"
    "    | \"client\" \"{\" http_get_client_options* \"}\"     -> client\n    | \"server\" \"{\" http_options* \"}\"                -> server\n"
)
_GET_OPTIONS = (
    "http_get_options: \"set\" \"uri\" string \";\"            -> uri\n    | \"set\" \"verb\" string \";\"                       -> verb\n"
    "    | \"client\" \"{\" http_get_client_options* \"}\"     -> client\n    | \"server\" \"{\" http_options* \"}\"                -> server\n"
)
T("C13", "twin-grammar-post-options-refer-to-get-options", G, _POST_OPTIONS, "?http_post_options: http_get_options\n")
T("C13", "twin-grammar-post-options-refer-through-two-rules", G, _POST_OPTIONS, "?http_post_options: http_verb_block_options\n\n?http_verb_block_options: http_get_options\n")
T("C13", "twin-grammar-get-options-split-into-groups", G, _GET_OPTIONS,
  "?http_get_options: http_request_line | http_sides\n\n"
  "?http_request_line: \"set\" \"uri\" string \";\"          -> uri\n    | \"set\" \"verb\" string \";\"                       -> verb\n\n"
  "?http_sides: \"client\" \"{\" http_get_client_options* \"}\"  -> client\n    | \"server\" \"{\" http_options* \"}\"                -> server\n")
T("C13", "twin-grammar-steps-through-inlined-rule", G, "steps: transform_statement*\n", "steps: _transform*\n\n_transform: transform_statement\n")
M("C13", "grammar-post-options-refer-to-wrong-rule", G, _POST_OPTIONS, "?http_post_options: http_options\n", "C13.R1")
M("C13", "grammar-get-options-split-loses-verb", G, _GET_OPTIONS,
  "?http_get_options: http_request_line | http_sides\n\n"
  "?http_request_line: \"set\" \"uri\" string \";\"          -> uri\n\n"
  "?http_sides: \"client\" \"{\" http_get_client_options* \"}\"  -> client\n    | \"server\" \"{\" http_options* \"}\"                -> server\n", "C13.R1")
M("C13", "grammar-steps-through-inlined-rule-of-terminations", G, "steps: transform_statement*\n", "steps: _transform*\n\n_transform: termination_statement\n", "C13.R9")

# (b) the flag statements of a builder class are installed by a class decorator / a module-level loop instead of one
# assignment per name in the class body (`_Interp._late_attrs`)
_GATE_FLAGS = [
    "none", "comms", "core", "cleanup", "all", "internetopena", "internetconnecta", "virtualalloc", "virtualallocex", "virtualprotect", "virtualprotectex", "virtualfree",
    "getthreadcontext", "setthreadcontext", "resumethread", "createthread", "createremotethread", "openprocess", "openthread", "closehandle", "createfilemappinga",
    "mapviewoffile", "unmapviewoffile", "virtualquery", "duplicatehandle", "readprocessmemory", "writeprocessmemory", "exitthread",
]
_GATE_BODY = "".join(f"    {n} = ConfigBlock._enable\n" for n in _GATE_FLAGS) + "\n"
_GATE_CLASS = "class BeaconGateBlock(ConfigBlock):\n"
_PROFILE_CLASS = "class C2Profile(ConfigBlock):\n"


def _flag_decorator(names):
    return (
        "def _statements(primitive, *names):\n    def install(block_class):\n        for name in names:\n            setattr(block_class, name, primitive)\n"
        "        return block_class\n\n    return install\n\n\n"
        "@_statements(ConfigBlock._enable, " + ", ".join(f"\"{n}\"" for n in names) + ")\n" + _GATE_CLASS
    )


def _flag_loop(names):
    return ("for _flag in (" + ", ".join(f"\"{n}\"" for n in names) + "):\n    setattr(BeaconGateBlock, _flag, ConfigBlock._enable)\nBeaconGateBlock.none = ConfigBlock._enable\n\n\n"
            + _PROFILE_CLASS)


T("C13", "twin-gate-flags-by-class-decorator", F, "", "", edits=[(F, _GATE_BODY, ""), (F, _GATE_CLASS, _flag_decorator(_GATE_FLAGS))])
M("C13", "gate-flags-by-class-decorator-one-missing", F, "", "", "C13.R2",
  edits=[(F, _GATE_BODY, ""), (F, _GATE_CLASS, _flag_decorator([n for n in _GATE_FLAGS if n != "mapviewoffile"]))])
T("C13", "twin-gate-flags-by-module-level-loop", F, "", "", edits=[(F, _GATE_BODY, ""), (F, _PROFILE_CLASS, _flag_loop(_GATE_FLAGS[1:]))])
M("C13", "gate-flags-by-module-level-loop-one-missing", F, "", "", "C13.R2",
  edits=[(F, _GATE_BODY, ""), (F, _PROFILE_CLASS, _flag_loop([n for n in _GATE_FLAGS[1:] if n != "openthread"]))])
T("C13", "twin-gate-flags-in-mixin-base", F, "", "", edits=[
    (F, _GATE_BODY, ""), (F, _GATE_CLASS, "class _GateFlags:\n" + _GATE_BODY + "\nclass BeaconGateBlock(_GateFlags, ConfigBlock):\n")])

# (c) R6: the non-emptiness test is held in a temporary / spelled bool(..), the attachment uses keyword arguments
T("C13", "twin-non-empty-named-test-keywords", F, _NON_EMPTY,
  "        has_content = bool(config_block.tree.children)\n        if has_content:\n            self.set_config_block(option=option, config_block=config_block)\n")
T("C13", "twin-non-empty-named-negated-test", F, _NON_EMPTY,
  "        is_empty = len(config_block.tree.children) == 0\n        if is_empty:\n            return\n        self.set_config_block(option, config_block=config_block)\n")
M("C13", "non-empty-named-test-on-own-tree", F, _NON_EMPTY,
  "        has_content = bool(self.tree.children)\n        if has_content:\n            self.set_config_block(option=option, config_block=config_block)\n", "C13.R6")
M("C13", "non-empty-named-test-inverted", F, _NON_EMPTY,
  "        is_empty = len(config_block.tree.children) == 0\n        if not is_empty:\n            return\n        self.set_config_block(option, config_block=config_block)\n", "C13.R6")
T("C13", "twin-epilogue-named-guard", F, _STAGE_EPI, "        stage_has_content = bool(stage.tree.children)\n        if stage_has_content:\n            profile.set_config_block(\"stage\", stage)\n")

# (d) R12 (= C10.R3): the text renderer passes every token on unchanged - rewrites of the laid-out text reach into quoted values
_EMIT = (
    "                    for i, x in enumerate(line):\n                        yield x\n"
    "                        if len(line) > i + 1 and line[i + 1] != \";\":\n                            yield \" \"\n"
)
_RENDER = "        return Reconstructor(c2profile_parser).reconstruct(self.tree, postproc)\n"
M("C13", "renderer-collapses-double-blanks-of-the-line", F, _EMIT, "                    yield \" \".join(line).replace(\"  \", \" \").replace(\" ;\", \";\")\n", "C13.R12")
M("C13", "renderer-expands-tabs-in-items", F, "                        yield x\n", "                        yield x.expandtabs(4)\n", "C13.R12")
M("C13", "renderer-tidies-blank-before-brace-in-result", F, _RENDER,
  "        text = Reconstructor(c2profile_parser).reconstruct(self.tree, postproc)\n        return text.replace(\" }\", \"}\")\n", "C13.R12")
T("C13", "twin-renderer-named-result", F, _RENDER, "        text = Reconstructor(c2profile_parser).reconstruct(self.tree, postproc=postproc)\n        return text\n")

# (e) R13: assembly order and object identity - what is put into a builder object reaches the returned profile (the emptiness of
# a block is tested only when the block is complete) and one builder object stands for one block
_EPILOGUE = (
    "        http_get.set_non_empty_config_block(\"client\", http_get_client)\n        profile.set_non_empty_config_block(\"http_get\", http_get)\n"
    "        http_post.set_non_empty_config_block(\"client\", http_post_client)\n        profile.set_non_empty_config_block(\"http_post\", http_post)\n"
    "        profile.set_non_empty_config_block(\"stage\", stage)\n        profile.set_non_empty_config_block(\"process_inject\", proc_inj)\n"
    "        profile.set_non_empty_config_block(\"dns_beacon\", dns_beacon)\n        profile.set_non_empty_config_block(\"http_beacon\", http_beacon)\n"
)
_POST_EPI = "        http_post.set_non_empty_config_block(\"client\", http_post_client)\n        profile.set_non_empty_config_block(\"http_post\", http_post)\n"
_DNS_EPI = "        profile.set_non_empty_config_block(\"dns_beacon\", dns_beacon)\n"
_STAGE_NEW = "        stage = StageBlock()\n"
_CLIENTS_NEW = "        http_get_client = HttpOptionsBlock()\n        http_post_client = HttpOptionsBlock()\n"
_PROCINJ_NEW = "        proc_inj = ProcessInjectBlock()\n"
_TB_NEW = "                transform_block = StageTransformBlock()\n"


def _epilogue_table(rows):
    return ("        for parent, option, block in (\n" + "".join(f"            ({p}, \"{o}\", {b}),\n" for p, o, b in rows) +
            "        ):\n            parent.set_non_empty_config_block(option, block)\n")


_ROWS_INNER_FIRST = [("http_get", "client", "http_get_client"), ("profile", "http_get", "http_get"), ("http_post", "client", "http_post_client"),
                     ("profile", "http_post", "http_post"), ("profile", "stage", "stage"), ("profile", "process_inject", "proc_inj"),
                     ("profile", "dns_beacon", "dns_beacon"), ("profile", "http_beacon", "http_beacon")]
_ROWS_POST_OUTER_FIRST = _ROWS_INNER_FIRST[:2] + [_ROWS_INNER_FIRST[3], _ROWS_INNER_FIRST[2]] + _ROWS_INNER_FIRST[4:]
T("C13", "twin-epilogue-table-inner-blocks-first", F, _EPILOGUE, _epilogue_table(_ROWS_INNER_FIRST))
M("C13", "epilogue-table-http-post-before-its-client", F, _EPILOGUE, _epilogue_table(_ROWS_POST_OUTER_FIRST), "C13.R13")
M("C13", "epilogue-http-post-attached-before-its-client", F, _POST_EPI,
  "        profile.set_non_empty_config_block(\"http_post\", http_post)\n        http_post.set_non_empty_config_block(\"client\", http_post_client)\n", "C13.R13")
T("C13", "twin-epilogue-top-level-blocks-reordered", F, _STAGE_EPI + "        profile.set_non_empty_config_block(\"process_inject\", proc_inj)\n",
  "        profile.set_non_empty_config_block(\"process_inject\", proc_inj)\n" + _STAGE_EPI)
M("C13", "stage-attached-when-it-is-made", F, "", "", "C13.R13", edits=[(F, _STAGE_EPI, ""), (F, _STAGE_NEW, _STAGE_NEW + _STAGE_EPI)])
M("C13", "stage-guarded-attachment-when-it-is-made", F, "", "", "C13.R13",
  edits=[(F, _STAGE_EPI, ""), (F, _STAGE_NEW, _STAGE_NEW + "        if stage.tree.children:\n            profile.set_config_block(\"stage\", stage)\n")])
M("C13", "dns-beacon-block-never-attached", F, _DNS_EPI, "", "C13.R13")
M("C13", "clients-share-one-options-block", F, _CLIENTS_NEW, "        http_get_client = http_post_client = HttpOptionsBlock()\n", "C13.R13")
# the process-inject transform block made once, before the settings loop, for both architectures (the two branches as they are)
def _tb_tail(arch, make="                transform_block = StageTransformBlock()\n"):
    return (make + "                if prepend:\n                    transform_block.set_option(\"prepend\", prepend)\n"
            "                if append:\n                    transform_block.set_option(\"append\", append)\n"
            f"                if prepend or append:\n                    proc_inj.set_config_block(\"transform_{arch}\", transform_block)\n")


M("C13", "transform-block-made-once-for-both-architectures", F, "", "", "C13.R13",
  edits=[(F, _PROCINJ_NEW, _PROCINJ_NEW + "        transform_block = StageTransformBlock()\n"), (F, _tb_tail("x86"), _tb_tail("x86", "")), (F, _tb_tail("x64"), _tb_tail("x64", ""))])
T("C13", "twin-transform-blocks-made-before-the-loop-one-each", F, "", "", edits=[
    (F, _PROCINJ_NEW, _PROCINJ_NEW + "        transform_x86 = StageTransformBlock()\n        transform_x64 = StageTransformBlock()\n"),
    (F, _tb_tail("x86"), _tb_tail("x86", "                transform_block = transform_x86\n")),
    (F, _tb_tail("x64"), _tb_tail("x64", "                transform_block = transform_x64\n"))])
# the two branches merged into one that makes a block of its own for the setting at hand (and the same with the one block made
# before the loop: then both architectures fill and attach the same object)
def _merged_transform_branch(make_in_branch: bool):
    return (
        "            elif setting in (\n                BeaconSetting.SETTING_PROCINJ_TRANSFORM_X86,\n                BeaconSetting.SETTING_PROCINJ_TRANSFORM_X64,\n            ):\n"
        "                prepend = \"\"\n                append = \"\"\n" + _X86_FOR + _X86_BODY +
        ("                transform_block = StageTransformBlock()\n" if make_in_branch else "") +
        "                if prepend:\n                    transform_block.set_option(\"prepend\", prepend)\n"
        "                if append:\n                    transform_block.set_option(\"append\", append)\n"
        "                if prepend or append:\n                    is_x86 = setting == BeaconSetting.SETTING_PROCINJ_TRANSFORM_X86\n"
        "                    proc_inj.set_config_block(\"transform_x86\" if is_x86 else \"transform_x64\", transform_block)\n")


T("C13", "twin-transform-branches-merged-block-made-per-setting", F, "", "", edits=[
    (F, _X86_LOOP + _tb_tail("x86"), ""), (F, _X64_LOOP + _tb_tail("x64"), _merged_transform_branch(True))])
M("C13", "transform-branches-merged-block-made-before-the-loop", F, "", "", "C13.R13", edits=[
    (F, _PROCINJ_NEW, _PROCINJ_NEW + "        transform_block = StageTransformBlock()\n"),
    (F, _X86_LOOP + _tb_tail("x86"), ""), (F, _X64_LOOP + _tb_tail("x64"), _merged_transform_branch(False))])
# the attachment guarded by a condition that does not cover all that was put into the block / the same guard moved
M("C13", "x64-transform-attached-only-with-a-prepend", F, "                if prepend or append:\n" + _X64_ATTACH, "                if prepend:\n" + _X64_ATTACH, "C13.R13")
_GATE_BRANCH = (
    "            elif setting == BeaconSetting.SETTING_BEACON_GATE and value:\n"
    "                block = BeaconGateBlock.from_beacon_gate_option_strings(value)\n                stage.set_config_block(\"beacon_gate\", block)\n"
)
T("C13", "twin-beacon-gate-guard-at-the-attachment", F, _GATE_BRANCH,
  "            elif setting == BeaconSetting.SETTING_BEACON_GATE:\n                block = BeaconGateBlock.from_beacon_gate_option_strings(value)\n"
  "                if value:\n                    stage.set_config_block(\"beacon_gate\", block)\n")
# (f) R6: a data transform attached outside the settings loop (it always has its steps / termination children; statements: R10)
T("C13", "twin-recover-server-block-filled-in-the-epilogue", F, _RECOVER_TAIL,
  "        if c2_recover:\n            http_get_server = HttpOptionsBlock()\n            http_get_server.set_config_block(\"output\", DataTransformBlock(steps=c2_recover))\n"
  "            http_get.set_non_empty_config_block(\"server\", http_get_server)\n")
M("C13", "recover-server-block-filled-in-the-epilogue-unguarded", F, _RECOVER_TAIL,
  "        http_get_server = HttpOptionsBlock()\n        http_get_server.set_config_block(\"output\", DataTransformBlock(steps=c2_recover))\n"
  "        http_get.set_non_empty_config_block(\"server\", http_get_server)\n", "C13.R10")

# ------------------------------------------------------------------------------------------------ wave 7: R14, the STRING terminal
# against the literals the generator writes (quote + escape-encoded argument + quote is ONE token that ends at its closing
# quote).  The pattern is read as a prioritised automaton over its own character classes, so other spellings of the same
# token language - one regular expression, the classic `(\\.|[^"\\])*` loop, [\s\S] for "any character", helper terminals,
# a greedy run of backslash pairs - are twins; patterns that reject / cut short / overrun a literal are mutants.
_STRING_T = "STRING: \"\\\"\" /(.|\\n)*?/ /(?<!\\\\)(\\\\\\\\)*?/ \"\\\"\"\n"
T("C13", "twin-string-terminal-one-regex", G, _STRING_T, "STRING: /\"(.|\\n)*?(?<!\\\\)(\\\\\\\\)*?\"/\n")
T("C13", "twin-string-terminal-escape-loop", G, _STRING_T, "STRING: /\"(\\\\(.|\\n)|[^\"\\\\])*\"/\n")
T("C13", "twin-string-terminal-any-char-by-categories", G, _STRING_T, "STRING: \"\\\"\" /[\\s\\S]*?/ /(?<!\\\\)(\\\\\\\\)*?/ \"\\\"\"\n")
T("C13", "twin-string-terminal-helper-terminals", G, _STRING_T,
  "_STRING_BODY: /(.|\\n)*?/\n_STRING_TAIL: /(?<!\\\\)(\\\\\\\\)*?/\nSTRING: \"\\\"\" _STRING_BODY _STRING_TAIL \"\\\"\"\n")
T("C13", "twin-string-terminal-greedy-pairs", G, _STRING_T, "STRING: \"\\\"\" /(.|\\n)*?/ /(?<!\\\\)(\\\\\\\\)*/ \"\\\"\"\n")
# no escapes at all: the token of "a\"b" ends at the escaped quote
M("C13", "string-terminal-without-escapes", G, _STRING_T, "STRING: /\"[^\"]*\"/\n", "C13.R14")
# only the two escapes of the quote and the backslash: the literals with \n, \t, \xNN are no tokens
M("C13", "string-terminal-escape-loop-quote-and-backslash-only", G, _STRING_T, "STRING: /\"(\\\\[\"\\\\]|[^\"\\\\])*\"/\n", "C13.R14")
# the escape loop without the quote in the negated class: greedy, the token runs on to the last quote
M("C13", "string-terminal-escape-loop-admits-bare-quote", G, _STRING_T, "STRING: /\"(\\\\(.|\\n)|[^\\\\])*\"/\n", "C13.R14")
# a single optional backslash instead of a run of backslash PAIRS before the closing quote: a literal that ends in an escaped backslash is no token
M("C13", "string-terminal-optional-single-backslash", G, _STRING_T, "STRING: \"\\\"\" /(.|\\n)*?/ /(?<!\\\\)(\\\\)?/ \"\\\"\"\n", "C13.R14")

# ------------------------------------------------------------------------------------------------ wave 8
# (a) grammar: rules lark splices into their parent (`_x`, instances of a rule template `_t{..}`) leave no node of their own -
# the keywords / `string` children / braces of an alternative are read with such symbols written out (`_spliced`).
_HB = (
    "http_beacon_options: \"set\" \"library\" string \";\" -> library              // introduced in Cobalt Strike 4.9\n"
    "    | \"set\" \"data_required\" string \";\"          -> data_required        // introduced in Cobalt Strike 4.10\n"
    "    | \"set\" \"data_required_length\" string \";\"   -> data_required_length // introduced in Cobalt Strike 4.10\n"
)
_EXEC_RULES_HEAD = "execute_options: \"CreateThread\" string \";\"  -> createthread_special\n    | \"CreateRemoteThread\" string \";\"       -> createremotethread_special\n"
# the value part `string ";"` of a statement extracted into an inlined rule, used by the http-beacon and the execute options
T("C13", "twin-grammar-statement-tail-in-inlined-rule", G, "", "", edits=[
    (G, _HB, "http_beacon_options: \"set\" \"library\" _value -> library\n    | \"set\" \"data_required\" _value          -> data_required\n"
             "    | \"set\" \"data_required_length\" _value   -> data_required_length\n\n_value: string \";\"\n"),
    (G, _EXEC_RULES_HEAD, "execute_options: \"CreateThread\" _value  -> createthread_special\n    | \"CreateRemoteThread\" _value       -> createremotethread_special\n")])
# a rule template for the keyword-less executors and one for `set` statements of the http-beacon block
T("C13", "twin-grammar-rule-templates", G, "", "", edits=[
    (G, _HB, "http_beacon_options: _setting{\"library\"} -> library\n    | _setting{\"data_required\"}          -> data_required\n"
             "    | _setting{\"data_required_length\"}   -> data_required_length\n\n_setting{key}: \"set\" key string \";\"\n_flag{key}: key \";\"\n"),
    (G, "    | \"NtQueueApcThread-s\" \";\"              -> ntqueueapcthread_s\n", "    | _flag{\"NtQueueApcThread-s\"}              -> ntqueueapcthread_s\n")])
# the template takes two strings: `set data_required "a" "b";` is not what set_option builds
M("C13", "grammar-rule-template-with-two-strings", G, _HB,
  "http_beacon_options: _setting{\"library\"} -> library\n    | _setting{\"data_required\"}          -> data_required\n"
  "    | _setting{\"data_required_length\"}   -> data_required_length\n\n_setting{key}: \"set\" key string string \";\"\n", "C13.R1")
# the template instance of the dashed executor is given the underscore spelling
M("C13", "grammar-rule-template-instance-wrong-keyword", G, "", "", "C13.R3", edits=[
    (G, _HB, _HB + "\n_flag{key}: key \";\"\n"),
    (G, "    | \"NtQueueApcThread-s\" \";\"              -> ntqueueapcthread_s\n", "    | _flag{\"NtQueueApcThread_s\"}              -> ntqueueapcthread_s\n")])

# (b) R3: the statement of an executor with an argument states the text between the quotes of the entry, unchanged
_EXEC_SPECIAL = "                        option, _, val = item.partition(\" \")\n                        val = val[1:-1]\n"
T("C13", "twin-executor-argument-sliced-from-the-entry", F, _EXEC_SPECIAL,
  "                        option, _, quoted = item.partition(\" \")\n                        val = quoted[1 : len(quoted) - 1] if False else quoted[1:-1]\n")
T("C13", "twin-executor-name-normalised-after-the-split", F, _EXEC_SPECIAL,
  "                        option, _, val = item.partition(\" \")\n                        option = option.replace(\"-\", \"_\").replace(\"_\", \"-\") if False else option\n                        val = val[1:-1]\n")
# the argument is lower-cased on its way (module!Function is case-sensitive text)
M("C13", "executor-argument-lower-cased", F, _EXEC_SPECIAL,
  "                        option, _, val = item.partition(\" \")\n                        val = val[1:-1].lower()\n", "C13.R3")
# the slice keeps the closing quote
M("C13", "executor-argument-keeps-closing-quote", F, _EXEC_SPECIAL,
  "                        option, _, val = item.partition(\" \")\n                        val = val[1:]\n", "C13.R3")
# the `+` of the offset is rewritten together with the rest of the entry before it is split
M("C13", "executor-entry-normalised-before-the-split", F, _EXEC_SPECIAL,
  "                        option, _, val = item.replace(\"+\", \" \").partition(\" \")\n                        val = val[1:-1]\n", "C13.R3")
# from_execute_list rewrites the argument of the pair
M("C13", "from-execute-list-argument-upper-cased", F, "                    block.set_option(\"createthread_special\", value)\n",
  "                    block.set_option(\"createthread_special\", value.upper())\n", "C13.R3")

# (c) R5: every entry of the recover program is rendered, on every path, into the one step of the server output block
_RECOVER_LOOP = (
    "                for k, v in value:\n                    if v is True:\n                        c2_recover.append(k)\n"
    "                    elif isinstance(v, int):\n                        c2_recover.append((k, \"X\" * v))\n"
    "                    else:\n                        c2_recover.append((k, v))\n"
)
T("C13", "twin-recover-loop-as-comprehension", F, "                c2_recover = []\n" + _RECOVER_LOOP,
  "                c2_recover = [k if v is True else (k, \"X\" * v if isinstance(v, int) else v) for k, v in value]\n")
T("C13", "twin-recover-loop-valued-first", F, _RECOVER_LOOP,
  "                for k, v in value:\n                    if v is not True and isinstance(v, int):\n                        c2_recover.append((k, v * \"X\"))\n"
  "                    elif v is True:\n                        c2_recover.append(k)\n                    else:\n                        c2_recover.append((k, v))\n")
# `== True`: a length of 1 equals True, the step loses its argument
M("C13", "recover-flag-test-by-equality", F, "                    if v is True:\n                        c2_recover.append(k)\n",
  "                    if v == True:  # noqa: E712\n                        c2_recover.append(k)\n", "C13.R5")
# a length of 0 is falsy: the step is dropped
M("C13", "recover-zero-length-step-dropped", F, "                    elif isinstance(v, int):\n                        c2_recover.append((k, \"X\" * v))\n",
  "                    elif isinstance(v, int):\n                        if v:\n                            c2_recover.append((k, \"X\" * v))\n", "C13.R5")
# the placeholder does not depend on the length
M("C13", "recover-placeholder-of-fixed-length", F, "                        c2_recover.append((k, \"X\" * v))\n",
  "                        c2_recover.append((k, \"X\" * 4))\n", "C13.R5")

# (d) R10 c / d (F24): an option joined from a sequence - the elements are text (element nullness followed into beacon.py:
# the pairing helper pads with None) and the option is only stated when the sequence has elements
_URIS_RET = "        return list(dict.fromkeys(uri for (_domain, uri) in self.domain_uri_pairs if uri is not None))\n"
_URI_SET = "                if config.uris:\n                    uris = \", \".join(config.uris)\n                    http_get.set_option(\"uri\", uris)\n"
M("C13", "uris-keep-the-pad-value", B, _URIS_RET, "        return list(dict.fromkeys(uri for (_domain, uri) in self.domain_uri_pairs))\n", "C13.R10")
M("C13", "uris-loop-keeps-the-pad-value", B, _URIS_RET,
  "        uris = []\n        for _domain, uri in self.domain_uri_pairs:\n            if uri not in uris:\n                uris.append(uri)\n        return uris\n", "C13.R10")
M("C13", "uris-filter-on-the-wrong-component", B, _URIS_RET,
  "        return list(dict.fromkeys(uri for (domain, uri) in self.domain_uri_pairs if domain is not None))\n", "C13.R10")
T("C13", "twin-uris-collected-in-a-loop", B, _URIS_RET,
  "        uris = []\n        for _domain, uri in self.domain_uri_pairs:\n            if uri is not None and uri not in uris:\n                uris.append(uri)\n        return uris\n")
T("C13", "twin-uris-by-index-with-truthiness-filter", B, _URIS_RET,
  "        return list(dict.fromkeys(pair[1] for pair in self.domain_uri_pairs if pair[1] is not None))\n")
T("C13", "twin-pairs-padded-with-empty-text-and-filtered", B, _URIS_RET,
  "        return [uri for (_domain, uri) in self.domain_uri_pairs if uri is not None and uri != \"\"]\n")
M("C13", "uri-option-set-unconditionally", F, _URI_SET, "                uris = \", \".join(config.uris)\n                http_get.set_option(\"uri\", uris)\n", "C13.R10")
M("C13", "uri-option-guarded-by-the-domains", F, _URI_SET,
  "                if config.domains:\n                    http_get.set_option(\"uri\", \", \".join(config.uris))\n", "C13.R10")
T("C13", "twin-uri-option-guard-by-length", F, _URI_SET,
  "                if len(config.uris) > 0:\n                    http_get.set_option(\"uri\", \", \".join(config.uris))\n")
T("C13", "twin-uri-option-guard-on-the-joined-text", F, _URI_SET,
  "                uris = \", \".join(config.uris)\n                if uris:\n                    http_get.set_option(\"uri\", uris)\n")
T("C13", "twin-uri-option-early-continue", F, _URI_SET,
  "                if not config.uris:\n                    continue\n                http_get.set_option(\"uri\", \", \".join(config.uris))\n")
