"""Additional C03 corpus entries: behaviour-preserving refactorings (twins) the rules must stay silent on, and breaking
variants of the *refactored* shapes (mutants) the rules must still report.

Kinds of refactoring covered (the rules evaluate the parsers instead of matching their text, so none of these shapes is
known to them by name): if/elif chains replaced by lookup tables (module level or local, keyed by opcode value or by
enum member), data-driven loops over (label, set) pairs, hoisted common subexpressions, guard clauses with `continue`,
De-Morganed / inverted conditions, `while True` + break rewritten as `for .. in iter(callable, sentinel)` or as a
read-ahead loop, loops over a tuple of names, conditional expressions, nested helper functions, wrappers in the
pretty-function table; comprehension / generator pipelines rewritten as explicit loops (append under a `not in` guard,
seen-set) and back, tuple targets vs subscripts, map + lambda; stream reads rewritten as slices of the data and back;
helper functions inlined at their call sites (the NUL cut written in place) and helper methods extracted (uris / domains
through one parametrised method); the padding filter of uris spelled as a comprehension `if`, `continue`, `!=`, filter(),
a dict store in a loop; the kill date fields cut with string slices, // and %, divmod."""

from selftest.corpus import M, T

F = "beacon.py"

# ------------------------------------------------------------------------------------------------ source anchors
_REC_CHAIN = (
    "        if step == TransformStep.APPEND:\n"
    "            length = u32be(p.read(4))\n"
    "            rsteps.append((\"append\", length))\n"
    "        elif step == TransformStep.PREPEND:\n"
    "            length = u32be(p.read(4))\n"
    "            rsteps.append((\"prepend\", length))\n"
    "        elif step == TransformStep.BASE64:\n"
    "            rsteps.append((\"base64\", True))\n"
    "        elif step == TransformStep.PRINT:\n"
    "            rsteps.append((\"print\", True))\n"
    "        elif step == TransformStep.NETBIOS:\n"
    "            rsteps.append((\"netbios\", True))\n"
    "        elif step == TransformStep.NETBIOSU:\n"
    "            rsteps.append((\"netbiosu\", True))\n"
    "        elif step == TransformStep.BASE64URL:\n"
    "            rsteps.append((\"base64url\", True))\n"
    "        elif step == TransformStep.MASK:\n"
    "            rsteps.append((\"mask\", True))\n"
    "        elif step == 0:\n"
    "            break\n"
    "        else:\n"
    "            logger.error(\"Unknown recover step {}\".format(step))\n"
    "    return rsteps\n"
)


def _rec_table(keys=".value", netbiosu="netbiosu", mask_line=True, guard="        if step == 0:\n            break\n"):
    rows = [("APPEND", "append", True), ("PREPEND", "prepend", True), ("BASE64", "base64", False), ("PRINT", "print", False),
            ("NETBIOS", "netbios", False), ("NETBIOSU", netbiosu, False), ("BASE64URL", "base64url", False)]
    if mask_line:
        rows.append(("MASK", "mask", False))
    table = "        table = {\n" + "".join(f"            TransformStep.{m}{keys}: (\"{n}\", {c}),\n" for m, n, c in rows) + "        }\n"
    return (
        guard + table +
        "        entry = table.get(step)\n"
        "        if entry is None:\n"
        "            logger.error(\"Unknown recover step {}\".format(step))\n"
        "            continue\n"
        "        text, has_length = entry\n"
        "        rsteps.append((text, u32be(p.read(4)) if has_length else True))\n"
        "    return rsteps\n"
    )


_REC_HEAD = "    while True:\n        d = p.read(4)\n        if not d:\n            break\n        step = u32be(d)\n        if step == TransformStep.APPEND:\n"
_TR_HEAD = "        d = p.read(4)\n        value = u32be(d)\n        if len(d) != 4 or value == 0:\n            break\n        step = TransformStep(value)\n"
_TR_ARG = "        elif step in ARGUMENT_STEPS:\n            length = u32be(p.read(4))\n            arg = p.read(length)\n            tsteps.append((name, arg))\n"
_TR_BUILD = (
    "        elif step == TransformStep.BUILD:\n            btype = u32be(p.read(4))\n            bvalue = BUILD_MAP.get(btype, \"UNKNOWN BUILD ARG\")\n"
    "            tsteps.append((name, bvalue))\n"
)
_GARGLE = (
    "    while True:\n        d = p.read(4)\n        if not d:\n            break\n        start = u32(d)\n        end = u32(p.read(4))\n"
    "        # addresses.append((x1, x2))\n        # addresses.append((hex(x1), hex(x2)))\n        # value = f\"sectionAddress={x1:x}, sectionEnd={x2:x}\"\n"
    "        if (start, end) != (0, 0):\n            value = f\"0x{start:x}-0x{end:x}\"\n            addresses.append(value)\n    return addresses\n"
)
_PI = (
    "    d = p.read(4)\n    if d:\n        val = p.read(u32be(d))\n        steps.append((\"append\", val))\n"
    "    d = p.read(4)\n    if d:\n        val = p.read(u32be(d))\n        steps.append((\"prepend\", val))\n    return steps\n"
)
_GATE = (
    "    ret = []\n    if options.issuperset(comms | core | cleanup):\n        ret.append(\"All\")\n        options -= comms | core | cleanup\n\n"
    "    if options.issuperset(comms):\n        ret.append(\"Comms\")\n        options -= comms\n\n"
    "    if options.issuperset(core):\n        ret.append(\"Core\")\n        options -= core\n\n"
    "    if options.issuperset(cleanup):\n        ret.append(\"Cleanup\")\n        options -= cleanup\n\n"
    "    ret.extend(options)\n    return ret\n"
)
_XL_TEST = "        if inject in (InjectExecutor.CreateThread_, InjectExecutor.CreateRemoteThread_):\n"


def _gate_loop(order=("All", "Comms", "Core", "Cleanup"), sub="members"):
    sets = {"All": "everything", "Comms": "comms", "Core": "core", "Cleanup": "cleanup"}
    return (
        "    everything = comms | core | cleanup\n    ret = []\n"
        "    for label, members in {" + ", ".join(f"\"{k}\": {sets[k]}" for k in order) + "}.items():\n"
        "        if members <= options:\n            ret.append(label)\n            options = options - " + sub + "\n"
        "    return ret + list(options)\n"
    )


# ------------------------------------------------------------------------------------------------ R4 recover programs
T("C03", "twin-recover-local-table", F, _REC_CHAIN[_REC_CHAIN.index("        if step == TransformStep.APPEND"):], _rec_table())
T("C03", "twin-recover-iter-sentinel", F, "    while True:\n        d = p.read(4)\n        if not d:\n            break\n        step = u32be(d)\n        if step == TransformStep.APPEND:",
  "    for d in iter(lambda: p.read(4), b\"\"):\n        step = u32be(d)\n        if step == TransformStep.APPEND:")
T("C03", "twin-recover-length-helper", F, "", "", edits=[
    (F, "    rsteps: List[Tuple[str, Union[int, bool]]] = []\n    p = io.BytesIO(program)\n    while True:\n        d = p.read(4)\n        if not d:\n            break\n        step = u32be(d)\n",
     "    rsteps: List[Tuple[str, Union[int, bool]]] = []\n    p = io.BytesIO(program)\n\n    def number():\n        return int.from_bytes(p.read(4), \"big\")\n\n"
     "    while True:\n        d = p.read(4)\n        if len(d) == 0:\n            break\n        step = int.from_bytes(d, byteorder=\"big\", signed=False)\n"),
    (F, "            length = u32be(p.read(4))\n            rsteps.append((\"append\", length))", "            rsteps.append((\"append\", number()))"),
])
M("C03", "recover-table-enum-keys", F, _REC_CHAIN[_REC_CHAIN.index("        if step == TransformStep.APPEND"):], _rec_table(keys=""), "C03.R4")
M("C03", "recover-table-wrong-text", F, _REC_CHAIN[_REC_CHAIN.index("        if step == TransformStep.APPEND"):], _rec_table(netbiosu="netbios"), "C03.R4")
M("C03", "recover-table-drops-mask", F, _REC_CHAIN[_REC_CHAIN.index("        if step == TransformStep.APPEND"):], _rec_table(mask_line=False), "C03.R4")
M("C03", "recover-table-stops-on-unknown", F, _REC_CHAIN[_REC_CHAIN.index("        if step == TransformStep.APPEND"):],
  _rec_table().replace("        rsteps.append((text, u32be(p.read(4)) if has_length else True))\n", "        if not has_length:\n            rsteps.append((text, True))\n            continue\n        length = u32be(p.read(4))\n        if not length:\n            break\n        rsteps.append((text, length))\n"),
  "C03.R")
M("C03", "recover-length-little-endian-helper", F, "            length = u32be(p.read(4))\n            rsteps.append((\"prepend\", length))", "            rsteps.append((\"prepend\", int.from_bytes(p.read(4), \"little\")))", "C03.R")
M("C03", "recover-length-half-read", F, "            length = u32be(p.read(4))\n            rsteps.append((\"prepend\", length))", "            length = u32be(p.read(2))\n            rsteps.append((\"prepend\", length))", "C03.R")

# ------------------------------------------------------------------------------------------------ R2/R3 client programs
T("C03", "twin-transform-frozenset-classes", F, "", "", edits=[
    (F, "    ENABLE_STEPS = [\n        TransformStep.BASE64,", "    ENABLE_STEPS = frozenset((\n        TransformStep.BASE64,"),
    (F, "        TransformStep.MASK,\n    ]\n    ARGUMENT_STEPS = [", "        TransformStep.MASK,\n    ))\n    ARGUMENT_STEPS = {"),
    (F, "        TransformStep.PREPEND,\n    ]\n    BUILD_MAP", "        TransformStep.PREPEND,\n    }\n    BUILD_MAP"),
])
T("C03", "twin-transform-read-ahead-loop", F, "", "", edits=[
    (F, "    while True:\n" + _TR_HEAD, "    d = p.read(4)\n    while len(d) == 4 and u32be(d) != 0:\n        value = u32be(d)\n        step = TransformStep(value)\n"),
    (F, _TR_ARG + "    return tsteps\n", _TR_ARG + "        d = p.read(4)\n    return tsteps\n"),
])
T("C03", "twin-transform-guard-clauses", F, _TR_BUILD + "        elif step in ENABLE_STEPS:\n            tsteps.append((name, True))\n" + _TR_ARG,
  "        if step == TransformStep.BUILD:\n            btype = u32be(p.read(4))\n            tsteps.append((name, \"output\" if btype == 1 else (build if btype == 0 else \"UNKNOWN BUILD ARG\")))\n            continue\n"
  "        if step in ENABLE_STEPS:\n            tsteps.append((name, True))\n            continue\n"
  "        if step not in ARGUMENT_STEPS:\n            continue\n        length = u32be(p.read(4))\n        tsteps.append((name, p.read(length)))\n")
T("C03", "twin-transform-not-and-exit", F, "        if len(d) != 4 or value == 0:\n            break\n", "        if not (len(d) == 4 and value):\n            break\n")
T("C03", "twin-postreq-lambda", F, "    BeaconSetting.SETTING_C2_POSTREQ: functools.partial(parse_transform_binary, build=\"id\"),",
  "    BeaconSetting.SETTING_C2_POSTREQ: lambda data: parse_transform_binary(data, \"id\"),")
T("C03", "twin-request-explicit-build", F, "    BeaconSetting.SETTING_C2_REQUEST: parse_transform_binary,", "    BeaconSetting.SETTING_C2_REQUEST: functools.partial(parse_transform_binary, build=\"metadata\"),")
M("C03", "postreq-lambda-wrong-build", F, "    BeaconSetting.SETTING_C2_POSTREQ: functools.partial(parse_transform_binary, build=\"id\"),",
  "    BeaconSetting.SETTING_C2_POSTREQ: lambda data: parse_transform_binary(data, \"output\"),", "C03.R2")
M("C03", "transform-guard-clause-selector-swapped", F, _TR_BUILD,
  "        elif step == TransformStep.BUILD:\n            btype = u32be(p.read(4))\n            tsteps.append((name, \"output\" if btype == 0 else (build if btype == 1 else \"UNKNOWN BUILD ARG\")))\n", "C03.R2")
M("C03", "transform-frozenset-misses-opcode", F, "", "", "C03.R2", edits=[
    (F, "    ARGUMENT_STEPS = [\n        TransformStep._HEADER,", "    ARGUMENT_STEPS = frozenset([\n        TransformStep._HEADER,"),
    (F, "        TransformStep._HOSTHEADER,\n        TransformStep.APPEND,\n        TransformStep.PREPEND,\n    ]", "        TransformStep.APPEND,\n        TransformStep.PREPEND,\n    ])"),
])
M("C03", "transform-stops-on-short-argument-length", F, "            length = u32be(p.read(4))\n            arg = p.read(length)\n", "            length = u32be(p.read(4))\n            if length == 0:\n                return tsteps\n            arg = p.read(length)\n", "C03.R3")
M("C03", "transform-steps-inserted-in-front", F, "            tsteps.append((name, True))", "            tsteps.insert(0, (name, True))", "C03.R")
M("C03", "transform-stream-skips-header", F, "    tsteps: List[Tuple[str, Union[str, bytes, bool]]] = []\n    p = io.BytesIO(program)", "    tsteps: List[Tuple[str, Union[str, bytes, bool]]] = []\n    p = io.BytesIO(program[4:])", "C03.R3")

# ------------------------------------------------------------------------------------------------ R7 execute list / process-inject transform
T("C03", "twin-execute-set-dispatch", F, _XL_TEST, "        with_arguments = {InjectExecutor.CreateRemoteThread_, InjectExecutor.CreateThread_}\n        if inject in with_arguments:\n")
T("C03", "twin-execute-or-dispatch", F, _XL_TEST, "        if inject == InjectExecutor.CreateThread_ or InjectExecutor.CreateRemoteThread_ == inject:\n")
T("C03", "twin-execute-tuple-exit", F, "        if not d or d == b\"\\x00\":\n            break\n", "        if d in (b\"\", b\"\\x00\"):\n            break\n")
M("C03", "execute-set-misses-remote-thread", F, _XL_TEST, "        with_arguments = {InjectExecutor.CreateThread_}\n        if inject in with_arguments:\n", "C03.R7")
M("C03", "execute-int-keys-never-match", F, _XL_TEST, "        if inject in {6, 7}:\n", "C03.R7")
# start-address arguments (offset, module, function) of the CreateThread_ / CreateRemoteThread_ executors: which read is
# shown where, and how the 2-byte offset is decoded - whatever spells the decode / the formatting
_XL_ARGS = (
    "            s4 = u16be(p.read(2))\n"
    "            length = u32be(p.read(4))\n"
    "            s2 = p.read(length).rstrip(b\"\\x00\")\n"
    "            length = u32be(p.read(4))\n"
    "            s3 = p.read(length).rstrip(b\"\\x00\")\n"
    "            s = \"{}!{}\".format(s2.decode(), s3.decode())\n"
    "            if s4:\n"
    "                s += \"+0x{:x}\".format(s4)\n"
    "            ret.append('{} \"{}\"'.format(inject.name.rstrip(\"_\"), s))\n"
)
_XL_STRUCT = (F, "import io\n", "import io\nimport struct\n")
_XL_HEAD = "    ret: List[str] = []\n    p = io.BytesIO(data)\n    while True:\n        d = p.read(1)\n        if not d or d == b\"\\x00\":\n"


def _xl_helper(offset="u16be(p.read(2))", shown="offset", pair="{module}!{function}"):
    """f-strings, a local length-prefixed-string helper, descriptive names"""
    return [
        (F, _XL_HEAD, "\n    def read_asciiz(p: BinaryIO) -> str:\n        length = u32be(p.read(4))\n        return p.read(length).rstrip(b\"\\x00\").decode()\n\n" + _XL_HEAD),
        (F, _XL_ARGS,
         f"            offset = {offset}\n"
         "            module = read_asciiz(p)\n"
         "            function = read_asciiz(p)\n"
         f"            target = f\"{pair}\"\n"
         "            if offset:\n"
         f"                target += f\"+0x{{{shown}:x}}\"\n"
         "            ret.append(f'{inject.name.rstrip(\"_\")} \"{target}\"')\n"),
    ]


T("C03", "twin-execute-fstring-asciiz-helper", F, "", "", edits=_xl_helper())
T("C03", "twin-execute-offset-from-bytes", F, "            s4 = u16be(p.read(2))\n", "            s4 = int.from_bytes(p.read(2), byteorder=\"big\", signed=False)\n")
T("C03", "twin-execute-offset-struct-unpack", F, "", "", edits=[_XL_STRUCT, (F, "            s4 = u16be(p.read(2))\n", "            (s4,) = struct.unpack(\">H\", p.read(2))\n")])
T("C03", "twin-execute-offset-decoded-late", F, "", "", edits=[
    (F, "            s4 = u16be(p.read(2))\n            length = u32be(p.read(4))\n", "            raw_offset = p.read(2)\n            length = u32be(p.read(4))\n"),
    (F, "            s = \"{}!{}\".format(s2.decode(), s3.decode())\n", "            s = \"{}!{}\".format(s2.decode(), s3.decode())\n            s4 = u16be(raw_offset)\n"),
])
T("C03", "twin-execute-percent-format-conditional", F,
  "            s = \"{}!{}\".format(s2.decode(), s3.decode())\n            if s4:\n                s += \"+0x{:x}\".format(s4)\n",
  "            s = \"%s!%s\" % (s2.decode(), s3.decode()) + (\"+0x%x\" % s4 if s4 != 0 else \"\")\n")
M("C03", "execute-offset-from-bytes-little", F, "            s4 = u16be(p.read(2))\n", "            s4 = int.from_bytes(p.read(2), \"little\")\n", "C03.R7")
M("C03", "execute-offset-struct-little-endian", F, "", "", "C03.R7", edits=[_XL_STRUCT, (F, "            s4 = u16be(p.read(2))\n", "            (s4,) = struct.unpack(\"<H\", p.read(2))\n")])
M("C03", "execute-offset-signed", F, "            s4 = u16be(p.read(2))\n", "            s4 = int.from_bytes(p.read(2), \"big\", signed=True)\n", "C03.R7")
M("C03", "execute-helper-shows-length-as-offset", F, "                s += \"+0x{:x}\".format(s4)\n", "                s += \"+0x{:x}\".format(length)\n", "C03.R7")
M("C03", "execute-helper-offset-little-endian-late", F, "", "", "C03.R7", edits=_xl_helper(offset="int.from_bytes(p.read(2), \"little\")"))
M("C03", "execute-module-function-swapped", F, "            s = \"{}!{}\".format(s2.decode(), s3.decode())\n", "            s = \"{}!{}\".format(s3.decode(), s2.decode())\n", "C03.R7")
M("C03", "execute-fstring-function-first", F, "", "", "C03.R7", edits=_xl_helper(pair="{function}!{module}"))
T("C03", "twin-inject-steps-name-loop", F, _PI,
  "    for name in (\"append\", \"prepend\"):\n        d = p.read(4)\n        if not d:\n            continue\n        steps.append((name, p.read(u32be(d))))\n    return steps\n")
M("C03", "inject-steps-names-swapped", F, _PI,
  "    for name in (\"prepend\", \"append\"):\n        d = p.read(4)\n        if not d:\n            continue\n        steps.append((name, p.read(u32be(d))))\n    return steps\n", "C03.R7")
M("C03", "inject-steps-second-length-reused", F, "    d = p.read(4)\n    if d:\n        val = p.read(u32be(d))\n        steps.append((\"prepend\", val))",
  "    d2 = p.read(4)\n    if d2:\n        val = p.read(u32be(d))\n        steps.append((\"prepend\", val))", "C03.R7")
T("C03", "twin-nul-cut-split", F, "    a, _, _ = data.partition(b\"\\x00\")\n    return a\n", "    return data.split(b\"\\x00\", 1)[0]\n")
M("C03", "nul-cut-last-nul", F, "    a, _, _ = data.partition(b\"\\x00\")\n    return a\n", "    a, _, _ = data.rpartition(b\"\\x00\")\n    return a\n", "C03.R7")
T("C03", "twin-str-decode-keyword", F, "    return null_terminated_bytes(data).decode(\"latin-1\", \"ignore\")", "    cut = null_terminated_bytes(data)\n    return cut.decode(encoding=\"latin-1\", errors=\"ignore\")")
T("C03", "twin-sibling-wrapper", F, "    BeaconSetting.SETTING_SPAWNTO_X64: null_terminated_str,", "    BeaconSetting.SETTING_SPAWNTO_X64: lambda value: null_terminated_str(value),")

# ------------------------------------------------------------------------------------------------ R9 section table
T("C03", "twin-gargle-iter-sentinel", F, _GARGLE,
  "    for d in iter(functools.partial(p.read, 4), b\"\"):\n        start, end = u32(d), u32(p.read(4))\n        if not (start or end):\n            continue\n"
  "        addresses.append(\"0x{:x}-0x{:x}\".format(start, end))\n    return addresses\n")
T("C03", "twin-gargle-percent-format", F, "            value = f\"0x{start:x}-0x{end:x}\"\n", "            value = \"0x%x-0x%x\" % (start, end)\n")
T("C03", "twin-gargle-any", F, "        if (start, end) != (0, 0):", "        if any((start, end)):")
M("C03", "gargle-iter-sentinel-or-zero", F, _GARGLE,
  "    for d in iter(functools.partial(p.read, 4), b\"\"):\n        start, end = u32(d), u32(p.read(4))\n        if not (start and end):\n            continue\n"
  "        addresses.append(\"0x{:x}-0x{:x}\".format(start, end))\n    return addresses\n", "C03.R9")
M("C03", "gargle-format-indices-swapped", F, "            value = f\"0x{start:x}-0x{end:x}\"\n", "            value = \"0x{1:x}-0x{0:x}\".format(start, end)\n", "C03.R9")
M("C03", "gargle-mixed-endianness", F, "        end = u32(p.read(4))\n", "        end = u32be(p.read(4))\n", "C03.R9")

# ------------------------------------------------------------------------------------------------ R5 BeaconGate groups
T("C03", "twin-gate-dict-loop", F, _GATE, _gate_loop())
T("C03", "twin-gate-subset-operators", F, "    if options.issuperset(core):\n", "    if core.issubset(options):\n")
M("C03", "gate-dict-loop-wrong-order", F, _GATE, _gate_loop(order=("Comms", "All", "Core", "Cleanup")), "C03.R5")
M("C03", "gate-dict-loop-removes-everything", F, _GATE, _gate_loop(sub="everything"), "C03.R5")
M("C03", "gate-leftovers-dropped", F, "    ret.extend(options)\n    return ret\n", "    return ret\n", "C03.R5")
M("C03", "gate-options-inverted-flag", F, "    options = {name for name in comms | core | cleanup if getattr(bgo, name)}", "    options = {name for name in comms | core | cleanup if not getattr(bgo, name)}", "C03.R5")

# ------------------------------------------------------------------------------------------------ R8 derived properties
T("C03", "twin-port-key-local", F, "        return self.raw_settings.get(\"SETTING_PORT\", None)", "        key = \"SETTING_PORT\"\n        settings = self.raw_settings\n        return settings.get(key)")
T("C03", "twin-protocol-conditional-expression", F, "        if protocol is None:\n            return None\n        return BeaconProtocol(protocol).name", "        return BeaconProtocol(protocol).name if protocol is not None else None")
M("C03", "port-key-local-wrong", F, "        return self.raw_settings.get(\"SETTING_PORT\", None)", "        key = \"SETTING_PROTOCOL\"\n        settings = self.raw_settings\n        return settings.get(key)", "C03.R8")

# ------------------------------------------------------------------------------------------------ more shapes of the same kinds
_REC_TAIL = _REC_CHAIN[_REC_CHAIN.index("        if step == TransformStep.APPEND"):]
_REC_LAMBDAS = (
    "        handlers = {\n            1: lambda: (\"append\", u32be(p.read(4))),\n            2: lambda: (\"prepend\", u32be(p.read(4))),\n"
    "            3: lambda: (\"base64\", True),\n            4: lambda: (\"print\", True),\n            8: lambda: (\"netbios\", True),\n            11: lambda: (\"netbiosu\", True),\n"
    "            13: lambda: (\"base64url\", True),\n            15: lambda: (\"mask\", True),\n        }\n        if step == 0:\n            break\n        handler = handlers.get(step)\n"
    "        if handler is not None:\n            rsteps.append(handler())\n        else:\n            logger.error(\"Unknown recover step {}\".format(step))\n    return rsteps\n"
)
T("C03", "twin-recover-handler-table", F, _REC_TAIL, _REC_LAMBDAS)
M("C03", "recover-handler-table-wrong-opcode", F, _REC_TAIL, _REC_LAMBDAS.replace("            11: lambda: (\"netbiosu\", True),", "            12: lambda: (\"netbiosu\", True),"), "C03.R4")
T("C03", "twin-recover-list-concat", F, "            rsteps.append((\"mask\", True))", "            rsteps = rsteps + [(\"mask\", True)]")
T("C03", "twin-recover-return-copy", F, "            logger.error(\"Unknown recover step {}\".format(step))\n    return rsteps\n", "            logger.error(\"Unknown recover step {}\".format(step))\n    return list(rsteps)\n")
T("C03", "twin-transform-tell-loop", F, "    while True:\n" + _TR_HEAD, "    while p.tell() < len(program):\n" + _TR_HEAD)
T("C03", "twin-transform-conditional-read", F, "            arg = p.read(length)\n", "            arg = p.read(length) if length else b\"\"\n")
T("C03", "twin-transform-stream-over-copy", F, "    tsteps: List[Tuple[str, Union[str, bytes, bool]]] = []\n    p = io.BytesIO(program)", "    tsteps: List[Tuple[str, Union[str, bytes, bool]]] = []\n    p = io.BytesIO(bytes(program))")
T("C03", "twin-transform-kind-table", F, _TR_BUILD + "        elif step in ENABLE_STEPS:\n            tsteps.append((name, True))\n" + _TR_ARG,
  "        kinds = dict.fromkeys(ENABLE_STEPS, \"flag\")\n        kinds.update(dict.fromkeys(ARGUMENT_STEPS, \"arg\"))\n        kind = kinds.get(step)\n"
  "        if step == TransformStep.BUILD:\n            tsteps.append((name, BUILD_MAP.get(u32be(p.read(4)), \"UNKNOWN BUILD ARG\")))\n"
  "        elif kind == \"flag\":\n            tsteps.append((name, True))\n        elif kind == \"arg\":\n            tsteps.append((name, p.read(u32be(p.read(4)))))\n")
M("C03", "transform-kind-table-arg-as-flag", F, _TR_BUILD + "        elif step in ENABLE_STEPS:\n            tsteps.append((name, True))\n" + _TR_ARG,
  "        kinds = dict.fromkeys(ENABLE_STEPS, \"flag\")\n        kinds.update(dict.fromkeys(ARGUMENT_STEPS, \"arg\"))\n        kinds[TransformStep.HEADER] = \"flag\"\n        kind = kinds.get(step)\n"
  "        if step == TransformStep.BUILD:\n            tsteps.append((name, BUILD_MAP.get(u32be(p.read(4)), \"UNKNOWN BUILD ARG\")))\n"
  "        elif kind == \"flag\":\n            tsteps.append((name, True))\n        elif kind == \"arg\":\n            tsteps.append((name, p.read(u32be(p.read(4)))))\n", "C03.R2")
M("C03", "transform-conditional-read-wrong-guard", F, "            arg = p.read(length)\n", "            arg = p.read(length) if length > 1 else b\"\"\n", "C03.R2")
T("C03", "twin-execute-name-table", F, "        elif inject == InjectExecutor.NtQueueApcThread_s:\n            # Cobalt Strike spells this executor with a dash\n            ret.append(\"NtQueueApcThread-s\")\n        else:\n            ret.append(inject.name)\n",
  "        else:\n            ret.append({InjectExecutor.NtQueueApcThread_s: \"NtQueueApcThread-s\"}.get(inject, inject.name))\n")
T("C03", "twin-inject-steps-nested-helper", F, _PI,
  "    def sized():\n        n = p.read(4)\n        return p.read(u32be(n)) if n else None\n\n    for name in (\"append\", \"prepend\"):\n        v = sized()\n        if v is not None:\n            steps.append((name, v))\n    return steps\n")
T("C03", "twin-gargle-walrus", F, "    while True:\n        d = p.read(4)\n        if not d:\n            break\n        start = u32(d)", "    while d := p.read(4):\n        start = u32(d)")
T("C03", "twin-port-subscript", F, "        return self.raw_settings.get(\"SETTING_PORT\", None)", "        return self.raw_settings[\"SETTING_PORT\"] if \"SETTING_PORT\" in self.raw_settings else None")
T("C03", "twin-gate-bool-flag", F, "    options = {name for name in comms | core | cleanup if getattr(bgo, name)}", "    options = set(name for name in sorted(comms | core | cleanup) if bool(getattr(bgo, name)))")
T("C03", "twin-gate-sorted-leftovers-kept", F, "    ret.extend(options)\n    return ret\n", "    ret += list(options)\n    return ret\n")
_IMPORT_STRUCT = (F, "import io\n", "import io\nimport struct\n")
M("C03", "recover-length-struct-little-endian", F, "", "", "C03.R", edits=[
    _IMPORT_STRUCT, (F, "            length = u32be(p.read(4))\n            rsteps.append((\"append\", length))", "            (length,) = struct.unpack(\"<I\", p.read(4))\n            rsteps.append((\"append\", length))")])

# ------------------------------------------------------------------------------------------------ assumptions are facts about abstract values
# (the opcode of a run is a named assumption about the value decoded from the iteration's first read - no bytes are fed
# to the parser; what a loop carries around is unknown)
_REC_LOOP = "    p = io.BytesIO(program)\n    while True:\n        d = p.read(4)\n        if not d:\n            break\n        step = u32be(d)\n"
T("C03", "twin-execute-set-exit", F, "        if not d or d == b\"\\x00\":\n            break\n", "        if d in {b\"\", b\"\\x00\"}:\n            break\n")
T("C03", "twin-execute-opcode-by-index", F, "        inject = InjectExecutor(d)\n", "        inject = InjectExecutor(d[0])\n")
T("C03", "twin-execute-opcode-little-endian-byte", F, "        inject = InjectExecutor(d)\n", "        inject = InjectExecutor(int.from_bytes(d, \"little\"))\n")
M("C03", "execute-opcode-shifted", F, "        inject = InjectExecutor(d)\n", "        inject = InjectExecutor(d[0] + 1)\n", "C03.R7")
T("C03", "twin-recover-raw-zero-exit", F, _REC_LOOP, _REC_LOOP.replace("        step = u32be(d)\n", "        if d == b\"\\x00\\x00\\x00\\x00\":\n            break\n        step = u32be(d)\n"))
M("C03", "recover-raw-exit-on-base64", F, _REC_LOOP, _REC_LOOP.replace("        step = u32be(d)\n", "        if d == b\"\\x00\\x00\\x00\\x03\":\n            break\n        step = u32be(d)\n"), "C03.R")
M("C03", "recover-opcode-little-endian", F, _REC_LOOP, _REC_LOOP.replace("step = u32be(d)", "step = u32(d)"), "C03.R3")
T("C03", "twin-recover-counter-logged", F, _REC_LOOP,
  "    p = io.BytesIO(program)\n    count = 0\n    while True:\n        d = p.read(4)\n        if not d:\n            break\n        count += 1\n        logger.debug(\"step %d\", count)\n        step = u32be(d)\n")
M("C03", "recover-counter-stops-the-loop", F, _REC_LOOP,
  "    p = io.BytesIO(program)\n    count = 0\n    while True:\n        d = p.read(4)\n        if not d:\n            break\n        count += 1\n        if count > 2:\n            break\n        step = u32be(d)\n", "C03.R3")
M("C03", "recover-stops-after-three-steps", F, "        step = u32be(d)\n        if step == TransformStep.APPEND:\n", "        step = u32be(d)\n        if len(rsteps) >= 3:\n            break\n        if step == TransformStep.APPEND:\n", "C03.R3")
M("C03", "transform-later-base64-stops", F, "    p = io.BytesIO(program)\n    while True:\n        d = p.read(4)\n        value = u32be(d)\n",
  "    p = io.BytesIO(program)\n    first = True\n    while True:\n        d = p.read(4)\n        value = u32be(d)\n        if not first and value == 3:\n            break\n        first = False\n", "C03.R3")
T("C03", "twin-gargle-read-ahead", F, "", "", edits=[
    (F, "    while True:\n        d = p.read(4)\n        if not d:\n            break\n        start = u32(d)\n        end = u32(p.read(4))\n", "    d = p.read(4)\n    while d:\n        start = u32(d)\n        end = u32(p.read(4))\n        d = p.read(4)\n"),
    (F, "        if (start, end) != (0, 0):\n            value = f\"0x{start:x}-0x{end:x}\"\n            addresses.append(value)\n    return addresses",
     "        if (start, end) != (0, 0):\n            addresses.append(f\"0x{start:x}-0x{end:x}\")\n    return addresses"),
])

# ------------------------------------------------------------------------------------------------ R8 domains / uris: which member of each pair, de-duplicated by what
# (comprehension / generator pipeline <-> explicit loop, seen-set, subscripts instead of tuple targets, map + itemgetter,
# dict comprehension: the same selection; the other member, or values of a dict keyed by the other member: not)
# (the uris projection carries the padding filter since the F24 repair: the twins keep it, in whatever spelling)
_URIS = "        return list(dict.fromkeys(uri for (_domain, uri) in self.domain_uri_pairs if uri is not None))"
_DOMS = "        return list(dict.fromkeys(domain for (domain, _uri) in self.domain_uri_pairs))"
T("C03", "twin-uris-append-loop", F, _URIS, "        found = []\n        pairs = self.domain_uri_pairs\n        for pair in pairs:\n            u = pair[1]\n            if u is None or u in found:\n                continue\n            found.append(u)\n        return found")
T("C03", "twin-domains-seen-set", F, _DOMS, "        out, seen = [], set()\n        for d, _u in self.domain_uri_pairs:\n            if d not in seen:\n                seen.add(d)\n                out.append(d)\n        return out")
T("C03", "twin-domains-dict-of-pairs", F, _DOMS, "        return list(dict(self.domain_uri_pairs))")
T("C03", "twin-uris-listcomp-subscript", F, _URIS, "        uris = [p[-1] for p in self.domain_uri_pairs if p[-1] is not None]\n        return list(dict.fromkeys(uris).keys())")
T("C03", "twin-uris-dictcomp", F, _URIS, "        return list({uri: None for _domain, uri in self.domain_uri_pairs if not uri is None})")
T("C03", "twin-uris-map-lambda", F, _URIS, "        return list(dict.fromkeys(filter(lambda u: u is not None, map(lambda pair: pair[1], self.domain_uri_pairs))))")
T("C03", "twin-uris-empty-guard", F, _URIS, "        pairs = self.domain_uri_pairs\n        if not pairs:\n            return []\n        return list(dict.fromkeys(uri for (_domain, uri) in pairs if None is not uri))")
T("C03", "twin-uris-reshaped-beyond-recognition", F, _URIS, "        return [u for u in dict.fromkeys(list(zip(*self.domain_uri_pairs))[1]) if u is not None] if self.domain_uri_pairs else []")
T("C03", "twin-pairs-listcomp", F, "        return list(grouper(null_terminated_str(domains).split(\",\"), 2))", "        return [pair for pair in grouper(null_terminated_str(domains).split(\",\"), 2)]")
M("C03", "uris-loop-appends-domain", F, _URIS, "        uris = []\n        for domain, uri in self.domain_uri_pairs:\n            if domain not in uris:\n                uris.append(domain)\n        return uris", "C03.R8")
M("C03", "uris-loop-deduplicated-by-domain", F, _URIS, "        uris, seen = [], set()\n        for domain, uri in self.domain_uri_pairs:\n            if domain in seen:\n                continue\n            seen.add(domain)\n            if uri is not None:\n                uris.append(uri)\n        return uris", "C03.R8")
M("C03", "uris-dictcomp-values", F, _URIS, "        return list({d: u for d, u in self.domain_uri_pairs if u is not None}.values())", "C03.R8")
M("C03", "domains-subscript-second", F, _DOMS, "        return list(dict.fromkeys(p[1] for p in self.domain_uri_pairs))", "C03.R8")

# ------------------------------------------------------------------------------------------------ R10 pivot frame header: the window (offset 2, length L - 4) of the data
# (stream reads <-> slices, the subtraction done before / after, read-then-chop, an explicit empty-header exit: the same
# window; another offset, another length, another prefix: not)
_PF = "    p = io.BytesIO(data)\n    length = u16be(p.read(2))\n    return p.read(length - 4)\n"
T("C03", "twin-frame-slices", F, _PF, "    length = u16be(data[:2])\n    return data[2 : 2 + length - 4]\n")
T("C03", "twin-frame-slice-of-tail", F, _PF, "    size = int.from_bytes(data[0:2], \"big\") - 4\n    return data[2:][:size]\n")
T("C03", "twin-frame-read-then-chop", F, _PF, "    p = io.BytesIO(data)\n    length = u16be(p.read(2))\n    return p.read(length)[:-4]\n")
T("C03", "twin-frame-memoryview", F, _PF, "    view = memoryview(data)\n    length = u16be(view[:2])\n    return bytes(view[2 : length - 2])\n")
T("C03", "twin-frame-empty-header-exit", F, _PF, "    p = io.BytesIO(data)\n    length = u16be(p.read(2))\n    if length <= 4:\n        return b\"\"\n    return p.read(length - 4)\n")
T("C03", "twin-frame-header-local", F, _PF, "    p = io.BytesIO(data)\n    prefix = p.read(2)\n    n = int.from_bytes(prefix, byteorder=\"big\", signed=False) - 4\n    header = p.read(n)\n    return header\n")
M("C03", "frame-placeholder-kept", F, _PF, "    p = io.BytesIO(data)\n    length = u16be(p.read(2))\n    return p.read(length)\n", "C03.R10")
M("C03", "frame-slice-from-prefix", F, _PF, "    length = u16be(data[:2])\n    return data[0 : length - 4]\n", "C03.R10")
M("C03", "frame-read-then-chop-two", F, _PF, "    p = io.BytesIO(data)\n    length = u16be(p.read(2))\n    return p.read(length - 2)[:-4]\n", "C03.R10")
M("C03", "frame-prefix-little-endian", F, _PF, "    p = io.BytesIO(data)\n    length = int.from_bytes(p.read(2), \"little\")\n    return p.read(length - 4)\n", "C03.R10")
M("C03", "frame-prefix-four-bytes", F, _PF, "    p = io.BytesIO(data)\n    length = u32be(p.read(4))\n    return p.read(length - 4)\n", "C03.R10")
M("C03", "frame-empty-exit-too-wide", F, _PF, "    p = io.BytesIO(data)\n    length = u16be(p.read(2))\n    if length < 8:\n        return b\"\"\n    return p.read(length - 4)\n", "C03.R10")

# ------------------------------------------------------------------------------------------------ R5: set comparison operators, early exits
# (R5 compares what the path taken reports with what the encoding prescribes in every abstract state none / some / all of
# each group enabled; `==`, `>`, `<`, `>=`, `<=`, truth and len() of the option set are set tests like issuperset)


def _gate_early(all_test="options == everything", op=">=", order=("Comms", "Core", "Cleanup"), tail="    ret.extend(options)\n    return ret\n"):
    sets = {"Comms": "comms", "Core": "core", "Cleanup": "cleanup"}
    return (
        "    everything = comms | core | cleanup\n    if " + all_test + ":\n        return [\"All\"]\n    ret = []\n"
        "    for label, group in (" + ", ".join(f"(\"{k}\", {sets[k]})" for k in order) + "):\n"
        "        if options " + op + " group:\n            ret.append(label)\n            options -= group\n" + tail
    )


T("C03", "twin-gate-early-all-equality", F, _GATE, _gate_early())
T("C03", "twin-gate-early-all-mirrored-subset", F, _GATE, _gate_early(all_test="everything <= options"))
T("C03", "twin-gate-early-all-by-size", F, _GATE, _gate_early(all_test="len(options) == len(everything)"))
T("C03", "twin-gate-nothing-left-exit", F, _GATE, _gate_early(tail="    if not options:\n        return ret\n    return ret + sorted(options)\n"))
T("C03", "twin-gate-operator-ge", F, "    if options.issuperset(cleanup):\n", "    if options >= cleanup:\n")
M("C03", "gate-equality-instead-of-superset", F, "    if options.issuperset(comms):\n", "    if options == comms:\n", "C03.R5")
M("C03", "gate-proper-subset-mirrored", F, "    if options.issuperset(cleanup):\n", "    if cleanup < options:\n", "C03.R5")
M("C03", "gate-early-all-on-superset-of-core", F, _GATE, _gate_early(all_test="options >= core"), "C03.R5")
M("C03", "gate-early-loop-wrong-order", F, _GATE, _gate_early(order=("Core", "Comms", "Cleanup")), "C03.R5")
M("C03", "gate-early-exit-when-something-left", F, _GATE, _gate_early(tail="    if options:\n        return ret\n    return ret + sorted(options)\n"), "C03.R5")

# ------------------------------------------------------------------------------------------------ R11: every decode returns a value of its own
T("C03", "twin-memoised-string-decoder", F, "def null_terminated_str(data: bytes) -> str:", "@functools.lru_cache(maxsize=None)\ndef null_terminated_str(data: bytes) -> str:")
T("C03", "twin-memoised-digest", F, "def sha256sum_pubkey(der_data: bytes) -> str:", "@functools.lru_cache(maxsize=64)\ndef sha256sum_pubkey(der_data: bytes) -> str:")
M("C03", "execute-list-functools-cache", F, "def parse_execute_list(data: bytes) -> List[str]:", "@functools.cache\ndef parse_execute_list(data: bytes) -> List[str]:", "C03.R11")
M("C03", "table-entry-memoised-wrapper", F, "    BeaconSetting.SETTING_GARGLE_SECTIONS: parse_gargle,", "    BeaconSetting.SETTING_GARGLE_SECTIONS: functools.lru_cache(maxsize=32)(parse_gargle),", "C03.R11")
M("C03", "recover-module-level-cache", F, "", "", "C03.R11", edits=[
    (F, "def parse_recover_binary(program: bytes) -> List[Tuple[str, Union[int, bool]]]:\n", "_RECOVER_PROGRAMS: Dict[bytes, list] = {}\n\n\ndef parse_recover_binary(program: bytes) -> List[Tuple[str, Union[int, bool]]]:\n"),
    (F, "    rsteps: List[Tuple[str, Union[int, bool]]] = []\n    p = io.BytesIO(program)\n", "    if program in _RECOVER_PROGRAMS:\n        return _RECOVER_PROGRAMS[program]\n    rsteps: List[Tuple[str, Union[int, bool]]] = []\n    _RECOVER_PROGRAMS[program] = rsteps\n    p = io.BytesIO(program)\n"),
])
M("C03", "gate-default-argument-cache", F, "", "", "C03.R11", edits=[
    (F, "def beacon_gate_options_string(bgo: BeaconGateOptions) -> list[str]:\n", "def beacon_gate_options_string(bgo: BeaconGateOptions, _seen={}) -> list[str]:\n"),
    (F, "    ret.extend(options)\n    return ret\n", "    ret.extend(options)\n    return _seen.setdefault(bgo.dumps(), ret)\n"),
])

# the option set collected by an explicit loop (`if flag: options.add(name)` is a conditional member, not a fork)
_GATE_COMP = "    options = {name for name in comms | core | cleanup if getattr(bgo, name)}\n"
_GATE_ADD_LOOP = "    options = set()\n    for name in comms | core | cleanup:\n        if getattr(bgo, name):\n            options.add(name)\n"
T("C03", "twin-gate-options-add-loop", F, _GATE_COMP, _GATE_ADD_LOOP)
M("C03", "gate-options-add-loop-skips-cleanup", F, _GATE_COMP, _GATE_ADD_LOOP.replace("comms | core | cleanup", "comms | core"), "C03.R5")
M("C03", "gate-options-add-loop-proper-superset", F, "", "", "C03.R5", edits=[
    (F, _GATE_COMP, _GATE_ADD_LOOP),
    (F, "    if options.issuperset(core):\n", "    if options > core:\n"),
])

# ------------------------------------------------------------------------------------------------ R12: fixed-size setting values
# (the term stored in the mapping for a TYPE_SHORT / TYPE_INT record is dec(bytes, big, unsigned) over all of the bytes
# whatever spells the decode: u16be / u32be, int.from_bytes, struct.unpack, a precompiled struct.Struct from a table keyed
# by the record type, a table of functions; a signed / little-endian / partial decode, or a converted TYPE_PTR value: not)
_SM_CONV = (
    "                if setting.type == SettingsType.TYPE_SHORT:\n                    val = u16be(val)\n"
    "                elif setting.type == SettingsType.TYPE_INT:\n                    val = u32be(val)\n"
)


def _sm_struct_table(short=">H", int_=">I", where="local"):
    table = "{SettingsType.TYPE_SHORT: struct.Struct(\"" + short + "\"), SettingsType.TYPE_INT: struct.Struct(\"" + int_ + "\")}"
    use = (
        "                unpacker = " + ("_VALUE_STRUCTS" if where == "module" else table) + ".get(setting.type)\n"
        "                if unpacker is not None:\n                    val = unpacker.unpack(val)[0]\n"
    )
    edits = [_IMPORT_STRUCT, (F, _SM_CONV, use)]
    if where == "module":
        edits.append((F, "class BeaconConfig:\n", "_VALUE_STRUCTS = " + table + "\n\n\nclass BeaconConfig:\n"))
    return edits


T("C03", "twin-settings-map-struct-table", F, "", "", edits=_sm_struct_table())
T("C03", "twin-settings-map-module-struct-table", F, "", "", edits=_sm_struct_table(short="!H", int_=">L", where="module"))
T("C03", "twin-settings-map-from-bytes", F, _SM_CONV,
  "                if setting.type in (SettingsType.TYPE_SHORT, SettingsType.TYPE_INT):\n                    val = int.from_bytes(val, \"big\")\n")
T("C03", "twin-settings-map-struct-unpack", F, "", "", edits=[_IMPORT_STRUCT, (F, "                    val = u32be(val)\n", "                    (val,) = struct.unpack(\">I\", val)\n")])
T("C03", "twin-settings-map-function-table", F, _SM_CONV,
  "                val = {SettingsType.TYPE_SHORT: u16be, SettingsType.TYPE_INT: u32be}.get(setting.type, lambda raw: raw)(val)\n")
T("C03", "twin-settings-map-conditional-expression", F, _SM_CONV,
  "                kind = setting.type\n                val = u16be(val) if kind == SettingsType.TYPE_SHORT else (u32be(val) if kind == SettingsType.TYPE_INT else val)\n")
M("C03", "settings-map-short-signed-from-bytes", F, "                    val = u16be(val)\n", "                    val = int.from_bytes(val[:2], \"big\", signed=True)\n", "C03.R12")
M("C03", "settings-map-int-little-endian-struct", F, "", "", "C03.R12", edits=[_IMPORT_STRUCT, (F, "                    val = u32be(val)\n", "                    val = struct.unpack(\"<I\", val)[0]\n")])
M("C03", "settings-map-local-struct-table-signed-int", F, "", "", "C03.R12", edits=_sm_struct_table(int_=">l"))
M("C03", "settings-map-int-half-width", F, "                    val = u32be(val)\n", "                    val = u16be(val)\n", "C03.R12")
M("C03", "settings-map-function-table-native-order", F, _SM_CONV,
  "                val = {SettingsType.TYPE_SHORT: u16, SettingsType.TYPE_INT: u32}.get(setting.type, lambda raw: raw)(val)\n", "C03.R12")
M("C03", "settings-map-pointer-values-converted", F, "                elif setting.type == SettingsType.TYPE_INT:\n                    val = u32be(val)\n", "                else:\n                    val = u32be(val)\n", "C03.R12")
M("C03", "settings-map-pretty-gets-signed", F, "            if pretty:\n                pretty_func = SETTING_TO_PRETTYFUNC.get(setting.index)\n",
  "            if pretty:\n                if setting.type == SettingsType.TYPE_INT:\n                    val = int.from_bytes(setting.value, \"big\", signed=True)\n                pretty_func = SETTING_TO_PRETTYFUNC.get(setting.index)\n", "C03.R12")

# ------------------------------------------------------------------------------------------------ call style: positional -> keyword arguments
# (library signatures are bound like package signatures: io.BytesIO(initial_bytes=..), int.from_bytes(bytes=.., byteorder=..),
# x.split(sep=.., maxsplit=..), x.decode(encoding=.., errors=..) are the calls with the same values in the same parameters)
_REC_HEAD = "    rsteps: List[Tuple[str, Union[int, bool]]] = []\n    p = io.BytesIO(program)\n"
_TR_HEAD = "    tsteps: List[Tuple[str, Union[str, bytes, bool]]] = []\n    p = io.BytesIO(program)"
T("C03", "twin-recover-stream-keyword", F, _REC_HEAD, _REC_HEAD.replace("io.BytesIO(program)", "io.BytesIO(initial_bytes=program)"))
T("C03", "twin-transform-stream-keyword", F, _TR_HEAD, _TR_HEAD.replace("io.BytesIO(program)", "io.BytesIO(initial_bytes=program)"))
T("C03", "twin-transform-from-bytes-keywords", F, "            btype = u32be(p.read(4))\n", "            btype = int.from_bytes(bytes=p.read(4), byteorder=\"big\")\n")
T("C03", "twin-recover-unpack-keyword", F, "        step = u32be(d)\n        if step == TransformStep.APPEND:\n", "        step = u32be(data=d)\n        if step == TransformStep.APPEND:\n")
T("C03", "twin-nul-cut-split-keywords", F, "    a, _, _ = data.partition(b\"\\x00\")\n    return a\n", "    return data.split(sep=b\"\\x00\", maxsplit=1)[0]\n")
T("C03", "twin-pairs-split-keyword", F, "null_terminated_str(domains).split(\",\")", "null_terminated_str(domains).split(sep=\",\")")
T("C03", "twin-frame-stream-keyword-from-bytes", F, "", "", edits=[
    (F, "    p = io.BytesIO(data)\n    length = u16be(p.read(2))\n", "    p = io.BytesIO(initial_bytes=data)\n    length = int.from_bytes(bytes=p.read(2), byteorder=\"big\", signed=False)\n"),
])
M("C03", "recover-stream-keyword-skips-header", F, _REC_HEAD, _REC_HEAD.replace("io.BytesIO(program)", "io.BytesIO(initial_bytes=program[4:])"), "C03.R3")
M("C03", "transform-from-bytes-keywords-little", F, "            btype = u32be(p.read(4))\n", "            btype = int.from_bytes(bytes=p.read(4), byteorder=\"little\")\n", "C03.R")
M("C03", "frame-stream-keyword-prefix-little", F, "", "", "C03.R10", edits=[
    (F, "    p = io.BytesIO(data)\n    length = u16be(p.read(2))\n", "    p = io.BytesIO(initial_bytes=data)\n    length = int.from_bytes(bytes=p.read(2), byteorder=\"little\")\n"),
])
M("C03", "nul-cut-rsplit-keywords", F, "    a, _, _ = data.partition(b\"\\x00\")\n    return a\n", "    return data.rsplit(sep=b\"\\x00\", maxsplit=1)[0]\n", "C03.R7")
M("C03", "pairs-split-keyword-semicolon", F, "null_terminated_str(domains).split(\",\")", "null_terminated_str(domains).split(sep=\";\")", "C03.R8")

# ------------------------------------------------------------------------------------------------ wave 8
# R7 null_terminated_str: the cut helper inlined at its call site (reverse of extract-function) - what is decoded is
# judged as a term (any form of lemma P0 over the parameter, or a package function that returns such a cut), not by the
# name of the helper; the cut at the LAST NUL / another codec written in place are still reported
_NTS = "    return null_terminated_bytes(data).decode(\"latin-1\", \"ignore\")"
T("C03", "twin-str-cut-inlined-split", F, _NTS, "    return data.split(b\"\\x00\", 1)[0].decode(\"latin-1\", \"ignore\")")
T("C03", "twin-str-cut-inlined-partition-temp", F, _NTS, "    parts = data.partition(b\"\\x00\")\n    raw = parts[0]\n    return raw.decode(encoding=\"iso-8859-1\", errors=\"ignore\")")
M("C03", "str-cut-inlined-rpartition", F, _NTS, "    head, _, _ = data.rpartition(b\"\\x00\")\n    return head.decode(\"latin-1\", \"ignore\")", "C03.R7")
M("C03", "str-cut-inlined-ascii", F, _NTS, "    head, _, _ = data.partition(b\"\\x00\")\n    return head.decode(\"ascii\", \"ignore\")", "C03.R7")

# R8 kill date: the fields are digit windows of the decimal YYYYMMDD value, however they are spelled (string slices,
# // and %, divmod); a window with other bounds is reported
_KD = ("            date_str = str(killdate)\n"
       "            year = int(date_str[:4])\n"
       "            month = int(date_str[4:6])\n"
       "            day = int(date_str[6:8])\n")
T("C03", "twin-killdate-arithmetic", F, _KD, "            year = killdate // 10000\n            month = killdate // 100 % 100\n            day = killdate % 100\n")
T("C03", "twin-killdate-divmod", F, _KD, "            year, rest = divmod(killdate, 10000)\n            month, day = divmod(rest, 100)\n")
T("C03", "twin-killdate-negative-slices", F, _KD, "            date_str = f\"{killdate}\"\n            year = int(date_str[:-4])\n            month = int(date_str[-4:-2])\n            day = int(date_str[-2:])\n")
M("C03", "killdate-day-one-digit", F, _KD, "            year = killdate // 10000\n            month = killdate % 10000 // 100\n            day = killdate % 10\n", "C03.R8")
M("C03", "killdate-year-three-zeros", F, _KD, "            year = killdate // 1000\n            month = killdate // 100 % 100\n            day = killdate % 100\n", "C03.R8")
M("C03", "killdate-month-slice-short", F, "            month = int(date_str[4:6])\n", "            month = int(date_str[4:5])\n", "C03.R8")
M("C03", "killdate-divmod-wrong-modulus", F, _KD, "            year, rest = divmod(killdate, 10000)\n            month, day = divmod(rest, 10)\n", "C03.R8")
M("C03", "killdate-split-settings-day-before-month", F, "            if year and month and day:\n                killdate = f\"{year:02d}-{month:02d}-{day:02d}\"",
  "            if year and month and day:\n                killdate = f\"{year:02d}-{day:02d}-{month:02d}\"", "C03.R8")

# R8 uris (F24): a projection may drop exactly the padding value of the pairing helper, and uris has to - every way
# the second member of a pair reaches the result passes a test that excludes it (loop / continue / != / helper method /
# dict store / filter() spellings of the same filter are the same dominance fact)
T("C03", "twin-uris-continue-on-padding", F, _URIS, "        uris = []\n        for _domain, uri in self.domain_uri_pairs:\n            if uri is None:\n                continue\n            if uri not in uris:\n                uris.append(uri)\n        return uris")
T("C03", "twin-uris-dict-store-loop", F, _URIS, "        unique = {}\n        for pair in self.domain_uri_pairs:\n            if pair[1] != None:\n                unique[pair[1]] = None\n        return list(unique.keys())")
T("C03", "twin-uris-filter-after-dedup", F, _URIS, "        return [u for u in dict.fromkeys(uri for (_domain, uri) in self.domain_uri_pairs) if u is not None]")
T("C03", "twin-uris-helper-method", F, _URIS, "        return self._column(1)\n\n    def _column(self, which: int) -> List[str]:\n        return list(dict.fromkeys(p[which] for p in self.domain_uri_pairs if p[which] is not None))")
T("C03", "twin-pairs-explicit-fillvalue", F, "        return list(grouper(null_terminated_str(domains).split(\",\"), 2))", "        return list(grouper(null_terminated_str(domains).split(\",\"), 2, fillvalue=None))")
M("C03", "uris-loop-without-padding-filter", F, _URIS, "        uris = []\n        for _domain, uri in self.domain_uri_pairs:\n            if uri not in uris:\n                uris.append(uri)\n        return uris", "C03.R8")
M("C03", "uris-filter-tests-the-domain", F, _URIS, "        return list(dict.fromkeys(uri for (domain, uri) in self.domain_uri_pairs if domain is not None))", "C03.R8")
M("C03", "uris-filter-inverted", F, _URIS, "        return list(dict.fromkeys(uri for (_domain, uri) in self.domain_uri_pairs if uri is None))", "C03.R8")
M("C03", "uris-helper-method-unfiltered", F, _URIS, "        return self._column(1)\n\n    def _column(self, which: int) -> List[str]:\n        return list(dict.fromkeys(p[which] for p in self.domain_uri_pairs))", "C03.R8")
M("C03", "domains-dropped-without-uri", F, _DOMS, "        return list(dict.fromkeys(domain for (domain, uri) in self.domain_uri_pairs if uri is not None))", "C03.R8")
M("C03", "uris-from-even-filtered", F, _URIS, "        return list(dict.fromkeys(_domain for (_domain, uri) in self.domain_uri_pairs if uri is not None))", "C03.R8")
T("C03", "twin-killdate-text-slices-shown", F, _KD + "            killdate = f\"{year:02d}-{month:02d}-{day:02d}\"\n        else:",
  "            date_str = str(killdate)\n            killdate = f\"{date_str[:4]}-{date_str[4:6]}-{date_str[6:]}\"\n        else:")
M("C03", "killdate-text-slices-day-month-swapped", F, _KD + "            killdate = f\"{year:02d}-{month:02d}-{day:02d}\"\n        else:",
  "            date_str = str(killdate)\n            killdate = f\"{date_str[:4]}-{date_str[6:]}-{date_str[4:6]}\"\n        else:", "C03.R8")
