"""C11 - extra corpus: twins for the kinds of refactoring the rules are robust against (constant collections hoisted to
module / class level, extracted helpers, flags and temporaries, inverted tests with early exits, conditional expressions
instead of if/else - also for the *callee* -, comprehensions instead of loops, single-return caches, renamed private
attributes, delegating builder helpers, keyword arguments, token texts through temporaries / inlined node helpers, reshaped
literal encoders) and mutants for every restructured rule, several of them applied on top of a refactored shape."""

from selftest.corpus import M, T

F = "c2profile.py"

# ------------------------------------------------------------------------------------------------ as_dict pieces
LP_LOCAL = (
    '        list_props = [\n'
    '            "stage.transform-x86.header",\n'
    '            "process-inject.transform-x86",\n'
    '            "process-inject.execute",\n'
    '            "http-post.server.output",\n'
    '            "http-post.client.id",\n'
    '            "http-post.client.output",\n'
    '            "http-stager.server.output",\n'
    '            "http-get.client.metadata",\n'
    '            "http-get.server.output",\n'
    '        ]\n'
)
LP_ITEMS = (
    '    "stage.transform-x86.header",\n'
    '    "process-inject.transform-x86",\n'
    '    "process-inject.execute",\n'
    '    "http-post.server.output",\n'
    '    "http-post.client.id",\n'
    '    "http-post.client.output",\n'
    '    "http-stager.server.output",\n'
    '    "http-get.client.metadata",\n'
    '    "http-get.server.output",\n'
)
CLASS_HEAD = 'class C2Profile(ConfigBlock):\n'
LP_TEST = '                    if key in list_props:\n'
DECODE = '                        value = tuple(string_token_to_bytes(x) for x in line)\n'

PAIR_LOOP = (
    '                        value = []\n'
    '                        for x in line[-2:]:\n'
    '                            if x.type == "STRING":\n'
    '                                value.append(str(x)[1:-1])\n'
    '                            else:\n'
    '                                value.append(x)\n'
    '                        value = tuple(value)\n'
)
PAIR_COMP = '                        value = tuple(str(x)[1:-1] if x.type == "STRING" else x for x in line[-2:])\n'
PAIR_GUARD = (
    '                        value = []\n'
    '                        for x in line[-2:]:\n'
    '                            if x.type != "STRING":\n'
    '                                value.append(x)\n'
    '                                continue\n'
    '                            text = str(x)\n'
    '                            value.append(text[1:-1])\n'
    '                        value = tuple(value)\n'
)
SINGLE = (
    '                    if isinstance(value, Token):\n'
    '                        if value.type == "STRING":\n'
    '                            # strip quotes\n'
    '                            value = str(value)[1:-1]\n'
)
SINGLE_AND = (
    '                    if isinstance(value, Token) and value.type == "STRING":\n'
    '                        value = str(value)[1:-1]\n'
)
SINGLE_IFEXP = '                    value = str(value)[1:-1] if isinstance(value, Token) and "STRING" == value.type else value\n'

EARLY = '        if self._dict_hash == hash(self.tree):\n            return self._dict_cache\n        line = []\n'
TAIL = '        self._dict_hash = hash(self.tree)\n        self._dict_cache = dict(properties)\n        return self._dict_cache\n'
INIT = '        self._dict_cache = {}\n        self._dict_hash = None\n'

# hoisted to a module-level tuple / a class-level frozenset / tested through a flag, decoded with map()
HOIST_MODULE = [
    (F, LP_LOCAL, ""),
    (F, CLASS_HEAD, "_LIST_BLOCKS = (\n" + LP_ITEMS + ")\n\n\n" + CLASS_HEAD),
    (F, LP_TEST, '                    if key in _LIST_BLOCKS:\n'),
]
T("C11", "twin-list-props-module-tuple", F, "", "", edits=HOIST_MODULE)
T("C11", "twin-list-props-class-frozenset", F, "", "", edits=[
    (F, LP_LOCAL, ""),
    (F, '    __name__ = "start"\n', '    __name__ = "start"\n    LIST_BLOCKS = frozenset({\n' + LP_ITEMS + '    })\n'),
    (F, LP_TEST, '                    if key in self.LIST_BLOCKS:\n'),
])
T("C11", "twin-list-flag-and-map", F, LP_TEST + DECODE,
  '                    is_list = key in list_props\n                    if is_list:\n                        value = tuple(map(string_token_to_bytes, line))\n')
T("C11", "twin-list-decode-ifexp", F, LP_TEST + DECODE,
  '                    decoded = tuple(string_token_to_bytes(x) for x in line) if key in list_props else None\n' + LP_TEST + '                        value = decoded\n')
M("C11", "hoisted-list-prop-dropped", F, "", "", "C11.R1", edits=[
    HOIST_MODULE[0], (F, CLASS_HEAD, "_LIST_BLOCKS = (\n" + LP_ITEMS.replace('    "http-post.client.id",\n', "") + ")\n\n\n" + CLASS_HEAD), HOIST_MODULE[2]])
M("C11", "decode-dropped", F, DECODE, '                        value = tuple(line)\n', "C11.R1")
M("C11", "decode-on-the-other-paths", F, LP_TEST, '                    if key not in list_props:\n', "C11.R1")
M("C11", "decode-unconditional-map", F, LP_TEST + DECODE,
  '                    decoded = tuple(map(string_token_to_bytes, line))\n' + LP_TEST + '                        value = decoded\n', "C11.R1")

# unquoting: comprehension with a conditional expression, inverted test with continue and a temporary, merged `and`
T("C11", "twin-unquote-comprehension", F, PAIR_LOOP, PAIR_COMP)
T("C11", "twin-unquote-guard-continue", F, PAIR_LOOP, PAIR_GUARD)
T("C11", "twin-unquote-merged-and", F, SINGLE, SINGLE_AND)
T("C11", "twin-unquote-ifexp", F, SINGLE, SINGLE_IFEXP)
T("C11", "twin-unquote-len-minus-one", F, "                                value.append(str(x)[1:-1])\n", "                                value.append(str(x)[1 : len(str(x)) - 1])\n")
# lemma L1 (s[1:len(s)-1] == s[1:-1]) needs the `len` of the sliced string itself
M("C11", "unquote-len-of-other-string", F, "                                value.append(str(x)[1:-1])\n", "                                value.append(str(x)[1 : len(path) - 1])\n", "C11.R1")
M("C11", "unquote-pair-dropped", F, "                                value.append(str(x)[1:-1])\n", "                                value.append(str(x))\n", "C11.R1")
M("C11", "unquote-comprehension-strip", F, PAIR_LOOP, PAIR_COMP.replace("str(x)[1:-1]", "str(x).strip('\"')"), "C11.R1")
M("C11", "unquote-single-strip-merged", F, SINGLE, SINGLE_AND.replace("str(value)[1:-1]", "str(value).strip('\"')"), "C11.R1")
M("C11", "unquote-on-the-non-strings", F, PAIR_LOOP, PAIR_COMP.replace('x.type == "STRING"', 'x.type != "STRING"'), "C11.R1")
M("C11", "unquote-too-wide", F, SINGLE, SINGLE_AND.replace("[1:-1]", "[2:-2]"), "C11.R1")

# cache: hash computed once, result through a local, single return around an extracted refresh helper, renamed attributes
T("C11", "twin-cache-hash-temp", F, "", "", edits=[
    (F, EARLY, '        tree_hash = hash(self.tree)\n        if tree_hash == self._dict_hash:\n            return self._dict_cache\n        line = []\n'),
    (F, TAIL, '        result = dict(properties)\n        self._dict_cache = result\n        self._dict_hash = tree_hash\n        return result\n'),
])
SINGLE_RETURN = [
    (F, EARLY, '        if self._dict_hash != hash(self.tree):\n            self._refresh_dict()\n        return self._dict_cache\n\n    def _refresh_dict(self) -> None:\n        line = []\n'),
    (F, TAIL, '        self._dict_hash = hash(self.tree)\n        self._dict_cache = dict(properties)\n'),
]
T("C11", "twin-cache-single-return-helper", F, "", "", edits=SINGLE_RETURN)
RENAMED = [
    (F, INIT, '        self._view = {}\n        self._view_key = None\n'),
    (F, EARLY, '        if self._view_key == hash(self.tree):\n            return self._view\n        line = []\n'),
    (F, TAIL, '        self._view_key, self._view = hash(self.tree), dict(properties)\n        return self._view\n'),
]
T("C11", "twin-cache-attributes-renamed", F, "", "", edits=RENAMED)
T("C11", "twin-cache-plain-dict-setdefault", F, "", "", edits=[
    (F, "        properties = collections.defaultdict(list)\n", "        properties = {}\n"),
    (F, "                    properties[key].append(value)\n", "                    properties.setdefault(key, []).append(value)\n"),
    (F, TAIL, '        self._dict_hash = hash(self.tree)\n        self._dict_cache = properties\n        return self._dict_cache\n'),
])
T("C11", "twin-cache-invalidate-method", F, "    @property\n    def properties(self):\n",
  "    def invalidate(self) -> None:\n        self._dict_hash = None\n\n    @property\n    def properties(self):\n")
M("C11", "single-return-without-compare", F, "", "", "C11.R2", edits=[
    (F, EARLY, '        if self._dict_hash is None:\n            self._refresh_dict()\n        return self._dict_cache\n\n    def _refresh_dict(self) -> None:\n        line = []\n'), SINGLE_RETURN[1]])
M("C11", "renamed-compare-with-stale-object", F, "", "", "C11.R2", edits=[
    RENAMED[0], (F, EARLY, '        if self._view_key == hash(self):\n            return self._view\n        line = []\n'), RENAMED[2]])
M("C11", "renamed-from-text-preseeds", F, "", "", "C11.R2", edits=RENAMED + [
    (F, "        profile.tree = c2profile_parser.parse(source)\n        return profile", "        profile.tree = c2profile_parser.parse(source)\n        profile._view_key = hash(profile.tree)\n        return profile")])
M("C11", "hash-stored-before-walk", F, "", "", "C11.R2", edits=[
    (F, EARLY, EARLY + '        self._dict_hash = hash(self.tree)\n'), (F, TAIL, '        self._dict_cache = dict(properties)\n        return self._dict_cache\n')])
M("C11", "hash-stored-without-cache", F, TAIL, '        self._dict_hash = hash(self.tree)\n        if properties:\n            self._dict_cache = dict(properties)\n        return self._dict_cache\n', "C11.R2")
M("C11", "cache-defaultdict-via-temp", F, TAIL, '        result = properties\n        self._dict_hash = hash(self.tree)\n        self._dict_cache = result\n        return result\n', "C11.R2")
M("C11", "cache-of-something-else", F, TAIL, '        self._dict_hash = hash(self.tree)\n        self._dict_cache = dict(enumerate(stack))\n        return self._dict_cache\n', "C11.R2")
M("C11", "hash-starts-as-number", F, INIT, '        self._dict_cache = {}\n        self._dict_hash = 0\n', "C11.R2")

# ------------------------------------------------------------------------------------------------ builder pieces
HEADER_BODY = (
    '        for header_name, header_val in value:\n'
    '            header_name = value_to_string(header_name)\n'
    '            header_val = value_to_string(header_val)\n'
    '            self.tree.children.append(\n'
    '                Tree(\n'
    '                    "header",\n'
    '                    [\n'
    '                        Tree("string", [Token("STRING", header_name)]),\n'
    '                        Tree("string", [Token("STRING", header_val)]),\n'
    '                    ],\n'
    '                )\n'
    '            )\n'
)
PAIR_BODY = (
    '        for a, b in value:\n'
    '            a = value_to_string(a)\n'
    '            b = value_to_string(b)\n'
    '            self.tree.children.append(\n'
    '                Tree(\n'
    '                    option,\n'
    '                    [\n'
    '                        Tree("string", [Token("STRING", a)]),\n'
    '                        Tree("string", [Token("STRING", b)]),\n'
    '                    ],\n'
    '                )\n'
    '            )\n'
)
BLOCK_SET_OPTION = (
    '        value = value_to_string(value)\n'
    '        self.tree.children.append(\n'
    '            Tree(\n'
    '                option,\n'
    '                [\n'
    '                    Tree("string", [Token("STRING", value)]),\n'
    '                ],\n'
    '            )\n'
    '        )\n'
)
GLOBAL_SET_OPTION = (
    '        self.tree.children.append(\n'
    '            Tree(\n'
    '                "option",\n'
    '                [\n'
    '                    Token("OPTION", option),\n'
    '                    Tree("string", [Token("STRING", value)]),\n'
    '                ],\n'
    '            )\n'
    '        )\n'
)
SPLICE = '        self.tree.children.append(Tree(option, config_block.tree.children))\n'
DT_TREE = (
    '        return Tree(\n'
    '            self.__name__,\n'
    '            [\n'
    '                Tree(\n'
    '                    "data_transform",\n'
    '                    [\n'
    '                        Tree("steps", self.steps),\n'
    '                        Tree("termination", self.termination),\n'
    '                    ],\n'
    '                )\n'
    '            ],\n'
    '        )\n'
)
DT_TREE_TEMPS = (
    '        steps = Tree("steps", self.steps)\n'
    '        termination = Tree("termination", self.termination)\n'
    '        body = Tree("data_transform", [steps, termination])\n'
    '        return Tree(self.__name__, [body])\n'
)
DT_LOOP = (
    '        steps = steps or []\n'
    '        for option in steps:\n'
    '            if option in ("base64", "base64url", "mask", "netbios", "netbiosu"):\n'
    '                self.add_step(option, None)\n'
    '            elif option in ("print", "uri-append", "uri_append"):\n'
    '                self.add_termination(option.replace("-", "_"), None)\n'
    '            elif len(option) == 2:\n'
    '                option, value = option\n'
    '                if option in ("header", "parameter"):\n'
    '                    self.add_termination(option, value)\n'
    '                else:\n'
    '                    self.add_step(option, value)\n'
)
DT_LOOP_IFEXP = (
    '        for step in steps or []:\n'
    '            if step in ("base64", "base64url", "mask", "netbios", "netbiosu"):\n'
    '                self.add_step(step, None)\n'
    '                continue\n'
    '            if step == "print" or step in ("uri-append", "uri_append"):\n'
    '                self.add_termination(value=None, option=step.replace("-", "_"))\n'
    '                continue\n'
    '            if len(step) != 2:\n'
    '                continue\n'
    '            name, argument = step\n'
    '            add = self.add_termination if name in {TERMS} else self.add_step\n'
    '            add(name, argument)\n'
)
DT_LOOP_GETATTR = DT_LOOP_IFEXP.replace(
    '            add = self.add_termination if name in {TERMS} else self.add_step\n            add(name, argument)\n',
    '            getattr(self, "add_step" if name not in {TERMS} else "add_termination")(name, argument)\n')

T("C11", "twin-header-delegates-to-pair", F, HEADER_BODY, '        self._pair("header", value)\n')
T("C11", "twin-block-set-option-temp-keywords", F, BLOCK_SET_OPTION,
  '        text = Token("STRING", value_to_string(value))\n        node = Tree(data=option, children=[Tree("string", [text])])\n        self.tree.children.append(node)\n')
T("C11", "twin-global-set-option-temps", F, GLOBAL_SET_OPTION,
  '        children = [Token("OPTION", option), Tree("string", [Token("STRING", value)])]\n        self.tree.children += [Tree("option", children)]\n')
T("C11", "twin-splice-temp", F, SPLICE, '        children = config_block.tree.children\n        node = Tree(option, children)\n        self.tree.children.append(node)\n')
T("C11", "twin-data-transform-tree-temps", F, DT_TREE, DT_TREE_TEMPS)
T("C11", "twin-step-loop-callee-ifexp", F, DT_LOOP, DT_LOOP_IFEXP.replace("{TERMS}", '("header", "parameter")'))
T("C11", "twin-step-loop-callee-getattr", F, DT_LOOP, DT_LOOP_GETATTR.replace("{TERMS}", '("header", "parameter")'))
M("C11", "pair-builds-one-string", F, PAIR_BODY, PAIR_BODY.replace('                        Tree("string", [Token("STRING", b)]),\n', ''), "C11.R3")
M("C11", "pair-child-not-a-string-tree", F, PAIR_BODY, PAIR_BODY.replace('Tree("string", [Token("STRING", b)])', 'Token("STRING", b)'), "C11.R3")
M("C11", "header-delegates-wrong-name", F, HEADER_BODY, '        self._pair("headers", value)\n', "C11.R3")
M("C11", "block-set-option-bare-token", F, BLOCK_SET_OPTION,
  '        text = Token("STRING", value_to_string(value))\n        node = Tree(data=option, children=[text])\n        self.tree.children.append(node)\n', "C11.R3")
M("C11", "global-set-option-temps-order", F, GLOBAL_SET_OPTION,
  '        children = [Tree("string", [Token("STRING", value)]), Token("OPTION", option)]\n        self.tree.children += [Tree("option", children)]\n', "C11.R3")
M("C11", "splice-whole-tree", F, SPLICE, '        children = [config_block.tree]\n        self.tree.children.append(Tree(option, children))\n', "C11.R3")
M("C11", "data-transform-lists-swapped", F, DT_TREE, DT_TREE_TEMPS.replace('Tree("steps", self.steps)', 'Tree("steps", self.termination)').replace('Tree("termination", self.termination)', 'Tree("termination", self.steps)'), "C11.R3")
M("C11", "data-transform-order-swapped", F, DT_TREE, DT_TREE_TEMPS.replace("[steps, termination]", "[termination, steps]"), "C11.R3")
M("C11", "callee-ifexp-parameter-as-step", F, DT_LOOP, DT_LOOP_IFEXP.replace("{TERMS}", '("header",)'), "C11.R3")
M("C11", "callee-getattr-swapped", F, DT_LOOP, DT_LOOP_GETATTR.replace("{TERMS}", '("header", "parameter")').replace('name not in', 'name in'), "C11.R3")
M("C11", "guard-style-print-as-step", F, DT_LOOP, DT_LOOP_IFEXP.replace("{TERMS}", '("header", "parameter")').replace('"netbiosu"):', '"netbiosu", "print"):'), "C11.R3")

# single exit: the cache is read into a local on both branches
_BODY_START = '        line = []\n        stack = []\n        list_props = [\n'
T("C11", "twin-cache-single-exit-local", F, "", "", edits=[
    (F, '        if self._dict_hash == hash(self.tree):\n            return self._dict_cache\n' + _BODY_START,
     '        if self._dict_hash == hash(self.tree):\n            result = self._dict_cache\n            return result\n' + _BODY_START),
    (F, TAIL, '        self._dict_hash = hash(self.tree)\n        self._dict_cache = dict(properties)\n        result = self._dict_cache\n        return result\n')])
M("C11", "single-exit-local-read-without-compare", F, "", "", "C11.R2", edits=[
    (F, '        if self._dict_hash == hash(self.tree):\n            return self._dict_cache\n' + _BODY_START,
     '        result = self._dict_cache\n        if self._dict_hash is not None:\n            return result\n' + _BODY_START),
    (F, TAIL, '        self._dict_hash = hash(self.tree)\n        self._dict_cache = dict(properties)\n        result = self._dict_cache\n        return result\n')])
# unquoting through a local closure
_UNQ = '        def unquote(tok):\n            return str(tok)[1:-1] if tok.type == "STRING" else tok\n\n'
T("C11", "twin-unquote-local-closure", F, "", "", edits=[
    (F, _BODY_START, _UNQ + _BODY_START),
    (F, PAIR_LOOP, '                        value = tuple(unquote(x) for x in line[-2:])\n'),
    (F, SINGLE, '                    if isinstance(value, Token):\n                        value = unquote(value)\n')])
M("C11", "unquote-local-closure-strip", F, "", "", "C11.R1", edits=[
    (F, _BODY_START, _UNQ.replace("str(tok)[1:-1]", "str(tok).strip('\"')") + _BODY_START),
    (F, PAIR_LOOP, '                        value = tuple(unquote(x) for x in line[-2:])\n'),
    (F, SINGLE, '                    if isinstance(value, Token):\n                        value = unquote(value)\n')])
_PAIR_KIND = PAIR_LOOP.replace('                            if x.type == "STRING":\n', '                            kind = x.type\n                            is_string = "STRING" == kind\n                            if is_string:\n')
T("C11", "twin-unquote-type-temp", F, PAIR_LOOP, _PAIR_KIND)
M("C11", "unquote-type-temp-dropped", F, PAIR_LOOP, _PAIR_KIND.replace("value.append(str(x)[1:-1])", "value.append(str(x))"), "C11.R1")

# ------------------------------------------------------------------------------------------------ R6: string literals, builder side
# own part: the text of every STRING token built in code is value_to_string(<value>) on every definition that reaches it
STEP_APPEND = '            val.append(Tree("string", [Token("STRING", value_to_string(value))]))\n        self.steps.append(Tree(option, val))\n'
TERM_APPEND = '            val.append(Tree("string", [Token("STRING", value_to_string(value))]))\n        self.termination.append(Tree(option, val))\n'
T("C11", "twin-step-token-text-temps", F, STEP_APPEND,
  '            text = value_to_string(value)\n            token = Token("STRING", text)\n            val.append(Tree("string", [token]))\n        self.steps.append(Tree(option, val))\n')
T("C11", "twin-pair-string-node-helper", F, "", "", edits=[
    (F, "class ConfigBlock:\n", 'def _string_node(text):\n    return Tree("string", [Token("STRING", text)])\n\n\nclass ConfigBlock:\n'),
    (F, PAIR_BODY, '        for a, b in value:\n            self.tree.children.append(Tree(option, [_string_node(value_to_string(a)), _string_node(value_to_string(b))]))\n')])
T("C11", "twin-pair-encoded-in-iterable", F, PAIR_BODY,
  '        for a, b in ((value_to_string(x), value_to_string(y)) for x, y in value):\n'
  '            self.tree.children.append(Tree(option, [Tree("string", [Token("STRING", a)]), Tree("string", [Token("STRING", b)])]))\n')
T("C11", "twin-block-set-option-token-keyword", F, BLOCK_SET_OPTION,
  '        encoded = value_to_string(value)\n        self.tree.children.append(Tree(option, [Tree("string", [Token("STRING", value=encoded)])]))\n')
M("C11", "step-token-quoted-without-encoder", F, STEP_APPEND, STEP_APPEND.replace("value_to_string(value)", "f'\"{value}\"'"), "C11.R6")
M("C11", "termination-token-raw-argument", F, TERM_APPEND, TERM_APPEND.replace("value_to_string(value)", "value"), "C11.R6")
M("C11", "pair-second-string-unencoded", F, PAIR_BODY, PAIR_BODY.replace('            b = value_to_string(b)\n', ''), "C11.R6")
M("C11", "block-set-option-percent-quoted", F, BLOCK_SET_OPTION, BLOCK_SET_OPTION.replace("value_to_string(value)", "'\"%s\"' % value"), "C11.R6")
M("C11", "step-token-encoded-on-one-branch-only", F, STEP_APPEND,
  '            text = value\n            if isinstance(value, bytes):\n                text = value_to_string(value)\n'
  '            val.append(Tree("string", [Token("STRING", text)]))\n        self.steps.append(Tree(option, val))\n', "C11.R6")
# imported part (C12.R1): the encoder's literal denotes exactly the given value - refactored encoders stay silent, other
# ways than the seeded one of breaking the pin / the slice / the quote escape are caught through C11
ENC_ESCAPER = "        value = repr(b'\"' + value)[3:-1]\n"
ENC_BODY = ("    if isinstance(value, bytes):\n"
            "        # we prepend a double quote to the bytes so repr() always escapes using single quote and strip it afterwards\n"
            + ENC_ESCAPER +
            "    if isinstance(value, str):\n"
            "        # we escape double quotes, because we return it as a double quoted string value\n"
            "        value = value.replace('\"', '\\\\\"')\n"
            "        # we don't have to escape single quotes, as we return it as a double quoted value\n"
            "        value = value.replace(\"\\\\'\", \"'\")\n"
            "    return f'\"{value}\"'\n")
ENC_PER_TYPE = ("    if isinstance(value, bytes):\n        text = repr(value + b'\"')[2:-2].replace('\"', '\\\\\"').replace(\"\\\\'\", \"'\")\n"
                "    elif isinstance(value, str):\n        text = value.replace('\"', '\\\\\"').replace(\"\\\\'\", \"'\")\n    else:\n        text = value\n    return '\"' + text + '\"'\n")
T("C11", "twin-encoder-pin-suffix-per-type", F, ENC_BODY, ENC_PER_TYPE)
T("C11", "twin-encoder-escaper-temporaries", F, ENC_ESCAPER, "        pinned = b'\"' + value\n        text = repr(pinned)\n        value = text[3:][:-1]\n")
M("C11", "encoder-closing-delimiter-kept", F, ENC_ESCAPER, "        value = repr(b'\"' + value)[3:]\n", "C11.R6")
M("C11", "encoder-pin-not-a-quote", F, ENC_ESCAPER, "        value = repr(b'x' + value)[3:-1]\n", "C11.R6")
M("C11", "encoder-per-type-suffix-pin-short-slice", F, ENC_BODY, ENC_PER_TYPE.replace("[2:-2]", "[2:-1]"), "C11.R6")
M("C11", "encoder-per-type-bytes-quote-unescaped", F, ENC_BODY, ENC_PER_TYPE.replace("[2:-2].replace('\"', '\\\\\"')", "[2:-2]"), "C11.R6")

# ------------------------------------------------------------------------------------------------ wave 4
# grammar: a block body named through a unit production (two equal rules merged, `?x: y` / `_x: y`) - keyword paths and the
# tree alternatives are those of the target (lemma L3)
G = "c2profile.lark"
POST_RULE = ('http_post_options: "set" "uri" string ";"           -> uri\n'
             '    | "set" "verb" string ";"                       -> verb\n'
             '    | "client" "{" http_get_client_options* "}"     -> client\n'
             '    | "server" "{" http_options* "}"                -> server\n')
POST_USE = '    | "http-post" variant? "{" http_post_options* "}"                   -> http_post\n'
T("C11", "twin-grammar-underscore-unit-rule", G, "", "", edits=[
    (G, POST_RULE, '_http_post_body: http_get_options\n'),
    (G, POST_USE, '    | "http-post" variant? "{" _http_post_body* "}"                     -> http_post\n')])
T("C11", "twin-grammar-list-body-through-unit-rule", G, "", "", edits=[
    (G, 'http_options: "header" string string ";"            -> header\n    | "parameter" string string ";"                 -> parameter\n    | "output" "{" data_transform* "}"              -> output\n',
     'http_options: "header" string string ";"            -> header\n    | "parameter" string string ";"                 -> parameter\n    | "output" "{" transform_list* "}"              -> output\n\n?transform_list: data_transform\n')])
# merged with the wrong rule: an http-post client block then has no `id` / a plain `output` body only
M("C11", "grammar-post-merged-with-stager-rule", G, POST_RULE, '?http_post_options: http_stager_options\n', "C11.R1")

# builder classes that bind their flag statements by a decorator / a module-level loop (names are constants of the code)
EXEC_FLAGS = ('    createthread = ConfigBlock._enable\n'
              '    createremotethread = ConfigBlock._enable\n'
              '    ntqueueapcthread = ConfigBlock._enable\n'
              '    ntqueueapcthread_s = ConfigBlock._enable\n'
              '    rtlcreateuserthread = ConfigBlock._enable\n'
              '    setthreadcontext = ConfigBlock._enable\n')
EXEC_HEAD = 'class ExecuteOptionsBlock(ConfigBlock):\n'
GATE_HEAD = 'class BeaconGateBlock(ConfigBlock):\n'
EXEC_NAMES = '("createthread", "createremotethread", "ntqueueapcthread", "ntqueueapcthread_s", "rtlcreateuserthread", "setthreadcontext")'
PLAIN_DECORATOR = ('_EXEC_FLAGS = ' + EXEC_NAMES + '\n\n\n'
                   'def _exec_flags(klass):\n    for flag in _EXEC_FLAGS:\n        setattr(klass, flag, ConfigBlock._enable)\n    klass.setthreadcontext = ConfigBlock._enable\n    return klass\n\n\n')
T("C11", "twin-flags-plain-decorator-module-tuple", F, "", "", edits=[
    (F, EXEC_FLAGS, ""), (F, EXEC_HEAD, PLAIN_DECORATOR + "@_exec_flags\n" + EXEC_HEAD)])
T("C11", "twin-flags-module-level-loop", F, "", "", edits=[
    (F, EXEC_FLAGS, ""), (F, GATE_HEAD, 'for _flag in ' + EXEC_NAMES + ':\n    setattr(ExecuteOptionsBlock, _flag, ConfigBlock._enable)\n\n\n' + GATE_HEAD)])
FACTORY = ('def _statements(helper, *names):\n    def bind(klass):\n        for name in names:\n            setattr(klass, name, helper)\n        return klass\n\n    return bind\n\n\n')
T("C11", "twin-flags-factory-with-helper-argument", F, "", "", edits=[
    (F, EXEC_FLAGS, ""), (F, EXEC_HEAD, FACTORY + "@_statements(ConfigBlock._enable, *" + EXEC_NAMES + ")\n" + EXEC_HEAD)])
M("C11", "flags-factory-name-missing", F, "", "", "C11.R3", edits=[
    (F, EXEC_FLAGS, ""), (F, EXEC_HEAD, FACTORY + "@_statements(ConfigBlock._enable, " + EXEC_NAMES.replace('"ntqueueapcthread_s", ', "")[1:-1] + ")\n" + EXEC_HEAD)])
M("C11", "flags-factory-wrong-helper", F, "", "", "C11.R3", edits=[
    (F, EXEC_FLAGS, ""), (F, EXEC_HEAD, FACTORY + "@_statements(ConfigBlock.set_option, " + EXEC_NAMES[1:-1] + ")\n" + EXEC_HEAD)])
M("C11", "flags-module-level-loop-misspelt", F, "", "", "C11.R3", edits=[
    (F, EXEC_FLAGS, ""), (F, GATE_HEAD, 'for _flag in ' + EXEC_NAMES.replace("ntqueueapcthread_s", "ntqueueapcthread-s") + ':\n    setattr(ExecuteOptionsBlock, _flag, ConfigBlock._enable)\n\n\n' + GATE_HEAD)])

# R7 (imported C12.R2/R3): the decoder behind the list-valued entries
U_ESCAPE = '                    _ = it.next(2)\n                    hexstr = "".join(it.next(2))\n'
T("C11", "twin-u-escape-skip-as-statement", F, U_ESCAPE, '                    it.next(2)\n                    hexstr = "".join(it.next(2))\n')
M("C11", "u-escape-high-pair-taken", F, U_ESCAPE, '                    hexstr = "".join(it.next(2))\n                    it.next(2)\n', "C11.R7")
M("C11", "u-escape-whole-code-unit-plus-mask-too-wide", F, U_ESCAPE + '                    buffer.append(int(hexstr, 16))\n',
  '                    hexstr = "".join(it.next(4))\n                    buffer.append(int(hexstr, 16) & 0xFFF)\n', "C11.R7")
M("C11", "iterator-mask-too-wide", F, "[chr(ord(c) & 0xFF) for c in string]", "[chr(ord(c) & 0xFFFF) for c in string]", "C11.R7")

# R8: a block path is composed from its components and never taken apart at the separator
CLOSE = ('                elif item == "}":\n'
         '                    x = stack.pop()\n'
         '                    if isinstance(x, Token):\n'
         '                        # pop variant token\n'
         '                        stack.pop()\n')
KEY2 = '                    key = ".".join(stack + line)\n'
T("C11", "twin-key-concatenated", F, KEY2,
  '                    key = ".".join(stack) + "." + ".".join(line) if stack and line else ".".join(stack or line)\n')
T("C11", "twin-key-fstring-separator-constant", F, "", "", edits=[
    (F, CLASS_HEAD, '_SEP = "."\n\n\n' + CLASS_HEAD),
    (F, '                    key = ".".join(stack)\n', '                    key = _SEP.join(stack)\n'),
    (F, KEY2, '                    head, tail = _SEP.join(stack), _SEP.join(line)\n                    key = f"{head}{_SEP}{tail}" if head and tail else head or tail\n')])
# string-typed state that is cut by position is fine (the length of the component is known), cutting at the separator is not
T("C11", "twin-close-pops-then-rejoins", F, CLOSE, CLOSE + '                    logger.debug(".".join(stack))\n')
M("C11", "close-cuts-joined-path-rsplit", F, CLOSE,
  '                elif item == "}":\n'
  '                    path = ".".join(stack)\n'
  '                    keep = path.rsplit(".", 2 if isinstance(stack[-1], Token) else 1)[0]\n'
  '                    stack = keep.split(".") if "." in path else []\n', "C11.R8")
M("C11", "open-flattens-joined-path-split", F, '                    stack.extend(line)\n',
  '                    stack = ".".join(stack + line).split(".")\n', "C11.R8")
M("C11", "close-cuts-at-rfind", F, "", "", "C11.R8", edits=[
    (F, '        stack = []\n        list_props = [\n', '        stack = []\n        where = ""\n        list_props = [\n'),
    (F, '                    stack.extend(line)\n', '                    stack.extend(line)\n                    where = ".".join(stack)\n'),
    (F, CLOSE, '                elif item == "}":\n                    where = where[: max(where.rfind("."), 0)]\n                    stack = where.split(".") if where else []\n')])

# ------------------------------------------------------------------------------------------------ wave 5
# R2: the cache key covers the whole tree.  hash(self.tree) (directly, through a temporary, through an extracted helper)
# is accepted; a key the rule cannot judge (a digest of the rendered text) is undecided, not an alarm; a key that provably drops
# part of the tree (only the leaves, a count, an identity, the root's name) is a violation - whatever it is called and wherever
# it is computed
def _KEY(expr):
    return [(F, EARLY, EARLY.replace("hash(self.tree)", expr)), (F, TAIL, TAIL.replace("hash(self.tree)", expr))]


_KEY_HELPER = '    def _tree_key(self) -> int:\n        return {E}\n\n    def as_dict(self) -> dict:\n'
T("C11", "twin-cache-key-extracted-helper", F, "", "", edits=_KEY("self._tree_key()") + [
    (F, "    def as_dict(self) -> dict:\n", _KEY_HELPER.replace("{E}", "hash(self.tree)"))])
T("C11", "twin-cache-key-text-digest", F, "", "", edits=_KEY("hash(self.as_text())"))
M("C11", "cache-key-children-count", F, "", "", "C11.R2", edits=_KEY("len(self.tree.children)"))
M("C11", "cache-key-tree-identity", F, "", "", "C11.R2", edits=_KEY("id(self.tree)"))
M("C11", "cache-key-all-leaves-inline", F, "", "", "C11.R2", edits=_KEY("hash(tuple(self.tree.scan_values(lambda v: True)))"))
M("C11", "cache-key-leaves-helper-with-temporary", F, "", "", "C11.R2", edits=_KEY("self._tree_key()") + [
    (F, "    def as_dict(self) -> dict:\n", '    def _tree_key(self) -> int:\n        leaves = self.tree.scan_values(lambda leaf: leaf is not None)\n        return hash(tuple(leaves))\n\n    def as_dict(self) -> dict:\n')])
M("C11", "renamed-key-root-name-only", F, "", "", "C11.R2", edits=[
    RENAMED[0], (F, EARLY, '        if self._view_key == hash(self.tree.data):\n            return self._view\n        line = []\n'),
    (F, TAIL, '        self._view_key, self._view = hash(self.tree.data), dict(properties)\n        return self._view\n')])
M("C11", "cache-key-compared-whole-stored-leaves", F, TAIL,
  TAIL.replace("hash(self.tree)", "hash(tuple(self.tree.scan_values(lambda v: isinstance(v, Token))))"), "C11.R2")

# R9: attaching a block - the place gets a node of its own, the block given stays as it was.  A new node per attachment (also a
# renamed shallow copy of the block's root node) is fine; the block's own root node in the parent, or an attachment that takes the
# statements away from the block, is not
NON_EMPTY = '        if config_block.tree.children:\n            self.set_config_block(option, config_block)\n'
T("C11", "twin-attach-renamed-shallow-copy", F, "", "", edits=[
    (F, "import collections\n", "import collections\nimport copy\n"),
    (F, SPLICE, '        node = copy.copy(config_block.tree)\n        node.data = option\n        self.tree.children.append(node)\n')])
T("C11", "twin-attach-non-empty-inlined", F, NON_EMPTY,
  '        children = config_block.tree.children\n        if not children:\n            return\n        self.tree.children.append(Tree(option, children))\n')
M("C11", "attach-own-node-renamed-inline", F, SPLICE, '        config_block.tree.data = option\n        self.tree.children.append(config_block.tree)\n', "C11.R9")
M("C11", "attach-own-node-in-non-empty-variant", F, NON_EMPTY,
  '        node = config_block.tree\n        if node.children:\n            node.data = option\n            self.tree.children += [node]\n', "C11.R9")
M("C11", "attach-own-node-setattr-insert", F, SPLICE,
  '        block_tree = config_block.tree\n        setattr(block_tree, "data", option)\n        self.tree.children.insert(len(self.tree.children), block_tree)\n', "C11.R9")
M("C11", "attach-moves-the-statements", F, SPLICE, SPLICE + '        config_block.tree.children = []\n', "C11.R9")
M("C11", "attach-copies-then-clears", F, SPLICE,
  '        statements = config_block.tree.children\n        self.tree.children.append(Tree(option, list(statements)))\n        statements.clear()\n', "C11.R9")
# the key computed once in the comparison itself (assignment expression) and stored from the local
T("C11", "twin-cache-hash-walrus", F, "", "", edits=[
    (F, EARLY, '        if self._dict_hash == (tree_hash := hash(self.tree)):\n            return self._dict_cache\n        line = []\n'),
    (F, TAIL, '        self._dict_hash = tree_hash\n        self._dict_cache = dict(properties)\n        return self._dict_cache\n')])
M("C11", "cache-key-walrus-leaves-only", F, "", "", "C11.R2", edits=[
    (F, EARLY, '        if self._dict_hash == (tree_key := hash(tuple(self.tree.scan_values(lambda v: isinstance(v, Token))))):\n            return self._dict_cache\n        line = []\n'),
    (F, TAIL, '        self._dict_hash = tree_key\n        self._dict_cache = dict(properties)\n        return self._dict_cache\n')])

# ------------------------------------------------------------------------------------------------ wave 7
# R10: every profile owns the tree it reports.  The object stored as `<profile>.tree` is made for that profile (the result of a
# parse, a Tree(..) with a list of its own, a deep copy); an object that exists once per process - the result of a memoised
# function, an entry of a module-level cache, a module-level children list - is shared by the profiles, and the builder methods
# (which append in place) change all of them at once
FROM_TEXT = '        profile = cls()\n        profile.tree = c2profile_parser.parse(source)\n        return profile\n'
PARSER_DEF = 'c2profile_parser = Lark.open("c2profile.lark", parser="lalr", rel_to=__file__, maybe_placeholders=False)\n'
INIT_TREE = '        self.tree = Tree(self.__name__, [])\n'
IMPORT_FT = (F, "import collections\n", "import collections\nimport copy\nimport functools\n")
T("C11", "twin-from-text-tree-through-temporary-and-helper", F, "", "", edits=[
    (F, PARSER_DEF, PARSER_DEF + '\n\ndef _parse_profile_text(source):\n    tree = c2profile_parser.parse(source)\n    return tree\n'),
    (F, FROM_TEXT, '        profile = cls()\n        parsed = _parse_profile_text(source)\n        profile.tree = parsed\n        return profile\n')])
T("C11", "twin-from-text-deep-copy-of-memoised-parse", F, "", "", edits=[
    IMPORT_FT,
    (F, PARSER_DEF, PARSER_DEF + '\n\n@functools.lru_cache(maxsize=16)\ndef _parsed(source):\n    return c2profile_parser.parse(source)\n'),
    (F, FROM_TEXT, '        profile = cls()\n        profile.tree = copy.deepcopy(_parsed(source))\n        return profile\n')])
T("C11", "twin-from-text-parser-from-memoised-getter", F, "", "", edits=[
    IMPORT_FT,
    (F, PARSER_DEF, PARSER_DEF + '\n\n@functools.lru_cache(maxsize=None)\ndef get_parser():\n    return c2profile_parser\n'),
    (F, FROM_TEXT, '        profile = cls()\n        profile.tree = get_parser().parse(source)\n        return profile\n')])
T("C11", "twin-initial-tree-children-list-call", F, INIT_TREE, '        children = list()\n        self.tree = Tree(self.__name__, children)\n')
M("C11", "from-text-tree-from-module-cache-dict", F, "", "", "C11.R10", edits=[
    (F, PARSER_DEF, PARSER_DEF + '_PARSED = {}\n'),
    (F, FROM_TEXT, '        profile = cls()\n        if source not in _PARSED:\n            _PARSED[source] = c2profile_parser.parse(source)\n        profile.tree = _PARSED[source]\n        return profile\n')])
M("C11", "from-text-tree-setdefault-in-module-cache", F, "", "", "C11.R10", edits=[
    (F, PARSER_DEF, PARSER_DEF + '_TREES = dict()\n'),
    (F, FROM_TEXT, '        profile = cls()\n        tree = _TREES.get(source)\n        if tree is None:\n            tree = _TREES[source] = c2profile_parser.parse(source)\n        profile.tree = tree\n        return profile\n')])
M("C11", "from-text-tree-memoised-static-method", F, "", "", "C11.R10", edits=[
    IMPORT_FT,
    (F, '    @classmethod\n    def from_text(cls, source: str) -> "C2Profile":\n',
     '    @staticmethod\n    @functools.cache\n    def _tree_of(source: str) -> Tree:\n        return c2profile_parser.parse(source)\n\n    @classmethod\n    def from_text(cls, source: str) -> "C2Profile":\n'),
    (F, FROM_TEXT, '        profile = cls()\n        profile.tree = C2Profile._tree_of(source)\n        return profile\n')])
M("C11", "initial-tree-shared-children-list", F, "", "", "C11.R10", edits=[
    (F, PARSER_DEF, PARSER_DEF + '_NO_STATEMENTS = []\n'),
    (F, INIT_TREE, '        self.tree = Tree(self.__name__, _NO_STATEMENTS)\n')])
M("C11", "initial-tree-default-argument", F, "", "", "C11.R10", edits=[
    (F, '    def __init__(self, **kwargs):\n        #: The AST tree\n' + INIT_TREE,
     '    def __init__(self, _tree=Tree("ConfigBlock", []), **kwargs):\n        #: The AST tree\n        _tree.data = self.__name__\n        self.tree = _tree\n')])

# R11: every step given to the data-transform builder is added - a statement name, or a (statement, argument) pair as a tuple or
# as a list.  How the pair is recognised (length, both sequence types, an abstract sequence type, unpacking under try) does not
# matter; a test that lets one of the forms fall through to the next step without add_step / add_termination does
PAIR_TEST = '            elif len(option) == 2:\n'
NOARG_TEST = '            if option in ("base64", "base64url", "mask", "netbios", "netbiosu"):\n'
LOOP_HEAD = '        for option in steps:\n' + NOARG_TEST
T("C11", "twin-pair-step-list-or-tuple-of-two", F, PAIR_TEST, '            elif isinstance(option, (list, tuple)) and len(option) == 2:\n')
T("C11", "twin-pair-step-any-sequence-but-text", F, "", "", edits=[
    (F, "import collections\n", "import collections\nimport collections.abc\n"),
    (F, PAIR_TEST, '            elif isinstance(option, collections.abc.Sequence) and not isinstance(option, (str, bytes)) and len(option) == 2:\n')])
T("C11", "twin-pair-step-length-flag", F, LOOP_HEAD, '        for option in steps:\n            is_pair = not isinstance(option, str) and len(option) == 2\n' + NOARG_TEST, edits=None)
T("C11", "twin-steps-names-first-then-unpack", F, "", "", edits=[
    (F, PAIR_TEST + '                option, value = option\n', '            elif not isinstance(option, str):\n                option, value = option\n')])
M("C11", "pair-step-tuple-and-length", F, PAIR_TEST, '            elif isinstance(option, tuple) and len(option) == 2:\n', "C11.R11")
M("C11", "pair-step-exact-type-tuple", F, PAIR_TEST, '            elif type(option) is tuple:\n', "C11.R11")
M("C11", "pair-step-lists-skipped-up-front", F, LOOP_HEAD,
  '        for option in steps:\n            if not isinstance(option, (str, tuple)):\n                continue\n' + NOARG_TEST, "C11.R11")
M("C11", "pair-step-flag-tuple-only", F, "", "", "C11.R11", edits=[
    (F, LOOP_HEAD, '        for option in steps:\n            is_pair = isinstance(option, tuple) and len(option) == 2\n' + NOARG_TEST),
    (F, PAIR_TEST, '            elif is_pair:\n')])
M("C11", "name-steps-skipped-unless-bytes", F, LOOP_HEAD,
  '        for option in steps:\n            if isinstance(option, str) and not option.isidentifier():\n                continue\n            if isinstance(option, str) and len(option) < 5:\n                continue\n' + NOARG_TEST, "C11.R11")
# the pairs are brought into one form first: the loop no longer runs over the steps as given (undecided, not an alarm)
T("C11", "twin-steps-normalised-to-tuples-first", F, "", "", edits=[
    (F, '        steps = steps or []\n' + LOOP_HEAD,
     '        steps = [tuple(step) if isinstance(step, list) else step for step in steps or []]\n' + LOOP_HEAD),
    (F, PAIR_TEST, '            elif isinstance(option, tuple):\n')])
PAIR_BODY = (PAIR_TEST + '                option, value = option\n                if option in ("header", "parameter"):\n'
             '                    self.add_termination(option, value)\n                else:\n                    self.add_step(option, value)\n')
T("C11", "twin-pair-step-unpacked-under-try", F, PAIR_BODY,
  '            else:\n                try:\n                    name, value = option\n                except (TypeError, ValueError):\n                    continue\n'
  '                if name in ("header", "parameter"):\n                    self.add_termination(name, value)\n                else:\n                    self.add_step(name, value)\n')
T("C11", "twin-pair-step-guard-style", F, PAIR_BODY,
  '            if isinstance(option, str) or len(option) != 2:\n                continue\n            name, value = option\n'
  '            adder = self.add_termination if name in ("header", "parameter") else self.add_step\n            adder(name, value)\n')
M("C11", "pair-step-guard-style-not-a-tuple", F, PAIR_BODY,
  '            if not isinstance(option, tuple) or len(option) != 2:\n                continue\n            name, value = option\n'
  '            adder = self.add_termination if name in ("header", "parameter") else self.add_step\n            adder(name, value)\n', "C11.R11")
M("C11", "pair-step-enumerate-loop-tuple-only", F, "", "", "C11.R11", edits=[
    (F, LOOP_HEAD, '        for position, option in enumerate(steps):\n' + NOARG_TEST),
    (F, PAIR_TEST, '            elif type(option) in (tuple,) and len(option) > 1:\n')])

# R12: a builder method that is given a list of items adds one statement per item, in the order given.  How the loop is written (a
# copy of the list, enumerate, unpacking in the body, a comprehension, delegation to another helper, a mapping accepted *as a mapping*)
# does not matter; running over a projection that keeps one item per name / reorders / cuts the list, or leaving items out because of
# the items before, does
PAIR_FOR = '        for a, b in value:\n'
HDR_FOR = '        for header_name, header_val in value:\n'
PARAM_FOR = '        for param, val in value:\n'
GATE_FOR = '        for option in options:\n            block._enable(option.lower(), True)\n'
EXEC_FOR = '        for option in execute_list:\n            if isinstance(option, (list, tuple)):\n'
PARAM_BODY = (PARAM_FOR + '            param = value_to_string(param)\n            val = value_to_string(val)\n            self.tree.children.append(\n'
              '                Tree(\n                    "parameter",\n                    [\n                        Tree("string", [Token("STRING", param)]),\n'
              '                        Tree("string", [Token("STRING", val)]),\n                    ],\n                )\n            )\n')
HDR_BODY = (HDR_FOR + '            header_name = value_to_string(header_name)\n            header_val = value_to_string(header_val)\n            self.tree.children.append(\n'
            '                Tree(\n                    "header",\n                    [\n                        Tree("string", [Token("STRING", header_name)]),\n'
            '                        Tree("string", [Token("STRING", header_val)]),\n                    ],\n                )\n            )\n')
T("C11", "twin-pairs-copied-list-or-empty", F, PAIR_FOR, '        for a, b in list(value or []):\n')
T("C11", "twin-pairs-enumerated", F, PAIR_FOR, '        for _position, (a, b) in enumerate(value):\n')
T("C11", "twin-pairs-unpacked-in-body", F, PAIR_FOR, '        for pair in value:\n            a, b = pair\n')
T("C11", "twin-pairs-mapping-items-or-sequence", F, PAIR_FOR, '        items = value.items() if isinstance(value, dict) else value\n        for a, b in items:\n')
T("C11", "twin-pairs-mapping-copied-under-type-test", F, HDR_FOR,
  '        if isinstance(value, dict):\n            value = list(dict(value).items())\n' + HDR_FOR)
T("C11", "twin-pairs-mapping-by-protocol", F, PARAM_FOR, '        for param, val in dict(value).items() if hasattr(value, "keys") else value:\n')
T("C11", "twin-pairs-unpack-checked", F, PAIR_FOR,
  '        for pair in value:\n            try:\n                a, b = pair\n            except (TypeError, ValueError):\n                raise ValueError(f"not a (name, value) pair: {pair!r}")\n')
T("C11", "twin-parameter-pairs-comprehension", F, PARAM_BODY,
  '        self.tree.children.extend(\n            Tree("parameter", [Tree("string", [Token("STRING", value_to_string(param))]), Tree("string", [Token("STRING", value_to_string(val))])])\n'
  '            for param, val in value\n        )\n')
T("C11", "twin-header-pairs-delegated-one-by-one", F, HDR_BODY, HDR_FOR + '            self._pair("header", [(header_name, header_val)])\n')
T("C11", "twin-gate-options-lowered-first", F, GATE_FOR, '        names = [option.lower() for option in options]\n        for name in names:\n            block._enable(name, True)\n')
M("C11", "pairs-sorted-by-name", F, PAIR_FOR, '        for a, b in sorted(value):\n', "C11.R12")
M("C11", "header-pairs-through-dict-comprehension", F, HDR_FOR, '        for header_name, header_val in {k: v for k, v in value}.items():\n', "C11.R12")
M("C11", "parameter-pairs-normalised-to-ordered-dict", F, PARAM_FOR, '        value = collections.OrderedDict(value)\n        for param, val in value.items():\n', "C11.R12")
M("C11", "pairs-dict-when-given-a-list", F, PAIR_FOR, '        items = dict(value).items() if isinstance(value, (list, tuple)) else value\n        for a, b in items:\n', "C11.R12")
M("C11", "pairs-repeated-name-skipped", F, PAIR_FOR,
  '        seen = set()\n        for a, b in value:\n            if a in seen:\n                continue\n            seen.add(a)\n', "C11.R12")
M("C11", "header-pairs-last-value-wins", F, HDR_FOR,
  '        latest = {}\n        for header_name, header_val in value:\n            latest[header_name] = header_val\n        for header_name, header_val in latest.items():\n', "C11.R12")
M("C11", "gate-options-as-a-set", F, GATE_FOR, '        for option in set(options):\n            block._enable(option.lower(), True)\n', "C11.R12")
M("C11", "gate-options-unique-lowered", F, GATE_FOR, '        for name in dict.fromkeys(option.lower() for option in options):\n            block._enable(name, True)\n', "C11.R12")
M("C11", "execute-list-back-to-front", F, EXEC_FOR, '        for option in execute_list[::-1]:\n            if isinstance(option, (list, tuple)):\n', "C11.R12")
M("C11", "pairs-inserted-at-the-front", F, '            b = value_to_string(b)\n            self.tree.children.append(\n',
  '            b = value_to_string(b)\n            self.tree.children.insert(\n                0,\n', "C11.R12")
M("C11", "parameter-pairs-comprehension-over-dict", F, PARAM_BODY,
  '        self.tree.children.extend(\n            Tree("parameter", [Tree("string", [Token("STRING", value_to_string(param))]), Tree("string", [Token("STRING", value_to_string(val))])])\n'
  '            for param, val in dict(value).items()\n        )\n', "C11.R12")

# ------------------------------------------------------------------------------------------------ R13 (F27)
_SKIP = ("                    if line and line[0] == \"#\":\n"
         "                        # commented out statement (`# dns_resolver \"..\";`), not a setting: it parses back as a comment\n"
         "                        line = []\n                        continue\n")
M("C11", "as-dict-comment-statement-not-taken-out", F, _SKIP, "", "C11.R13")
M("C11", "as-dict-comment-statement-wrong-keyword", F, _SKIP, _SKIP.replace('line[0] == "#"', 'line[0] == "//"'), "C11.R13")
T("C11", "twin-type-read-under-isinstance", F, _SKIP + "                    key = \".\".join(stack)\n", "                    key = \".\".join(stack)\n",
  edits=[(F, "                            if x.type == \"STRING\":\n", "                            if isinstance(x, Token) and x.type == \"STRING\":\n")])
T("C11", "twin-comment-statement-membership-test", F, _SKIP, _SKIP.replace('line[0] == "#"', 'line[0] in ("#",)'))
T("C11", "twin-comment-statement-test-operands-swapped", F, _SKIP, _SKIP.replace('line[0] == "#"', '"#" == line[0]'))
