"""Additional C04 corpus entries: behaviour-preserving refactorings (twins) of HttpDataTransform the rules must stay
silent on, and breaking variants of the *refactored* shapes (mutants) the rules must still report."""

from selftest.corpus import M, T

F = "c2.py"

# ------------------------------------------------------------------------------------------------ source anchors
_CLASS = "class HttpDataTransform:\n"
_INIT = (
    "        self.tsteps: List[TransformStep] = list(steps)\n"
    "        self.rsteps: List[TransformStep] = steps[::-1]\n"
    "\n"
    "        if reverse:\n"
    "            self.tsteps, self.rsteps = self.rsteps, self.tsteps\n"
    "\n"
    "        if build is not None:\n"
    "            build_step = (\"BUILD\", build)\n"
    "            self.tsteps.insert(0, build_step)\n"
    "            self.rsteps.append(build_step)\n"
)
_T_APPEND = (
    "            if step == \"append\":\n"
    "                if isinstance(step_val, int):\n"
    "                    step_val = b\"X\" * step_val\n"
    "                assert isinstance(step_val, bytes)\n"
    "                data = data + step_val\n"
    "            elif step == \"prepend\":\n"
    "                if isinstance(step_val, int):\n"
    "                    step_val = b\"X\" * step_val\n"
    "                assert isinstance(step_val, bytes)\n"
    "                data = step_val + data\n"
)
_R_APPEND = (
    "            if step == \"append\":\n"
    "                if isinstance(step_val, bytes):\n"
    "                    step_val = len(step_val)\n"
    "                assert isinstance(step_val, int)\n"
    "                data = data[: len(data) - step_val]\n"
    "            elif step == \"prepend\":\n"
    "                if isinstance(step_val, bytes):\n"
    "                    step_val = len(step_val)\n"
    "                assert isinstance(step_val, int)\n"
    "                data = data[step_val:]\n"
)
_R_TAIL = (
    "            elif step == \"build\":\n"
    "                if step_val == \"output\":\n"
    "                    build_output = data\n"
    "                elif step_val == \"id\":\n"
    "                    build_id = data\n"
    "                elif step_val == \"metadata\":\n"
    "                    build_metadata = data\n"
    "            elif step in (\"_header\", \"_hostheader\", \"_parameter\"):\n"
    "                pass\n"
    "            else:\n"
    "                raise ValueError(\"Unknown recover step with value: {}\".format((step, step_val)))\n"
)
_R_RET = (
    "        if isinstance(http, HttpRequest):\n"
    "            return ClientC2Data(output=build_output, id=build_id, metadata=build_metadata)\n"
    "        return ServerC2Data(output=build_output, id=build_id, metadata=build_metadata)\n"
)
_R_LOWER = "        for step, step_val in self.rsteps:\n            step = step.lower()\n"
_R_SLICE = "                data = data[: len(data) - step_val]\n"
_T_MASK = "                mask = p32be(random.getrandbits(32))\n                data = mask + xor(data, mask)\n"
_T_HEADER = "                headers[step_val] = data\n"
_T_HSPLIT = "                key, _, val = step_val.partition(b\": \")\n"
_T_BUILD = (
    "                if step_val == \"output\":\n"
    "                    data = c2data.output or b\"\"\n"
    "                elif step_val == \"id\":\n"
    "                    data = c2data.id or b\"\"\n"
    "                elif step_val == \"metadata\":\n"
    "                    data = c2data.metadata or b\"\"\n"
)
_T_RET = "        return request._replace(body=body, params=params, uri=uri, headers=headers)\n"
_T_REQ = "        request = request or HttpRequest(method=b\"\", uri=b\"\", body=b\"\", params={}, headers={})\n"
_T_LOOP = "        for step, step_val in self.tsteps:\n"


# ------------------------------------------------------------------------------------------------ helper extraction
def _helper(side_append, side_prepend):
    return [
        (F, _CLASS, "def _fill(value):\n    if isinstance(value, int):\n        value = b\"X\" * value\n    assert isinstance(value, bytes)\n    return value\n\n\n" + _CLASS),
        (F, _T_APPEND, "            if step == \"append\":\n                data = " + side_append + "\n            elif step == \"prepend\":\n                data = " + side_prepend + "\n"),
    ]


T("C04", "twin-filler-helper", F, "", "", edits=_helper("data + _fill(step_val)", "_fill(step_val) + data"))
M("C04", "filler-helper-wrong-side", F, "", "", "C04.R5", edits=_helper("_fill(step_val) + data", "_fill(step_val) + data"))

# ------------------------------------------------------------------------------------------------ recover restructured
_R_HEAD_CONT = (
    "            if step in (\"_header\", \"_hostheader\", \"_parameter\"):\n"
    "                continue\n"
    "            if step == \"build\":\n"
    "                if step_val == \"output\":\n"
    "                    build_output = data\n"
    "                elif step_val == \"id\":\n"
    "                    build_id = data\n"
    "                elif step_val == \"metadata\":\n"
    "                    build_metadata = data\n"
    "                continue\n"
)
_R_MERGED = (
    "            if step in (\"append\", \"prepend\"):\n"
    "                count = len(step_val) if isinstance(step_val, bytes) else step_val\n"
    "                assert isinstance(count, int)\n"
    "                data = data[count:] if step == \"prepend\" else data[: len(data) - count]\n"
)
_R_ELSE = "            else:\n                raise ValueError(\"Unknown recover step with value: {}\".format((step, step_val)))\n"
T("C04", "twin-recover-guard-clauses", F, "", "", edits=[(F, _R_APPEND, _R_HEAD_CONT + _R_MERGED), (F, _R_TAIL, _R_ELSE)])
M("C04", "merged-slices-swapped", F, "", "", "C04.R5",
  edits=[(F, _R_APPEND, _R_HEAD_CONT + _R_MERGED.replace("step == \"prepend\"", "step == \"append\"")), (F, _R_TAIL, _R_ELSE)])
M("C04", "guard-clause-forgets-hostheader", F, "", "", "C04.R4",
  edits=[(F, _R_APPEND, _R_HEAD_CONT.replace("(\"_header\", \"_hostheader\", \"_parameter\")", "(\"_header\", \"_parameter\")") + _R_MERGED), (F, _R_TAIL, _R_ELSE)])
M("C04", "merged-bytes-arg-not-measured", F, "", "", "C04.R5",
  edits=[(F, _R_APPEND, _R_HEAD_CONT + _R_MERGED.replace("len(step_val) if isinstance(step_val, bytes) else step_val", "step_val").replace("                assert isinstance(count, int)\n", "")), (F, _R_TAIL, _R_ELSE)])

# negative slice made safe in two ways / unsafe again
T("C04", "twin-neg-slice-or-none", F, _R_SLICE, "                data = data[: -step_val or None]\n")
T("C04", "twin-neg-slice-guarded", F, _R_SLICE, "                if step_val:\n                    data = data[:-step_val]\n")
T("C04", "twin-neg-slice-guarded-cmp", F, _R_SLICE, "                if step_val != 0:\n                    data = data[:-step_val]\n")
M("C04", "neg-slice-guard-allows-zero", F, _R_SLICE, "                if step_val >= 0:\n                    data = data[:-step_val]\n", "C04.R5")
M("C04", "append-ignored-unless-zero", F, _R_SLICE, "                if not step_val:\n                    data = data[: len(data) - step_val]\n", "C04.R5")

# result class chosen by a hoisted test
_R_RET_IFEXP = "        is_request = isinstance(http, HttpRequest)\n        kind = ClientC2Data if is_request else ServerC2Data\n        return kind(output=build_output, id=build_id, metadata=build_metadata)\n"
T("C04", "twin-result-class-ifexp", F, _R_RET, _R_RET_IFEXP)
T("C04", "twin-result-response-first", F, _R_RET,
  "        if isinstance(http, HttpResponse):\n            return ServerC2Data(output=build_output, id=build_id, metadata=build_metadata)\n"
  "        return ClientC2Data(output=build_output, id=build_id, metadata=build_metadata)\n")
M("C04", "result-class-ifexp-swapped", F, _R_RET, _R_RET_IFEXP.replace("if is_request", "if not is_request"), "C04.R7")
M("C04", "result-fields-crossed", F, _R_RET, _R_RET_IFEXP.replace("output=build_output, id=build_id", "output=build_id, id=build_output"), "C04.R7")
M("C04", "build-output-stored-as-id", F, "                    build_output = data\n", "                    build_id = data\n", "C04.R7")

# dispatch normalisation
T("C04", "twin-casefold", F, _R_LOWER, _R_LOWER.replace("step.lower()", "step.casefold()"))
T("C04", "twin-lower-into-new-name", F, _R_LOWER + "            if step == \"append\":", "        for name, step_val in self.rsteps:\n            step = name.lower()\n            if step == \"append\":")
M("C04", "recover-not-case-normalised", F, _R_LOWER, "        for step, step_val in self.rsteps:\n", "C04.R1")
M("C04", "recover-iterates-transform-order", F, _R_LOWER, _R_LOWER.replace("self.rsteps", "self.tsteps"), "C04.R1")
T("C04", "twin-enumerate", F, _T_LOOP, "        for _index, (step, step_val) in enumerate(self.tsteps):\n")

# ------------------------------------------------------------------------------------------------ transform restructured
T("C04", "twin-xor-keywords", F, _T_MASK, "                mask = p32be(random.getrandbits(32))\n                masked = xor(key=mask, data=data)\n                data = mask + masked\n")
T("C04", "twin-key-to-bytes", F, _T_MASK, "                mask = random.getrandbits(32).to_bytes(4, \"big\")\n                data = mask + xor(data, mask)\n")
M("C04", "mask-key-three-bytes", F, _T_MASK, "                mask = random.getrandbits(24).to_bytes(3, \"big\")\n                data = mask + xor(data, mask)\n", "C04.R6")
M("C04", "mask-two-different-keys", F, _T_MASK, "                data = p32be(random.getrandbits(32)) + xor(data, p32be(random.getrandbits(32)))\n", "C04.R6")
M("C04", "mask-key-after-data", F, _T_MASK, "                mask = p32be(random.getrandbits(32))\n                data = xor(data, mask) + mask\n", "C04.R6")
T("C04", "twin-header-update", F, _T_HEADER, "                headers.update({step_val: data})\n")
M("C04", "header-constant-key", F, _T_HEADER, "                headers[b\"Cookie\"] = data\n", "C04.R3")
M("C04", "static-header-rpartition", F, _T_HSPLIT, "                key, _, val = step_val.rpartition(b\": \")\n", "C04.R4")
M("C04", "static-header-value-is-separator", F, _T_HSPLIT, "                key, val, _ = step_val.partition(b\": \")\n", "C04.R4")
T("C04", "twin-static-header-indexing", F, _T_HSPLIT, "                parts = step_val.partition(b\": \")\n                key = parts[0]\n                val = parts[2]\n")
T("C04", "twin-build-getattr", F, _T_BUILD, "                if step_val in (\"output\", \"id\", \"metadata\"):\n                    data = getattr(c2data, step_val) or b\"\"\n")
T("C04", "twin-build-ifexp-default", F, "                    data = c2data.id or b\"\"\n", "                    data = c2data.id if c2data.id else b\"\"\n")
T("C04", "twin-return-constructor", F, _T_RET, "        return HttpRequest(method=request.method, uri=uri, params=params, headers=headers, body=body)\n")
M("C04", "return-fields-crossed", F, _T_RET, "        return request._replace(body=uri, params=params, uri=body, headers=headers)\n", "C04.R3")
M("C04", "return-drops-uri", F, _T_RET, "        return request._replace(body=body, params=params, headers=headers)\n", "C04.R3")
T("C04", "twin-return-inplace-dicts", F, _T_RET, "        return request._replace(body=body, uri=uri)\n")
T("C04", "twin-request-default-if", F, _T_REQ, "        if request is None:\n            request = HttpRequest(method=b\"\", uri=b\"\", body=b\"\", params={}, headers={})\n")
T("C04", "twin-padding-computed-constant", F, "                data = base64.b64decode(data + b\"==\")\n", "                padded = data + b\"=\" * 2\n                data = base64.b64decode(padded)\n")
M("C04", "padding-single-byte", F, "                data = base64.b64decode(data + b\"==\")\n", "                data = base64.b64decode(data + b\"=\")\n", "C04.R2")
M("C04", "netbios-upper-after-decode", F, "                data = netbios_decode(data.upper())\n", "                data = netbios_decode(data).upper()\n", "C04.R2")

# ------------------------------------------------------------------------------------------------ constructor
_INIT_IFEXP = (
    "        in_order: List[TransformStep] = list(steps)\n"
    "        reversed_order: List[TransformStep] = steps[::-1]\n"
    "        self.tsteps: List[TransformStep] = reversed_order if reverse else in_order\n"
    "        self.rsteps: List[TransformStep] = in_order if reverse else reversed_order\n"
    "        if build is None:\n"
    "            return\n"
    "        build_step = (\"BUILD\", build)\n"
    "        self.tsteps.insert(0, build_step)\n"
    "        self.rsteps.append(build_step)\n"
)
_INIT_TEMP = (
    "        self.tsteps = list(steps)\n"
    "        self.rsteps = list(reversed(steps))\n"
    "        if reverse:\n"
    "            forward = self.tsteps\n"
    "            self.tsteps = self.rsteps\n"
    "            self.rsteps = forward\n"
    "        if build is None:\n"
    "            return\n"
    "        self.tsteps.insert(0, (\"BUILD\", build))\n"
    "        self.rsteps.append((\"BUILD\", build))\n"
)
T("C04", "twin-init-conditional-expressions", F, _INIT, _INIT_IFEXP)
T("C04", "twin-init-temp-swap-early-return", F, _INIT, _INIT_TEMP)
M("C04", "init-ifexp-not-swapped", F, _INIT, _INIT_IFEXP.replace("reversed_order if reverse else in_order", "in_order if reverse else reversed_order"), "C04.R7")
M("C04", "init-reverse-ignored", F, _INIT, _INIT_TEMP.replace("            self.rsteps = forward\n", "            self.rsteps = self.tsteps\n"), "C04.R7")
M("C04", "init-build-first-on-both", F, _INIT, _INIT_TEMP.replace("self.rsteps.append((\"BUILD\", build))", "self.rsteps.insert(0, (\"BUILD\", build))"), "C04.R7")
M("C04", "init-build-only-transform", F, _INIT, _INIT_IFEXP.replace("        self.rsteps.append(build_step)\n", ""), "C04.R7")
M("C04", "init-rsteps-not-reversed", F, "        self.rsteps: List[TransformStep] = steps[::-1]\n", "        self.rsteps: List[TransformStep] = steps[:]\n", "C04.R7")

# ------------------------------------------------------------------------------------------------ the "any other step name" case
# (decided for the abstract name `%other` under assumption OTHER - no sample string is compared)
_R_ELSE_FULL = "            else:\n                raise ValueError(\"Unknown recover step with value: {}\".format((step, step_val)))\n"
_KNOWN_R = ("(\"append\", \"prepend\", \"base64\", \"base64url\", \"netbios\", \"netbiosu\", \"mask\", \"print\", \"uri_append\", \"header\", "
            "\"parameter\", \"build\", \"_header\", \"_hostheader\", \"_parameter\")")
_R_GUARD = "            step = step.lower()\n            if step not in " + _KNOWN_R + ":\n                raise ValueError(\"Unknown recover step with value: {}\".format((step, step_val)))\n"
T("C04", "twin-unknown-step-membership-guard", F, "", "",
  edits=[(F, _R_LOWER, "        for step, step_val in self.rsteps:\n" + _R_GUARD), (F, _R_ELSE_FULL, "            else:\n                raise AssertionError(step)\n")])
M("C04", "unknown-step-guard-forgets-mask", F, "", "", "C04.R1",
  edits=[(F, _R_LOWER, "        for step, step_val in self.rsteps:\n" + _R_GUARD.replace("\"mask\", ", "")), (F, _R_ELSE_FULL, "            else:\n                raise AssertionError(step)\n")])
T("C04", "twin-unknown-step-mirrored-compare", F, "            if step == \"append\":\n                if isinstance(step_val, bytes):", "            if \"append\" == step:\n                if isinstance(step_val, bytes):")
M("C04", "unknown-step-continue", F, _R_ELSE_FULL, "            else:\n                continue\n", "C04.R1")
M("C04", "unknown-step-wrong-exception", F, _R_ELSE_FULL, "            else:\n                raise KeyError(step)\n", "C04.R1")
M("C04", "unknown-underscore-steps-skipped", F, "            elif step in (\"_header\", \"_hostheader\", \"_parameter\"):\n                pass\n",
  "            elif step.startswith(\"_\"):\n                pass\n", "C04.R1")

# ------------------------------------------------------------------------------------------------ table-driven codec dispatch
# (wave 2: the data-only codec branches moved into constant lookup tables of callables; the walker resolves a table that is
# bound once at module / class level and binds the call's arguments into the entry - lambda or one-expression helper)
_T_CODECS = (
    "            elif step == \"base64\":\n"
    "                data = base64.b64encode(data)\n"
    "            elif step == \"base64url\":\n"
    "                data = base64.urlsafe_b64encode(data)\n"
    "            elif step == \"netbios\":\n"
    "                data = netbios_encode(data).lower()\n"
    "            elif step == \"netbiosu\":\n"
    "                data = netbios_encode(data).upper()\n"
)
_T_MASK_BRANCH = "            elif step == \"mask\":\n" + _T_MASK
_R_CODECS = (
    "            elif step == \"base64\":\n"
    "                data = base64.b64decode(data + b\"==\")\n"
    "            elif step == \"base64url\":\n"
    "                data = base64.urlsafe_b64decode(data + b\"==\")\n"
    "            elif step == \"netbios\":\n"
    "                data = netbios_decode(data.upper())\n"
    "            elif step == \"netbiosu\":\n"
    "                data = netbios_decode(data)\n"
)
_R_MASK_BRANCH = "            elif step == \"mask\":\n                data = xor(data[4:], data[:4])\n"
_T_FIRST = "            if step == \"append\":\n                if isinstance(step_val, int):\n"
_R_FIRST = "            if step == \"append\":\n                if isinstance(step_val, bytes):\n"
_ENC_TABLE = (
    "_ENC = {\n"
    "    \"base64\": base64.b64encode,\n"
    "    \"base64url\": base64.urlsafe_b64encode,\n"
    "    \"netbios\": lambda raw: netbios_encode(raw).lower(),\n"
    "    \"netbiosu\": lambda raw: netbios_encode(raw).upper(),\n"
    "}\n"
)
_DEC_TABLE = (
    "_DEC = {\n"
    "    \"base64\": lambda raw: base64.b64decode(raw + b\"==\"),\n"
    "    \"base64url\": lambda raw: base64.urlsafe_b64decode(raw + b\"==\"),\n"
    "    \"netbios\": lambda raw: netbios_decode(raw.upper()),\n"
    "    \"netbiosu\": netbios_decode,\n"
    "}\n"
)


def _tables(enc=_ENC_TABLE, dec=_DEC_TABLE, mask_in_table=False):
    """Membership test + subscript dispatch over two module-level dicts (function references and lambdas)."""
    ed = [
        (F, _CLASS, enc + dec + "\n\n" + _CLASS),
        (F, _T_FIRST, "            if step in _ENC:\n                data = _ENC[step](data)\n            elif step == \"append\":\n                if isinstance(step_val, int):\n"),
        (F, _T_CODECS, ""),
        (F, _R_FIRST, "            if step in _DEC:\n                data = _DEC[step](data)\n            elif step == \"append\":\n                if isinstance(step_val, bytes):\n"),
        (F, _R_CODECS, ""),
    ]
    if mask_in_table:
        ed += [(F, _T_MASK_BRANCH, ""), (F, _R_MASK_BRANCH, "")]
    return ed


T("C04", "twin-codec-tables-funcrefs", F, "", "", edits=_tables())
M("C04", "codec-table-netbios-not-uppercased", F, "", "", "C04.R2", edits=_tables(dec=_DEC_TABLE.replace("netbios_decode(raw.upper())", "netbios_decode(raw)")))
M("C04", "codec-table-decoder-entry-missing", F, "", "", "C04.R1", edits=_tables(dec=_DEC_TABLE.replace("    \"netbiosu\": netbios_decode,\n", "")))
M("C04", "codec-table-swallows-print", F, "", "", "C04.R3", edits=_tables(enc=_ENC_TABLE.replace("}\n", "    \"print\": lambda raw: raw,\n}\n")))
M("C04", "codec-table-base64-pair-crossed", F, "", "", "C04.R2", edits=_tables(enc=_ENC_TABLE.replace("\"base64url\": base64.urlsafe_b64encode", "\"base64url\": base64.b64encode")))
_ENC_MASK = _ENC_TABLE.replace("}\n", "    \"mask\": lambda raw: _masked(raw, p32be(random.getrandbits(32))),\n}\n")
_DEC_MASK = _DEC_TABLE.replace("}\n", "    \"mask\": lambda raw: xor(raw[4:], raw[:4]),\n}\n")
_MASKED = "def _masked(raw, key):\n    return key + xor(raw, key)\n\n\n"
T("C04", "twin-codec-tables-mask-helper", F, "", "", edits=_tables(enc=_MASKED + _ENC_MASK, dec=_DEC_MASK, mask_in_table=True))
M("C04", "codec-table-mask-two-draws", F, "", "", "C04.R6",
  edits=_tables(enc=_ENC_TABLE.replace("}\n", "    \"mask\": lambda raw: p32be(random.getrandbits(32)) + xor(raw, p32be(random.getrandbits(32))),\n}\n"), dec=_DEC_MASK, mask_in_table=True))
M("C04", "codec-table-mask-helper-key-last", F, "", "", "C04.R6",
  edits=_tables(enc=_MASKED.replace("key + xor(raw, key)", "xor(raw, key) + key") + _ENC_MASK, dec=_DEC_MASK, mask_in_table=True))

# class-level tables consulted with .get(), entries calling a static helper of the class
_CLS_TABLES = (
    _CLASS
    + "    _ENCODERS = {\n"
    "        \"base64\": lambda raw: base64.b64encode(raw),\n"
    "        \"base64url\": lambda raw: base64.urlsafe_b64encode(raw),\n"
    "        \"netbios\": lambda raw: netbios_encode(raw).lower(),\n"
    "        \"netbiosu\": lambda raw: netbios_encode(raw).upper(),\n"
    "    }\n"
    "    _DECODERS = {\n"
    "        \"base64\": lambda raw: base64.b64decode(raw + b\"==\"),\n"
    "        \"base64url\": lambda raw: base64.urlsafe_b64decode(raw + b\"==\"),\n"
    "        \"netbios\": lambda raw: netbios_decode(raw.upper()),\n"
    "        \"netbiosu\": lambda raw: netbios_decode(raw),\n"
    "    }\n\n"
)


def _cls_tables(tables=_CLS_TABLES):
    return [
        (F, _CLASS, tables),
        (F, _T_FIRST, "            codec = self._ENCODERS.get(step)\n            if codec:\n                data = codec(data)\n                continue\n            if step == \"append\":\n                if isinstance(step_val, int):\n"),
        (F, _T_CODECS, ""),
        (F, _R_FIRST, "            codec = self._DECODERS.get(step)\n            if codec:\n                data = codec(data)\n                continue\n            if step == \"append\":\n                if isinstance(step_val, bytes):\n"),
        (F, _R_CODECS, ""),
    ]


T("C04", "twin-codec-tables-class-attributes", F, "", "", edits=_cls_tables())
M("C04", "codec-class-table-padding-dropped", F, "", "", "C04.R2", edits=_cls_tables(_CLS_TABLES.replace("base64.urlsafe_b64decode(raw + b\"==\")", "base64.urlsafe_b64decode(raw)")))
# a table the walker cannot resolve (built at import time by a comprehension): nothing is claimed about the codec steps
T("C04", "twin-codec-tables-computed", F, "", "",
  edits=_tables(enc=_ENC_TABLE.replace("_ENC = {", "_ENC_SRC = {") + "_ENC = {name: fn for name, fn in _ENC_SRC.items()}\n",
                dec=_DEC_TABLE.replace("_DEC = {", "_DEC_SRC = {") + "_DEC = {name: fn for name, fn in _DEC_SRC.items()}\n"))

# ------------------------------------------------------------------------------------------------ build starts a new block (R7)
_T_BUILD_ID = "                    data = c2data.id or b\"\"\n"
M("C04", "build-keeps-payload-when-field-empty", F, _T_BUILD_ID, "                    if c2data.id:\n                        data = c2data.id\n", "C04.R7")
M("C04", "build-adds-field-to-payload", F, "                    data = c2data.metadata or b\"\"\n", "                    data += c2data.metadata or b\"\"\n", "C04.R7")
T("C04", "twin-build-reset-then-fill", F, _T_BUILD_ID, "                    data = b\"\"\n                    if c2data.id:\n                        data = c2data.id\n")
T("C04", "twin-build-namedtuple-fields-lookup", F, _T_BUILD, "                if step_val in C2Data._fields:\n                    data = getattr(c2data, step_val, None) or b\"\"\n")
M("C04", "build-fields-lookup-skips-empty", F, _T_BUILD,
  "                value = getattr(c2data, step_val, None) if step_val in C2Data._fields else None\n                data = value if value is not None else data\n", "C04.R7")

# ------------------------------------------------------------------------------------------------ per-call state (R8)
_BLANK = "HttpRequest(method=b\"\", uri=b\"\", body=b\"\", params={}, headers={})"
M("C04", "blank-request-module-constant", F, "", "", "C04.R8",
  edits=[(F, _CLASS, "_BLANK_REQUEST = " + _BLANK + "\n\n\n" + _CLASS), (F, _T_REQ, "        request = request or _BLANK_REQUEST\n")])
M("C04", "blank-request-shared-dicts", F, "", "", "C04.R8",
  edits=[(F, _CLASS, "_NO_PARAMS: Dict[bytes, bytes] = {}\n_NO_HEADERS: Dict[bytes, bytes] = {}\n\n\n" + _CLASS),
         (F, _T_REQ, "        request = request or HttpRequest(method=b\"\", uri=b\"\", body=b\"\", params=_NO_PARAMS, headers=_NO_HEADERS)\n")])
M("C04", "blank-request-mutable-default-argument", F, "request: Optional[HttpRequest] = None) -> HttpRequest:", "request: HttpRequest = " + _BLANK + ") -> HttpRequest:", "C04.R8")
M("C04", "blank-request-instance-attribute", F, "", "", "C04.R8",
  edits=[(F, "        self.tsteps: List[TransformStep] = list(steps)\n", "        self.blank = " + _BLANK + "\n        self.tsteps: List[TransformStep] = list(steps)\n"),
         (F, _T_REQ, "        if request is None:\n            request = self.blank\n")])
T("C04", "twin-blank-request-constant-copied", F, "", "",
  edits=[(F, _CLASS, _CLASS + "    EMPTY_REQUEST = " + _BLANK + "\n\n"), (F, _T_REQ, "        request = request or self.EMPTY_REQUEST\n"),
         (F, "        params = request.params\n        headers = request.headers\n", "        params = dict(request.params)\n        headers = dict(request.headers)\n")])
T("C04", "twin-blank-request-factory", F, "", "",
  edits=[(F, _CLASS, _CLASS + "    @staticmethod\n    def _blank_request() -> HttpRequest:\n        return " + _BLANK + "\n\n"), (F, _T_REQ, "        request = request or self._blank_request()\n")])
T("C04", "twin-blank-request-constant-unpacked-copy", F, "", "",
  edits=[(F, _CLASS, _CLASS + "    EMPTY_REQUEST = " + _BLANK + "\n\n"), (F, _T_REQ, "        request = request or self.EMPTY_REQUEST\n"),
         (F, "        params = request.params\n        headers = request.headers\n", "        params = dict(request.params)\n        headers = {**request.headers}\n")])

# one table of (encoder, decoder) pairs shared by both directions
_PAIRS = (
    "_CODEC_PAIRS = {\n"
    "    \"base64\": (base64.b64encode, lambda raw: base64.b64decode(raw + b\"==\")),\n"
    "    \"base64url\": (base64.urlsafe_b64encode, lambda raw: base64.urlsafe_b64decode(raw + b\"==\")),\n"
    "    \"netbios\": (lambda raw: netbios_encode(raw).lower(), lambda raw: netbios_decode(raw.upper())),\n"
    "    \"netbiosu\": (lambda raw: netbios_encode(raw).upper(), netbios_decode),\n"
    "}\n\n\n"
)


def _pairs(t_index="0", r_index="1"):
    return [
        (F, _CLASS, _PAIRS + _CLASS),
        (F, _T_FIRST, "            pair = _CODEC_PAIRS.get(step)\n            if pair is not None:\n                data = pair[" + t_index + "](data)\n            elif step == \"append\":\n                if isinstance(step_val, int):\n"),
        (F, _T_CODECS, ""),
        (F, _R_FIRST, "            pair = _CODEC_PAIRS.get(step)\n            if pair is not None:\n                data = pair[" + r_index + "](data)\n            elif step == \"append\":\n                if isinstance(step_val, bytes):\n"),
        (F, _R_CODECS, ""),
    ]


T("C04", "twin-codec-pair-table", F, "", "", edits=_pairs())
M("C04", "codec-pair-table-recover-encodes", F, "", "", "C04.R2", edits=_pairs(r_index="0"))

# class-level table whose mask entry calls a static helper of the class by its qualified name
_CLS_MASK = (
    _CLS_TABLES.replace("    _DECODERS = {\n", "    @staticmethod\n    def _masked(raw, key):\n        return key + xor(raw, key)\n\n    _DECODERS = {\n        \"mask\": lambda raw: xor(raw[4:], raw[:4]),\n")
    .replace("    _ENCODERS = {\n", "    _ENCODERS = {\n        \"mask\": lambda raw: HttpDataTransform._masked(raw, p32be(random.getrandbits(32))),\n")
)
T("C04", "twin-codec-class-table-static-mask-helper", F, "", "", edits=_cls_tables(_CLS_MASK) + [(F, _T_MASK_BRANCH, ""), (F, _R_MASK_BRANCH, "")])
M("C04", "codec-class-table-mask-split-at-two", F, "", "", "C04.R6",
  edits=_cls_tables(_CLS_MASK.replace("xor(raw[4:], raw[:4])", "xor(raw[2:], raw[:2])")) + [(F, _T_MASK_BRANCH, ""), (F, _R_MASK_BRANCH, "")])

# ------------------------------------------------------------------------------------------------ a location is read back exactly (R9)
# (wave 3: transform leaving `old(P) (+) data` in a termination location while recover takes the whole location.  The
# unchanged tree has exactly this for uri_append - a known finding, construct `uri_append reads back only what was placed` -
# so respellings of that branch must produce the SAME construct (silent here = no new violation), and the same kind of
# change at the other three locations must be a fresh violation.)
_T_PRINT = "                body = data\n"
_T_PARAM = "                params[step_val] = data\n"
_T_URI = "                uri += data\n"
_T_URI_BRANCH = "            elif step == \"uri_append\":\n" + _T_URI
_R_URI = "                data = http.uri\n"
M("C04", "print-appends-to-initial-body", F, _T_PRINT, "                body += data\n", "C04.R9")
M("C04", "print-joins-initial-body", F, _T_PRINT, "                body = b\"\".join([body, data])\n", "C04.R9")
M("C04", "print-appends-unless-body-empty", F, _T_PRINT, "                body = body + data if body else data\n", "C04.R9")
M("C04", "print-constant-marker-stored-with-payload", F, _T_PRINT, "                body = b\"data=\" + data\n", "C04.R9")
M("C04", "header-concatenates-existing-value", F, _T_HEADER, "                headers[step_val] = headers.get(step_val, b\"\") + data\n", "C04.R9")
M("C04", "header-update-concatenates-existing-value", F, _T_HEADER, "                headers.update({step_val: headers[step_val] + data if step_val in headers else data})\n", "C04.R9")
M("C04", "parameter-setdefault-keeps-existing-value", F, _T_PARAM, "                params.setdefault(step_val, data)\n", "C04.R9")
M("C04", "parameter-placed-only-when-absent", F, _T_PARAM, "                if step_val not in params:\n                    params[step_val] = data\n", "C04.R9")
T("C04", "twin-print-guarded-by-empty-body", F, _T_PRINT, "                body = data if not body else data\n")
T("C04", "twin-print-cast", F, _T_PRINT, "                body = bytes(data)\n")
T("C04", "twin-print-empty-join", F, _T_PRINT, "                body = b\"\".join([data])\n")
# respellings of the uri_append branch: same finding, same construct text
T("C04", "twin-uri-append-spelled-out", F, _T_URI, "                uri = uri + data\n")
T("C04", "twin-uri-append-join", F, _T_URI, "                uri = b\"\".join((uri, data))\n")
T("C04", "twin-uri-append-temporary", F, _T_URI, "                path = uri\n                uri = path + data\n")
T("C04", "twin-uri-append-helper", F, "", "",
  edits=[(F, _CLASS, "def _extend_uri(path: bytes, tail: bytes) -> bytes:\n    return path + tail\n\n\n" + _CLASS), (F, _T_URI, "                uri = _extend_uri(uri, data)\n")])
T("C04", "twin-uri-append-static-helper", F, "", "",
  edits=[(F, _CLASS, _CLASS + "    @staticmethod\n    def _extend_uri(path: bytes, tail: bytes) -> bytes:\n        return path + tail\n\n"), (F, _T_URI, "                uri = self._extend_uri(uri, data)\n")])
T("C04", "twin-uri-append-table-entry", F, "", "",
  edits=[(F, _CLASS, "_URI_PLACEMENTS = {\"uri_append\": lambda path, tail: path + tail}\n\n\n" + _CLASS),
         (F, _T_URI_BRANCH, "            elif step in _URI_PLACEMENTS:\n                uri = _URI_PLACEMENTS[step](uri, data)\n")])
T("C04", "twin-uri-recover-through-local", F, _R_URI, "                whole_uri = http.uri\n                data = whole_uri\n")
T("C04", "twin-uri-recover-getattr", F, _R_URI, "                data = getattr(http, \"uri\")\n")
# the payload is cut out of its location by position only: a search for bytes in a location holding an arbitrary payload is not exact
M("C04", "uri-recover-last-path-segment", F, _R_URI, "                data = http.uri.rpartition(b\"/\")[2]\n", "C04.R9")
M("C04", "uri-recover-after-last-slash-by-index", F, _R_URI, "                data = http.uri[http.uri.rfind(b\"/\") + 1 :]\n", "C04.R9")
M("C04", "body-recover-stripped", F, "                data = http.body\n", "                data = http.body.strip()\n", "C04.R9")
M("C04", "header-recover-after-equals-sign", F, "                data = http.headers[step_val]\n", "                data = http.headers[step_val].split(b\"=\", 1)[-1]\n", "C04.R9")
M("C04", "parameter-recover-plus-as-space", F, "                data = http.params[step_val]\n", "                raw = http.params[step_val]\n                data = raw.replace(b\"+\", b\" \")\n", "C04.R9")

# ------------------------------------------------------------------------------------------------ recovered blocks kept in a keyed container (R7)
# the three result locals become entries of one dict; the constructor receives them as **mapping, as keyword reads of
# the entries, or the locals are passed through a dict display; the store may be spelled as update({k: v})
_R_VARS = "        build_metadata = None\n        build_output = None\n        build_id = None\n"
_R_BUILD = (
    "                if step_val == \"output\":\n"
    "                    build_output = data\n"
    "                elif step_val == \"id\":\n"
    "                    build_id = data\n"
    "                elif step_val == \"metadata\":\n"
    "                    build_metadata = data\n"
)
_R_DICT_INIT = "        blocks = {\"metadata\": None, \"output\": None, \"id\": None}\n"
_R_DICT_STORE = "                if step_val in (\"metadata\", \"output\", \"id\"):\n                    blocks[step_val] = data\n"
_R_DICT_RET = "        result_type = ClientC2Data if isinstance(http, HttpRequest) else ServerC2Data\n        return result_type(**blocks)\n"
_R_DICT_READS = (
    "        if isinstance(http, HttpRequest):\n"
    "            return ClientC2Data(output=blocks[\"output\"], id=blocks.get(\"id\"), metadata=blocks[\"metadata\"])\n"
    "        return ServerC2Data(blocks[\"output\"], blocks[\"metadata\"], blocks[\"id\"])\n"
)
_R_DISPLAY_RET = (
    "        fields = {\"output\": build_output, \"id\": build_id, \"metadata\": build_metadata}\n"
    "        if isinstance(http, HttpRequest):\n"
    "            return ClientC2Data(**fields)\n"
    "        return ServerC2Data(**fields)\n"
)


def _dict_blocks(store=_R_DICT_STORE, ret=_R_DICT_RET, init=_R_DICT_INIT):
    return [(F, _R_VARS, init), (F, _R_BUILD, store), (F, _R_RET, ret)]


T("C04", "twin-recover-dict-splat", F, "", "", edits=_dict_blocks())
T("C04", "twin-recover-dict-splat-copy", F, "", "", edits=_dict_blocks(ret=_R_DICT_RET.replace("(**blocks)", "(**dict(blocks))")))
T("C04", "twin-recover-dict-update-store", F, "", "", edits=_dict_blocks(store=_R_DICT_STORE.replace("blocks[step_val] = data", "blocks.update({step_val: data})")))
T("C04", "twin-recover-dict-keyword-reads", F, "", "", edits=_dict_blocks(ret=_R_DICT_READS))
T("C04", "twin-recover-dict-starts-empty", F, "", "", edits=_dict_blocks(init="        blocks = {}\n"))
T("C04", "twin-recover-display-splat", F, _R_RET, _R_DISPLAY_RET)
# the payload goes into an attribute chosen by name: the store is not located (undecided), never a false alarm
T("C04", "twin-recover-attribute-store", F, "", "", edits=[
    (F, _CLASS, "class _Blocks:\n    output = None\n    id = None\n    metadata = None\n\n\n" + _CLASS),
    (F, _R_VARS, "        blocks = _Blocks()\n"),
    (F, _R_BUILD, "                if step_val in (\"metadata\", \"output\", \"id\"):\n                    setattr(blocks, step_val, data)\n"),
    (F, _R_RET, "        result_type = ClientC2Data if isinstance(http, HttpRequest) else ServerC2Data\n        return result_type(output=blocks.output, id=blocks.id, metadata=blocks.metadata)\n"),
])
M("C04", "dict-splat-selector-not-stored", F, "", "", "C04.R7", edits=_dict_blocks(store=_R_DICT_STORE.replace("(\"metadata\", \"output\", \"id\")", "(\"output\", \"id\")")))
M("C04", "dict-store-key-redirected", F, "", "", "C04.R7",
  edits=_dict_blocks(store=_R_DICT_STORE.replace("blocks[step_val] = data", "blocks[\"id\" if step_val == \"metadata\" else step_val] = data")))
M("C04", "dict-store-truncated-payload", F, "", "", "C04.R7", edits=_dict_blocks(store=_R_DICT_STORE.replace("= data\n", "= data[:-1]\n")))
M("C04", "dict-splat-class-swapped", F, "", "", "C04.R7", edits=_dict_blocks(ret=_R_DICT_RET.replace("ClientC2Data if isinstance(http, HttpRequest) else ServerC2Data", "ServerC2Data if isinstance(http, HttpRequest) else ClientC2Data")))
M("C04", "dict-keyword-reads-crossed", F, "", "", "C04.R7", edits=_dict_blocks(ret=_R_DICT_READS.replace("output=blocks[\"output\"], id=blocks.get(\"id\")", "output=blocks[\"id\"], id=blocks.get(\"output\")")))
M("C04", "dict-positional-reads-crossed", F, "", "", "C04.R7", edits=_dict_blocks(ret=_R_DICT_READS.replace("(blocks[\"output\"], blocks[\"metadata\"], blocks[\"id\"])", "(blocks[\"output\"], blocks[\"id\"], blocks[\"metadata\"])")))
M("C04", "dict-splat-of-other-mapping", F, "", "", "C04.R7", edits=_dict_blocks(ret="        fresh = {\"metadata\": None, \"output\": None, \"id\": None}\n" + _R_DICT_RET.replace("(**blocks)", "(**fresh)")))
M("C04", "display-splat-crossed", F, _R_RET, _R_DISPLAY_RET.replace("\"output\": build_output, \"id\": build_id", "\"output\": build_id, \"id\": build_output"), "C04.R7")
M("C04", "display-splat-drops-metadata", F, _R_RET, _R_DISPLAY_RET.replace(", \"metadata\": build_metadata", ""), "C04.R7")

# ------------------------------------------------------------------------------------------------ no pass-through path (R10)
# (wave 5: a length-changing encoder / decoder step guarded by a test on the payload, so that some payloads are passed on
# unchanged.  The lengths the guard lets through are computed in the interval domain from the path facts; a pass-through is
# fine only where the step is the identity anyway: the empty payload for the four codecs, nothing for transform mask, blobs
# shorter than the key - malformed - for recover mask.)
_R_MASK = "                data = xor(data[4:], data[:4])\n"
_R_B64 = "                data = base64.b64decode(data + b\"==\")\n"
_R_B64URL = "                data = base64.urlsafe_b64decode(data + b\"==\")\n"
_R_NB = "                data = netbios_decode(data.upper())\n"
_T_B64 = "                data = base64.b64encode(data)\n"
_T_NB = "                data = netbios_encode(data).lower()\n"
_T_NBU = "                data = netbios_encode(data).upper()\n"


def _guarded(test, stmts):
    return "                if " + test + ":\n" + "".join("    " + l + "\n" for l in stmts.splitlines())


M("C04", "unmask-skipped-for-key-only-blob-by-length", F, _R_MASK, _guarded("len(data) > 4", _R_MASK), "C04.R10")
M("C04", "unmask-conditional-expression-keeps-key", F, _R_MASK, "                data = xor(data[4:], data[:4]) if data[4:] != b\"\" else data\n", "C04.R10")
M("C04", "unmask-early-continue-on-bare-key", F, _R_MASK, "                if len(data) - 4 == 0:\n                    continue\n" + _R_MASK, "C04.R10")
M("C04", "unmask-skipped-when-tail-length-zero", F, _R_MASK, "                body_len = len(data[4:])\n" + _guarded("body_len", _R_MASK), "C04.R10")
M("C04", "mask-skipped-for-empty-payload", F, _T_MASK, _guarded("data", _T_MASK), "C04.R10")
M("C04", "mask-skipped-for-short-payload", F, _T_MASK, _guarded("4 <= len(data)", _T_MASK), "C04.R10")
M("C04", "base64-decode-skipped-below-one-quantum", F, _R_B64, _guarded("len(data) >= 4", _R_B64), "C04.R10")
M("C04", "base64url-decode-only-long-values", F, _R_B64URL, _guarded("len(data) > 16", _R_B64URL), "C04.R10")
M("C04", "netbios-decode-skipped-for-one-pair", F, _R_NB, _guarded("len(data) != 2", _R_NB), "C04.R10")
M("C04", "netbios-encode-skipped-for-single-byte", F, _T_NB, "                data = netbios_encode(data).lower() if len(data) > 1 else data\n", "C04.R10")
M("C04", "base64-encode-only-up-to-a-limit", F, _T_B64, _guarded("len(data) < 4096", _T_B64), "C04.R10")
M("C04", "codec-table-unmask-keeps-bare-key", F, "", "", "C04.R10",
  edits=_tables(enc=_MASKED + _ENC_MASK, dec=_DEC_MASK.replace("lambda raw: xor(raw[4:], raw[:4])", "lambda raw: xor(raw[4:], raw[:4]) if raw[4:] else raw"), mask_in_table=True))
# twins: the step is skipped only where it is the identity (empty payload), or the short blob still yields the empty payload
T("C04", "twin-base64-decode-skips-empty", F, _R_B64, _guarded("data", _R_B64))
T("C04", "twin-base64-encode-skips-empty", F, _T_B64, _guarded("len(data) > 0", _T_B64))
T("C04", "twin-netbios-decode-continue-on-empty", F, _R_NB, "                if len(data) == 0:\n                    continue\n" + _R_NB)
T("C04", "twin-netbiosu-encode-conditional-expression", F, _T_NBU, "                data = netbios_encode(data).upper() if len(data) >= 1 else data\n")
T("C04", "twin-unmask-named-parts", F, _R_MASK, "                key, masked = data[:4], data[4:]\n                data = xor(masked, key)\n")
T("C04", "twin-unmask-empty-tail-is-empty-payload", F, _R_MASK, "                key, masked = data[:4], data[4:]\n                data = xor(masked, key) if masked else b\"\"\n")
T("C04", "twin-unmask-empty-tail-passed-as-tail", F, _R_MASK, "                key, masked = data[:4], data[4:]\n                if masked:\n                    masked = xor(masked, key)\n                data = masked\n")
T("C04", "twin-unmask-length-guard-else-empty", F, _R_MASK, _guarded("len(data) > 4", _R_MASK) + "                else:\n                    data = b\"\"\n")
T("C04", "twin-unmask-nothing-to-do-for-empty-blob", F, _R_MASK, "                if not data:\n                    continue\n" + _R_MASK)

# ------------------------------------------------------------------------------------------------ R2: codec spellings / alphabets
# The pair is judged on (codec family, direction, alphabet), not on the name of the library function: the documented aliases of
# the base64 codecs and the netbios offset parameter are other spellings of the same wire format.
_T_B64URL = "                data = base64.urlsafe_b64encode(data)\n"
_R_NBU = "            elif step == \"netbiosu\":\n                data = netbios_decode(data)\n"
_IMPORT_B64 = "import base64\n"
_CLS_DOC_ANCHOR = "class HttpDataTransform:\n"


def _nbu(line):
    return "            elif step == \"netbiosu\":\n" + line


T("C04", "twin-netbios-lower-alphabet-by-offset-keyword", F, _T_NB, "                data = netbios_encode(data, offset=0x61)\n")
T("C04", "twin-netbios-lower-alphabet-by-offset-positional", F, _T_NB, "                data = netbios_encode(data, ord(\"a\"))\n")
T("C04", "twin-netbios-lower-of-explicit-default-offset", F, _T_NB, "                data = netbios_encode(data, offset=0x41).lower()\n")
T("C04", "twin-netbios-offset-then-idempotent-lower", F, _T_NB, "                data = netbios_encode(data, 0x61).lower()\n")
T("C04", "twin-netbiosu-no-op-upper-dropped", F, _T_NBU, "                data = netbios_encode(data)\n")
T("C04", "twin-netbiosu-explicit-default-offset", F, _T_NBU, "                data = netbios_encode(data, offset=0x41)\n")
T("C04", "twin-netbios-decode-lower-alphabet-by-offset", F, _R_NB, "                data = netbios_decode(data, offset=0x61)\n")
T("C04", "twin-netbios-decode-lowered-input-lower-offset", F, _R_NB, "                data = netbios_decode(data.lower(), 0x61)\n")
T("C04", "twin-netbiosu-decode-idempotent-upper", F, _R_NBU, _nbu("                data = netbios_decode(data.upper(), offset=0x41)\n"))
T("C04", "twin-netbios-offset-class-constant", F, "", "",
  edits=[(F, _T_NB, "                data = netbios_encode(data, offset=self._LOWER_A)\n"), (F, _CLS_DOC_ANCHOR, _CLS_DOC_ANCHOR + "    _LOWER_A = 0x61\n\n")])
M("C04", "netbios-offset-upper-alphabet", F, _T_NB, "                data = netbios_encode(data, offset=0x41)\n", "C04.R2")
M("C04", "netbios-offset-off-by-one", F, _T_NB, "                data = netbios_encode(data, offset=0x60)\n", "C04.R2")
M("C04", "netbios-lower-offset-then-upper", F, _T_NB, "                data = netbios_encode(data, offset=0x61).upper()\n", "C04.R2")
M("C04", "netbiosu-lower-offset", F, _T_NBU, "                data = netbios_encode(data, offset=0x61)\n", "C04.R2")
M("C04", "netbiosu-default-offset-lowered", F, _T_NBU, "                data = netbios_encode(data).lower()\n", "C04.R2")
M("C04", "netbios-decode-uppercased-input-lower-offset", F, _R_NB, "                data = netbios_decode(data.upper(), offset=0x61)\n", "C04.R2")
M("C04", "netbiosu-decode-lower-offset", F, _R_NBU, _nbu("                data = netbios_decode(data, 0x61)\n"), "C04.R2")
M("C04", "netbios-offset-class-constant-upper", F, "", "", "C04.R2",
  edits=[(F, _T_NB, "                data = netbios_encode(data, offset=self._LOWER_A)\n"), (F, _CLS_DOC_ANCHOR, _CLS_DOC_ANCHOR + "    _LOWER_A = 0x41\n\n")])
T("C04", "twin-base64-standard-aliases", F, "", "",
  edits=[(F, _T_B64, "                data = base64.standard_b64encode(data)\n"), (F, _R_B64, "                data = base64.standard_b64decode(data + b\"==\")\n")])
T("C04", "twin-base64-explicit-default-options", F, "", "",
  edits=[(F, _T_B64, "                data = base64.b64encode(data, altchars=None)\n"), (F, _R_B64, "                data = base64.b64decode(data + b\"==\", altchars=None, validate=False)\n")])
T("C04", "twin-base64-explicit-standard-altchars", F, "", "",
  edits=[(F, _T_B64, "                data = base64.b64encode(data, b\"+/\")\n"), (F, _R_B64, "                data = base64.b64decode(data + b\"==\", b\"+/\")\n")])
T("C04", "twin-base64url-altchars-keyword", F, "", "",
  edits=[(F, _T_B64URL, "                data = base64.b64encode(data, altchars=b\"-_\")\n"), (F, _R_B64URL, "                data = base64.b64decode(data + b\"==\", altchars=b\"-_\")\n")])
T("C04", "twin-base64url-altchars-positional-one-side", F, _R_B64URL, "                data = base64.b64decode(data + b\"==\", b\"-\" + b\"_\")\n")
T("C04", "twin-base64-binascii", F, "", "",
  edits=[(F, _IMPORT_B64, "import base64\nimport binascii\n"), (F, _T_B64, "                data = binascii.b2a_base64(data, newline=False)\n"),
         (F, _R_B64, "                data = binascii.a2b_base64(data + b\"==\")\n")])
T("C04", "twin-base64-imported-names", F, "", "",
  edits=[(F, _IMPORT_B64, "import base64\nfrom base64 import standard_b64encode as _b64enc\n"), (F, _T_B64, "                data = _b64enc(data)\n")])
M("C04", "base64-encoded-with-urlsafe-altchars", F, _T_B64, "                data = base64.b64encode(data, altchars=b\"-_\")\n", "C04.R2")
M("C04", "base64url-encoded-with-standard-alias", F, _T_B64URL, "                data = base64.standard_b64encode(data)\n", "C04.R2")
M("C04", "base64url-decoded-with-standard-altchars", F, _R_B64URL, "                data = base64.b64decode(data + b\"==\", altchars=b\"+/\")\n", "C04.R2")
M("C04", "base64url-altchars-dot-for-underscore", F, "", "", "C04.R2",
  edits=[(F, _T_B64URL, "                data = base64.b64encode(data, altchars=b\"-.\")\n"), (F, _R_B64URL, "                data = base64.b64decode(data + b\"==\", altchars=b\"-.\")\n")])
M("C04", "base64url-decode-altchars-dropped", F, _R_B64URL, "                data = base64.b64decode(data + b\"==\", validate=False)\n", "C04.R2")
M("C04", "base64-binascii-trailing-newline", F, "", "", "C04.R2",
  edits=[(F, _IMPORT_B64, "import base64\nimport binascii\n"), (F, _T_B64, "                data = binascii.b2a_base64(data)\n")])
M("C04", "base64-replaced-by-base32", F, "", "", "C04.R2",
  edits=[(F, _T_B64, "                data = base64.b32encode(data)\n"), (F, _R_B64, "                data = base64.b32decode(data + b\"==\")\n")])
M("C04", "base64-mime-line-wrapping", F, _T_B64, "                data = base64.encodebytes(data)\n", "C04.R2")
M("C04", "base64-padding-dropped-with-alias", F, _R_B64, "                data = base64.standard_b64decode(data)\n", "C04.R2")
