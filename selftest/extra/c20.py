"""C20 - extra corpus: twins for the kinds of refactoring the path-term rules are robust against (helper extraction, named
temporaries, call style and keyword arguments, flags vs else-branch vs early return, De-Morgan, loop vs comprehension,
equivalent bit/arithmetic expressions, partial chains, precompiled patterns, mirrored tests) and mutants for every
restructured rule, several of them applied on top of a refactored shape.  The last section pins the algebraic forms the
rules recognise (normal forms, tiling lemmas, nibble forms, interval sets, regex parse tree): a recognised form, a
located-but-wrong form next to it, and spellings outside the recognised forms, which must stay undecided (silent)."""

from selftest.corpus import M, T

U = "utils.py"
P = "pcap.py"

# ------------------------------------------------------------------------------------------------------------ anchors
XOR_GUARD = "    if sum(key) == 0:\n        return data\n"
XOR_TILE = "    if len(key) < size:\n        key = key * ((size // len(key)) + 1)\n    key = key[:size]\n"
XOR_RET = '    return int.to_bytes(int.from_bytes(data, "little") ^ int.from_bytes(key, "little"), size, "little")\n'
XOR_BODY = XOR_GUARD + "\n    size = len(data)\n" + XOR_TILE + "\n" + XOR_RET
XOR_DEF = "def xor(data: bytes, key: bytes) -> bytes:\n"

ENC_BODY = (
    "    barray = []\n    for c in bytearray(data):\n        a = ((c & 0xF0) >> 4) + offset\n        b = (c & 0x0F) + offset\n"
    "        barray.append(a)\n        barray.append(b)\n    return bytes(barray)\n"
)
DEC_BODY = (
    "    barray = []\n    for i in range(0, len(data), 2):\n        a = (data[i] - offset) << 4\n        b = data[i + 1] - offset\n"
    "        barray.append(a + b)\n    return bytes(barray)\n"
)
ENC_COMP = "    return bytes([nibble + offset for c in bytearray(data) for nibble in (c >> 4, c & 0x0F)])\n"
DEC_COMP = "    return bytes([((data[i] - offset) << 4) + (data[i + 1] - offset) for i in range(0, len(data), 2)])\n"

UNPACK_RET = "    return int.from_bytes(data[:size], byteorder=byteorder, signed=signed)\n"
PACK_BODY = "    if size is None:\n        size = (n.bit_length() + 7) // 8\n    return n.to_bytes(size, byteorder=byteorder, signed=signed)\n"

C8_BODY = '    if len(text) < 4:\n        return 0\n    text = text.replace("/", "")\n    return sum(map(ord, text)) % 256\n'
X86_RET = "    return checksum8(uri) == 92\n"
X64_RET = '    return bool(checksum8(uri) == 93 and re.match("^/[A-Za-z0-9]{4}$", uri))\n'

RSU_PRE = (
    '    if x64 and length != 4:\n        raise ValueError("length must be exactly 4 for x64 stager uris")\n'
    '    if length < 3:\n        raise ValueError("length must be at least 3 chars")\n'
)
RSU_SEL = "    is_stager = is_stager_x64 if x64 else is_stager_x86\n"
RSU_CHARS = "    chars = string.ascii_letters + string.digits\n"
RSU_LOOP = (
    '    while True:\n        uri = "/" + "".join(random.choice(chars) for _ in range(length))\n'
    "        if is_stager(uri):\n            return uri\n"
)

GATE = (
    "        if response.request:\n"
    "            is_stager = False\n"
    '            uri = response.request.uri.decode("ascii", errors="ignore")\n'
    "            if utils.is_stager_x86(uri):\n"
    "                is_stager = True\n"
    '                logging.info("Found valid x86 checksum8 request: %r", response.request)\n'
    "            elif utils.is_stager_x64(uri):\n"
    "                is_stager = True\n"
    '                logging.info("Found valid x64 checksum8 request: %r", response.request)\n'
    "            if not is_stager:\n"
    "                return None\n"
)
GATE_ELSE = (
    "        request = response.request\n"
    "        if request:\n"
    '            uri = request.uri.decode("ascii", errors="ignore")\n'
    "            if utils.is_stager_x86(uri):\n"
    '                logging.info("Found valid x86 checksum8 request: %r", request)\n'
    "            elif utils.is_stager_x64(uri):\n"
    '                logging.info("Found valid x64 checksum8 request: %r", request)\n'
    "            else:\n"
    "                return None\n"
)
GATE_DEMORGAN = (
    "        if response.request:\n"
    '            uri = response.request.uri.decode("ascii", errors="ignore")\n'
    "            if not (utils.is_stager_x86(uri) or utils.is_stager_x64(uri)):\n"
    "                return None\n"
    '            logging.info("Found valid checksum8 request: %r", response.request)\n'
)
GATE_NESTED = (
    "        if not response.request:\n"
    "            known = False\n"
    "        else:\n"
    "            known = True\n"
    "        if known:\n"
    '            uri = response.request.uri.decode("ascii", errors="ignore")\n'
    "            x86 = utils.is_stager_x86(uri)\n"
    "            stager = x86 or utils.is_stager_x64(uri)\n"
    "            if stager:\n"
    '                logging.info("Found valid checksum8 request: %r", response.request)\n'
    "            else:\n"
    "                return None\n"
)

# ============================================================================================================ R1 xor
HELPER = (
    "def _tile(material: bytes, wanted: int) -> bytes:\n"
    "    have = len(material)\n"
    "    if have < wanted:\n"
    "        times = wanted // have + 1\n"
    "        material = material * times\n"
    "    return material[:wanted]\n\n\n"
)
XOR_HELPER_BODY = (
    XOR_GUARD + "\n    size = len(data)\n    stream = _tile(key, size)\n\n"
    '    left = int.from_bytes(data, "little")\n    right = int.from_bytes(stream, "little")\n    return (left ^ right).to_bytes(size, "little")\n'
)
T("C20", "twin-xor-helper-extracted", U, "", "", edits=[(U, XOR_DEF, HELPER + XOR_DEF), (U, XOR_BODY, XOR_HELPER_BODY)])
T("C20", "twin-xor-method-style-keywords", U, XOR_RET,
  '    return (int.from_bytes(data, byteorder="little") ^ int.from_bytes(key, byteorder="little")).to_bytes(length=size, byteorder="little")\n')
T("C20", "twin-xor-big-endian-throughout", U, XOR_RET, '    return int.to_bytes(int.from_bytes(data, "big") ^ int.from_bytes(key, "big"), size, "big")\n')
T("C20", "twin-xor-ceil-tiling-unconditional", U, XOR_TILE, "    key = (key * -(-size // len(key)))[:size]\n")
T("C20", "twin-xor-not-any", U, XOR_GUARD, "    if not any(key):\n        return data\n")
T("C20", "twin-xor-empty-or-zero", U, XOR_GUARD, "    if not key or not sum(key):\n        return data\n")
T("C20", "twin-xor-ternary-stream", U, "", "", edits=[
    (U, XOR_TILE, "    stream = key * (size // len(key) + 1) if len(key) < size else key\n    stream = stream[:size]\n"),
    (U, XOR_RET, XOR_RET.replace("(key,", "(stream,")),
])
T("C20", "twin-xor-no-size-local", U, XOR_BODY,
  XOR_GUARD + "    if len(key) < len(data):\n        key = key * (len(data) // len(key) + 1)\n    key = key[: len(data)]\n"
  '    return int.to_bytes(int.from_bytes(data, "little") ^ int.from_bytes(key, "little"), len(data), "little")\n')
T("C20", "twin-xor-empty-data-shortcut", U, XOR_GUARD, XOR_GUARD + "    if not data:\n        return data\n")
T("C20", "twin-xor-mirrored-tile-guard", U, "    if len(key) < size:\n", "    if size > len(key):\n")
T("C20", "twin-xor-elementwise-cycle", U, XOR_BODY, XOR_GUARD + "    return bytes(a ^ b for a, b in zip(data, itertools.cycle(key)))\n")

M("C20", "xor-helper-no-plus-one", U, "", "", "C20.R1", edits=[
    (U, XOR_DEF, HELPER.replace("wanted // have + 1", "wanted // have") + XOR_DEF), (U, XOR_BODY, XOR_HELPER_BODY)])
M("C20", "xor-length-plus-one", U, XOR_RET, XOR_RET.replace("size, ", "size + 1, "), "C20.R1")
M("C20", "xor-length-of-uncut-key", U, "", "", "C20.R1", edits=[(U, "    key = key[:size]\n", ""), (U, XOR_RET, XOR_RET.replace("size, ", "len(key), "))])
M("C20", "xor-identity-on-zero-prefix", U, XOR_GUARD, "    if not any(key[:4]):\n        return data\n", "C20.R1")
M("C20", "xor-no-identity-shortcut", U, XOR_GUARD, "", "C20.R1")
M("C20", "xor-identity-needs-nonempty", U, XOR_GUARD, "    if key and sum(key) == 0:\n        return data\n", "C20.R1")
M("C20", "xor-elementwise-no-modulo", U, XOR_BODY, XOR_GUARD + "    return bytes(data[i] ^ key[i] for i in range(len(data)))\n", "C20.R1")
M("C20", "xor-data-reversed", U, XOR_RET, XOR_RET.replace("from_bytes(data,", "from_bytes(data[::-1],"), "C20.R1")
M("C20", "xor-tile-guard-flipped", U, "    if len(key) < size:\n", "    if len(key) > size:\n", "C20.R1")
M("C20", "xor-method-style-mixed-endian", U, XOR_RET,
  '    return (int.from_bytes(data, byteorder="little") ^ int.from_bytes(key, byteorder="little")).to_bytes(length=size, byteorder="big")\n', "C20.R1")
M("C20", "xor-key-cut-from-second-byte", U, "    key = key[:size]\n", "    key = key[1 : size + 1]\n", "C20.R1")

# ============================================================================================================ R2 pack / unpack
T("C20", "twin-partial-chain", U, 'u16be = partial(unpack, size=2, byteorder="big")', "u16be = partial(unpack_be, size=2)")
T("C20", "twin-partial-explicit-defaults", U, "p32 = partial(pack, size=4)", 'p32 = partial(pack, size=4, byteorder="little", signed=False)')
T("C20", "twin-unpack-positional", U, UNPACK_RET, "    chunk = data[0:size]\n    return int.from_bytes(chunk, byteorder, signed=signed)\n")
T("C20", "twin-pack-ternary", U, PACK_BODY, "    width = (n.bit_length() + 7) // 8 if size is None else size\n    return int.to_bytes(n, width, byteorder, signed=signed)\n")
T("C20", "twin-pack-early-return-ceil", U, PACK_BODY,
  "    if size is not None:\n        return n.to_bytes(size, byteorder=byteorder, signed=signed)\n    return n.to_bytes(-(-n.bit_length() // 8), byteorder=byteorder, signed=signed)\n")

M("C20", "u64be-chain-wrong-size", U, 'u64be = partial(unpack, size=8, byteorder="big")', "u64be = partial(unpack_be, size=4)", "C20.R2")
M("C20", "p8-signed", U, "p8 = partial(pack, size=1)", "p8 = partial(pack, size=1, signed=True)", "C20.R2")
M("C20", "pack-be-little", U, 'pack_be = partial(pack, byteorder="big")', 'pack_be = partial(pack, byteorder="little")', "C20.R2")
M("C20", "pack-minimal-size-off", U, "        size = (n.bit_length() + 7) // 8\n", "        size = n.bit_length() // 8 + 1\n", "C20.R2")
M("C20", "pack-ternary-swapped", U, PACK_BODY, "    width = size if size is None else (n.bit_length() + 7) // 8\n    return int.to_bytes(n, width, byteorder, signed=signed)\n", "C20.R2")
M("C20", "pack-signed-hardwired", U, "    return n.to_bytes(size, byteorder=byteorder, signed=signed)\n", "    return n.to_bytes(size, byteorder=byteorder, signed=True)\n", "C20.R2")
M("C20", "unpack-tail-instead-of-head", U, UNPACK_RET, "    return int.from_bytes(data[size:], byteorder=byteorder, signed=signed)\n", "C20.R2")
M("C20", "unpack-default-big", U, 'def unpack(data: bytes, size: int = None, byteorder="little", signed=False) -> int:', 'def unpack(data: bytes, size: int = None, byteorder="big", signed=False) -> int:', "C20.R2")
M("C20", "unpack-positional-order-dropped", U, UNPACK_RET, "    return int.from_bytes(data[:size], signed=signed)\n", "C20.R2")

# ============================================================================================================ R3 checksum8 / classifiers
T("C20", "twin-checksum-le3-filter-mask", U, C8_BODY, '    if len(text) <= 3:\n        return 0\n    return sum(ord(ch) for ch in text if ch != "/") & 0xFF\n')
T("C20", "twin-checksum-ternary", U, C8_BODY, '    return 0 if len(text) < 4 else sum(map(ord, text.replace("/", ""))) % 256\n')
T("C20", "twin-checksum-inverted-guard", U, C8_BODY, '    if len(text) >= 4:\n        stripped = text.replace("/", "")\n        return sum([ord(c) for c in stripped]) % 0x100\n    return 0\n')
T("C20", "twin-x86-temp-mirrored", U, X86_RET, "    value = checksum8(uri)\n    return 92 == value\n")
T("C20", "twin-x86-double-negation", U, X86_RET, "    return not checksum8(uri) != 92\n")

M("C20", "checksum-guard-le4", U, "    if len(text) < 4:\n", "    if len(text) <= 4:\n", "C20.R3")
M("C20", "checksum-guard-after-strip", U, C8_BODY, '    text = text.replace("/", "")\n    if len(text) < 4:\n        return 0\n    return sum(map(ord, text)) % 256\n', "C20.R3")
M("C20", "checksum-no-slash-strip", U, '    text = text.replace("/", "")\n', "", "C20.R3")
M("C20", "checksum-filter-form-mod-127", U, C8_BODY, '    if len(text) <= 3:\n        return 0\n    return sum(ord(ch) for ch in text if ch != "/") & 0x7F\n', "C20.R3")
M("C20", "checksum-short-returns-one", U, "    if len(text) < 4:\n        return 0\n", "    if len(text) < 4:\n        return 1\n", "C20.R3")
M("C20", "x86-ge", U, X86_RET, "    return checksum8(uri) >= 92\n", "C20.R3")
M("C20", "x86-on-path-without-slash", U, X86_RET, "    return checksum8(uri[1:]) == 92\n", "C20.R3")

# ============================================================================================================ R4 random_stager_uri
LOOP_CONTINUE = (
    '    while True:\n        candidate = "/" + "".join(random.choice(chars) for _ in range(length))\n'
    "        if not is_stager(candidate):\n            continue\n        return candidate\n"
)
LOOP_BREAK = (
    '    while True:\n        uri = "/" + "".join(random.choice(chars) for _ in range(length))\n'
    "        if is_stager(uri):\n            break\n    return uri\n"
)
LOOP_WHILE_NOT = (
    '    uri = "/" + "".join(random.choices(chars, k=length))\n    while not is_stager(uri):\n'
    '        uri = "/" + "".join(random.choices(chars, k=length))\n    return uri\n'
)
LOOP_DIRECT = (
    '    while True:\n        uri = "/" + "".join(random.choice(chars) for _ in range(length))\n'
    "        if x64:\n            ok = is_stager_x64(uri)\n        else:\n            ok = is_stager_x86(uri)\n        if ok:\n            return uri\n"
)
T("C20", "twin-rsu-continue", U, RSU_LOOP, LOOP_CONTINUE)
T("C20", "twin-rsu-break-then-return", U, RSU_LOOP, LOOP_BREAK)
T("C20", "twin-rsu-while-not", U, RSU_LOOP, LOOP_WHILE_NOT)
T("C20", "twin-rsu-direct-dispatch", U, "", "", edits=[(U, RSU_SEL, ""), (U, RSU_LOOP, LOOP_DIRECT)])
T("C20", "twin-rsu-alphabet-spelled", U, RSU_CHARS, "    chars = string.digits + string.ascii_lowercase + string.ascii_uppercase\n")
T("C20", "twin-rsu-fstring", U, 'uri = "/" + "".join(random.choice(chars) for _ in range(length))', 'uri = f"/{\'\'.join([random.choice(chars) for _ in range(0, length)])}"')
T("C20", "twin-rsu-guards-reordered", U, RSU_PRE,
  '    if length <= 2:\n        raise ValueError("length must be at least 3 chars")\n    if x64:\n        if not length == 4:\n            raise ValueError("length must be exactly 4 for x64 stager uris")\n')

M("C20", "rsu-returns-fresh-candidate", U, "        if is_stager(uri):\n            return uri\n",
  '        if is_stager(uri):\n            return "/" + "".join(random.choice(chars) for _ in range(length))\n', "C20.R4")
M("C20", "rsu-classifier-swapped", U, RSU_SEL, "    is_stager = is_stager_x86 if x64 else is_stager_x64\n", "C20.R4")
M("C20", "rsu-direct-dispatch-swapped", U, "", "", "C20.R4", edits=[(U, RSU_SEL, ""), (U, RSU_LOOP, LOOP_DIRECT.replace("if x64:", "if not x64:"))])
M("C20", "rsu-continue-with-escape", U, RSU_LOOP, LOOP_CONTINUE.replace("if not is_stager(candidate):", "if not is_stager(candidate) and length < 9:"), "C20.R4")
M("C20", "rsu-break-on-failure", U, RSU_LOOP, LOOP_BREAK.replace("if is_stager(uri):", "if not is_stager(uri):"), "C20.R4")
M("C20", "rsu-length-guard-2", U, "    if length < 3:\n", "    if length < 2:\n", "C20.R4")
M("C20", "rsu-x64-any-length", U, "    if x64 and length != 4:\n", "    if x64 and length < 4:\n", "C20.R4")
M("C20", "rsu-alphabet-punctuation", U, RSU_CHARS, '    chars = string.ascii_letters + string.digits + "-_"\n', "C20.R4")
M("C20", "rsu-one-char-short", U, "for _ in range(length))", "for _ in range(length - 1))", "C20.R4")
M("C20", "rsu-no-slash", U, 'uri = "/" + "".join(', 'uri = "" + "".join(', "C20.R4")

# ============================================================================================================ R5 staged beacon gate
T("C20", "twin-gate-else-return", P, GATE, GATE_ELSE)
T("C20", "twin-gate-demorgan-early-return", P, GATE, GATE_DEMORGAN)
T("C20", "twin-gate-known-flag-boolean-temp", P, GATE, GATE_NESTED)
T("C20", "twin-gate-is-not-none", P, "        if response.request:\n", "        if response.request is not None and response.request:\n")

M("C20", "gate-else-falls-through", P, GATE, GATE_ELSE.replace("            else:\n                return None\n", ""), "C20.R5")
M("C20", "gate-demorgan-extra-disjunct", P, GATE, GATE_DEMORGAN.replace("utils.is_stager_x64(uri)):", 'utils.is_stager_x64(uri) or uri.endswith("/")):'), "C20.R5")
M("C20", "gate-only-for-slash-uris", P, "        if response.request:\n", '        if response.request and response.request.uri.startswith(b"/"):\n', "C20.R5")
M("C20", "gate-checks-response-body-uri", P, GATE, GATE_ELSE.replace("uri = request.uri.decode", "uri = response.body[:5].decode"), "C20.R5")
M("C20", "gate-non-stager-returns-config", P, GATE, GATE_ELSE.replace("                return None\n", "                return self.bconfig\n"), "C20.R5")
M("C20", "gate-boolean-temp-or-short", P, GATE, GATE_NESTED.replace("stager = x86 or utils.is_stager_x64(uri)", "stager = x86 or utils.is_stager_x64(uri) or len(uri) < 4"), "C20.R5")
M("C20", "extract-from-request-body", P, "BeaconConfig.from_bytes(response.body)", "BeaconConfig.from_bytes(response.request.body if response.request else response.body)", "C20.R5")

# ============================================================================================================ R6 NetBIOS
ENC_DIVMOD = "    out = bytearray()\n    for value in bytes(data):\n        hi, lo = divmod(value, 16)\n        out += bytes((hi + offset, lo + offset))\n    return bytes(out)\n"
ENC_EXTEND = "    symbols = []\n    for c in data:\n        symbols.extend([(c >> 4) + offset, offset + (c % 16)])\n    return bytes(symbols)\n"
DEC_HALF = "    return bytes((data[2 * k] - offset) * 16 + (data[2 * k + 1] - offset) for k in range(len(data) // 2))\n"
DEC_ZIP = "    return bytes([((hi - offset) << 4) | (lo - offset) for hi, lo in zip(data[::2], data[1::2])])\n"
T("C20", "twin-netbios-comprehensions", U, "", "", edits=[(U, ENC_BODY, ENC_COMP), (U, DEC_BODY, DEC_COMP)])
T("C20", "twin-netbios-divmod-bytearray", U, ENC_BODY, ENC_DIVMOD)
T("C20", "twin-netbios-extend-mod", U, ENC_BODY, ENC_EXTEND)
T("C20", "twin-netbios-decoder-half-range", U, DEC_BODY, DEC_HALF)
T("C20", "twin-netbios-decoder-zip", U, DEC_BODY, DEC_ZIP)
T("C20", "twin-netbios-decoder-view", U, DEC_BODY, "    data = bytes(data)\n" + DEC_BODY)

M("C20", "netbios-comp-nibbles-swapped", U, "", "", "C20.R6", edits=[(U, ENC_BODY, ENC_COMP.replace("(c >> 4, c & 0x0F)", "(c & 0x0F, c >> 4)")), (U, DEC_BODY, DEC_COMP)])
M("C20", "netbios-comp-decoder-shift", U, "", "", "C20.R6", edits=[(U, ENC_BODY, ENC_COMP), (U, DEC_BODY, DEC_COMP.replace("<< 4", "<< 3"))])
M("C20", "netbios-comp-decoder-offset-once", U, DEC_BODY, DEC_COMP.replace("(data[i + 1] - offset)", "data[i + 1]"), "C20.R6")
M("C20", "netbios-decoder-stride-one", U, "    for i in range(0, len(data), 2):\n", "    for i in range(0, len(data) - 1):\n", "C20.R6")
M("C20", "netbios-decoder-half-range-overlap", U, DEC_BODY, DEC_HALF.replace("data[2 * k + 1]", "data[k + 1]"), "C20.R6")
M("C20", "netbios-decoder-zip-swapped", U, DEC_BODY, DEC_ZIP.replace("zip(data[::2], data[1::2])", "zip(data[1::2], data[::2])"), "C20.R6")
M("C20", "netbios-encoder-low-without-offset", U, "        b = (c & 0x0F) + offset\n", "        b = c & 0x0F\n", "C20.R6")
M("C20", "netbios-encoder-mask-7", U, ENC_BODY, ENC_EXTEND.replace("c % 16", "c % 8"), "C20.R6")
M("C20", "netbios-encoder-reversed-data", U, "    for c in bytearray(data):\n", "    for c in bytearray(data[::-1]):\n", "C20.R6")
M("C20", "netbios-encoder-offset-masked", U, ENC_BODY, "    offset = offset & 0x5F\n" + ENC_BODY, "C20.R6")
M("C20", "netbios-decoder-default-offset", U, "def netbios_decode(data: bytes, offset: int = 0x41) -> bytes:", "def netbios_decode(data: bytes, offset: int = 0x61) -> bytes:", "C20.R6")
M("C20", "netbios-decoder-upper-cased", U, DEC_BODY, "    data = bytes(data).upper()\n" + DEC_BODY, "C20.R6")
M("C20", "gate-classifies-lowercased-uri", P, 'uri = response.request.uri.decode("ascii", errors="ignore")', 'uri = response.request.uri.decode("ascii", errors="ignore").lower()', "C20.R5")
M("C20", "gate-classifies-uri-without-query-char", P, GATE, GATE_ELSE.replace('uri = request.uri.decode("ascii", errors="ignore")', 'uri = request.uri.decode("ascii", errors="ignore").split("?")[0]'), "C20.R5")
T("C20", "twin-gate-str-decode", P, 'uri = response.request.uri.decode("ascii", errors="ignore")', 'uri = str(response.request.uri, "ascii", "ignore")')
HELPER_GATE = (
    "    def _is_stager_request(self, request) -> bool:\n"
    '        uri = request.uri.decode("ascii", errors="ignore")\n'
    "        return utils.is_stager_x86(uri) or utils.is_stager_x64(uri)\n\n"
)
T("C20", "twin-gate-helper-method", P, "", "", edits=[
    (P, "    def find_staged_beacon(", HELPER_GATE + "    def find_staged_beacon("),
    (P, GATE, "        if response.request and not self._is_stager_request(response.request):\n            return None\n")])
M("C20", "gate-helper-method-x86-or-short", P, "", "", "C20.R5", edits=[
    (P, "    def find_staged_beacon(", HELPER_GATE.replace("utils.is_stager_x64(uri)", "utils.is_stager_x64(uri) or len(uri) < 4") + "    def find_staged_beacon("),
    (P, GATE, "        if response.request and not self._is_stager_request(response.request):\n            return None\n")])
T("C20", "twin-rsu-alphabet-module-constant", U, "", "", edits=[
    (U, "def random_stager_uri(", "_URI_CHARS = string.ascii_letters + string.digits\n\n\ndef random_stager_uri("), (U, RSU_CHARS, ""), (U, "random.choice(chars)", "random.choice(_URI_CHARS)")])
T("C20", "twin-rsu-walrus-loop", U, RSU_LOOP, '    while not is_stager(uri := "/" + "".join(random.choice(chars) for _ in range(length))):\n        pass\n    return uri\n')
T("C20", "twin-xor-divmod-tiling", U, XOR_TILE, "    reps, _rest = divmod(size, len(key))\n    key = (key * (reps + 1))[:size]\n")
M("C20", "xor-identity-mod-256", U, XOR_GUARD, "    if sum(key) % 256 == 0:\n        return data\n", "C20.R1")
M("C20", "xor-zero-key-returns-empty", U, XOR_GUARD, '    if sum(key) == 0:\n        return b""\n', "C20.R1")
M("C20", "xor-signed-conversion", U, XOR_RET, XOR_RET.replace('size, "little")', 'size, "little", signed=True)'), "C20.R1")
M("C20", "checksum-first-slash-only", U, 'text = text.replace("/", "")', 'text = text.replace("/", "", 1)', "C20.R3")
M("C20", "unpack-ignores-signed", U, UNPACK_RET, "    return int.from_bytes(data[:size], byteorder=byteorder, signed=False)\n", "C20.R2")
T("C20", "twin-netbios-decoder-helper-call", U, "", "", edits=[
    (U, "def netbios_decode(", "def _nibble(symbol: int, offset: int) -> int:\n    return symbol - offset\n\n\ndef netbios_decode("),
    (U, DEC_BODY, "    out = []\n    for i in range(0, len(data), 2):\n        out.append((_nibble(data[i], offset) << 4) + _nibble(data[i + 1], offset))\n    return bytes(out)\n")])
XOR_TRY = "    size = len(data)\n    try:\n        key = (key * (size // len(key) + 1))[:size]\n    except ZeroDivisionError:\n        return data\n"
T("C20", "twin-xor-try-zerodivision", U, XOR_BODY, XOR_TRY + XOR_RET)
M("C20", "xor-try-zerodivision-short-tiling", U, XOR_BODY, XOR_TRY.replace(" + 1))", "))") + XOR_RET, "C20.R1")
RSU_REC = '    uri = "/" + "".join(random.choice(chars) for _ in range(length))\n    if is_stager(uri):\n        return uri\n    return random_stager_uri(x64=x64, length=length)\n'
RSU_NEXT = '    candidates = ("/" + "".join(random.choice(chars) for _ in range(length)) for _ in itertools.count())\n    return next(u for u in candidates if is_stager(u))\n'
T("C20", "twin-rsu-recursive-retry", U, RSU_LOOP, RSU_REC)
T("C20", "twin-rsu-next-filtered-generator", U, RSU_LOOP, RSU_NEXT)
M("C20", "rsu-recursive-retry-other-arch", U, RSU_LOOP, RSU_REC.replace("x64=x64", "x64=False"), "C20.R4")
M("C20", "rsu-next-filtered-wrong-classifier", U, RSU_LOOP, RSU_NEXT.replace("if is_stager(u)", "if is_stager_x86(u)"), "C20.R4")
M("C20", "rsu-next-unfiltered", U, RSU_LOOP, RSU_NEXT.replace(" if is_stager(u)", ""), "C20.R4")
T("C20", "twin-netbios-decoder-empty-shortcut", U, DEC_BODY, '    if not data:\n        return b""\n' + DEC_BODY)
M("C20", "netbios-decoder-empty-shortcut-then-shift", U, DEC_BODY, '    if not data:\n        return b""\n' + DEC_BODY.replace("<< 4", "<< 5"), "C20.R6")

# ============================================================================================================ algebraic forms
# (the side conditions are decided by normal forms, interval sets, the abstract key domain and the regex parse tree - these
# entries pin the recognised forms, a located-but-wrong form next to each, and spellings that must stay undecided)
T("C20", "twin-xor-tiling-two-extra", U, "        key = key * ((size // len(key)) + 1)\n", "        key = key * (size // len(key) + 2)\n")
T("C20", "twin-xor-shortcut-len-or-any", U, XOR_GUARD, "    if len(key) == 0 or not any(key):\n        return data\n")
T("C20", "twin-xor-shortcut-count-undecided", U, XOR_GUARD, "    if key.count(0) == len(key):\n        return data\n")
M("C20", "xor-cut-to-key-length", U, "    key = key[:size]\n", "    key = key[: len(key)]\n", "C20.R1")
M("C20", "xor-elementwise-index-mod-data", U, XOR_BODY, XOR_GUARD + "    return bytes(data[i] ^ key[i] for i in range(len(data)))\n".replace("key[i]", "key[i % len(data)]"), "C20.R1")
T("C20", "twin-xor-elementwise-index-mod", U, XOR_BODY, XOR_GUARD + "    return bytes(data[i] ^ key[i % len(key)] for i in range(len(data)))\n")
T("C20", "twin-pack-seven-plus", U, "        size = (n.bit_length() + 7) // 8\n", "        size = (7 + n.bit_length()) // 8\n")
M("C20", "pack-eight-plus", U, "        size = (n.bit_length() + 7) // 8\n", "        size = (n.bit_length() + 8) // 8\n", "C20.R2")
T("C20", "twin-checksum-guard-mirrored-not", U, "    if len(text) < 4:\n", "    if not 4 <= len(text):\n")
M("C20", "checksum-guard-gap", U, "    if len(text) < 4:\n        return 0\n", "    if len(text) < 4:\n        return 0\n    if len(text) == 6:\n        return 0\n", "C20.R3")
T("C20", "twin-rsu-range-from-one", U, "for _ in range(length))", "for _ in range(1, length + 1))")
M("C20", "rsu-range-from-one-short", U, "for _ in range(length))", "for _ in range(1, length))", "C20.R4")
T("C20", "twin-netbios-encoder-floor-div", U, "", "", edits=[(U, "        a = ((c & 0xF0) >> 4) + offset\n", "        a = offset + c // 16\n"), (U, "        b = (c & 0x0F) + offset\n", "        b = (15 & c) + offset\n")])
M("C20", "netbios-encoder-mask-e0", U, "        a = ((c & 0xF0) >> 4) + offset\n", "        a = ((c & 0xE0) >> 4) + offset\n", "C20.R6")
M("C20", "netbios-encoder-shift-3", U, "        a = ((c & 0xF0) >> 4) + offset\n", "        a = (c >> 3) + offset\n", "C20.R6")
T("C20", "twin-netbios-decoder-expanded-polynomial", U, DEC_BODY, "    return bytes([16 * data[i] + data[i + 1] - 17 * offset for i in range(0, len(data), 2)])\n")
M("C20", "netbios-decoder-expanded-polynomial-16", U, DEC_BODY, "    return bytes([16 * data[i] + data[i + 1] - 16 * offset for i in range(0, len(data), 2)])\n", "C20.R6")
M("C20", "netbios-decoder-full-range", U, DEC_BODY, DEC_HALF.replace("range(len(data) // 2)", "range(len(data))"), "C20.R6")
T("C20", "twin-netbios-decoder-shift-range", U, DEC_BODY, DEC_HALF.replace("range(len(data) // 2)", "range(len(data) >> 1)"))

# ============================================================================================================ wave 2
# ---- R7: pack() is total on the range representable at the width (raise paths read as symbolic interval regions)
PACK_SIZE_NONE = "    if size is None:\n        size = (n.bit_length() + 7) // 8\n"
PACK_CHECKED = (
    PACK_SIZE_NONE + "    else:\n        limit = 1 << (size * 8)\n"
    "        fits = -(limit >> 1) <= n < (limit >> 1) if signed else 0 <= n < limit\n"
    '        if not fits:\n            raise OverflowError(f"{n:#x} does not fit in {size} byte(s)")\n'
    "    return n.to_bytes(size, byteorder=byteorder, signed=signed)\n"
)
PACK_CHECKED_LOHI = (
    "    if size is not None:\n"
    "        lo, hi = (-(2 ** (8 * size - 1)), 2 ** (8 * size - 1) - 1) if signed else (0, 256 ** size - 1)\n"
    '        if n < lo or n > hi:\n            raise OverflowError("value out of range for the requested width")\n'
    "    else:\n        size = (n.bit_length() + 7) // 8\n"
    "    return n.to_bytes(size, byteorder=byteorder, signed=signed)\n"
)
T("C20", "twin-pack-range-check-exact", U, PACK_BODY, PACK_CHECKED)
T("C20", "twin-pack-range-check-lo-hi-powers", U, PACK_BODY, PACK_CHECKED_LOHI)
T("C20", "twin-pack-rejects-negative-unsigned", U, PACK_BODY, '    if n < 0 and not signed:\n        raise OverflowError("cannot pack a negative integer unsigned")\n' + PACK_BODY)
T("C20", "twin-pack-rejects-unknown-byteorder", U, PACK_BODY, '    if byteorder not in ("little", "big"):\n        raise ValueError("byteorder must be little or big")\n' + PACK_BODY)
T("C20", "twin-pack-range-check-bit-length-undecided", U, PACK_BODY,
  '    if size is not None and not signed and n.bit_length() > size * 8:\n        raise OverflowError("int too big to convert")\n' + PACK_BODY)
M("C20", "pack-range-check-unsigned-excludes-zero", U, PACK_BODY, PACK_CHECKED.replace("0 <= n < limit", "0 < n < limit"), "C20.R7")
M("C20", "pack-range-check-signed-max-excluded", U, PACK_BODY, PACK_CHECKED_LOHI.replace("n > hi", "n >= hi"), "C20.R7")
M("C20", "pack-range-check-signed-uses-unsigned-half", U, PACK_BODY, PACK_CHECKED_LOHI.replace("(0, 256 ** size - 1)", "(0, 2 ** (8 * size - 1) - 1)"), "C20.R7")
M("C20", "pack-asserts-positive", U, PACK_BODY, '    assert signed or n > 0, "unsigned packing needs a positive integer"\n' + PACK_BODY, "C20.R7")

# ---- R4: sentinel-controlled retry loops (the value carried out of a `while` is the term its last iteration assigned)
LOOP_SENTINEL = (
    '    found = ""\n    while not found:\n        attempt = "/" + "".join([random.choice(chars) for _ in range(length)])\n'
    "        if is_stager(attempt):\n            found = attempt\n    return found\n"
)
LOOP_FLAG = (
    '    done = False\n    while not done:\n        uri = "/" + "".join(random.choice(chars) for _ in range(length))\n'
    "        done = is_stager(uri)\n    return uri\n"
)
T("C20", "twin-rsu-sentinel-loop", U, RSU_LOOP, LOOP_SENTINEL)
T("C20", "twin-rsu-done-flag-loop", U, RSU_LOOP, LOOP_FLAG)
T("C20", "twin-rsu-sentinel-loop-if-else-selection", U, "", "", edits=[
    (U, RSU_SEL, "    if x64:\n        is_stager = is_stager_x64\n    else:\n        is_stager = is_stager_x86\n"), (U, RSU_LOOP, LOOP_SENTINEL)])
M("C20", "rsu-sentinel-loop-keeps-failures", U, RSU_LOOP, LOOP_SENTINEL.replace("if is_stager(attempt):", "if not is_stager(attempt):"), "C20.R4")
M("C20", "rsu-sentinel-loop-fresh-value", U, RSU_LOOP, LOOP_SENTINEL.replace("            found = attempt\n", '            found = "/" + "".join([random.choice(chars) for _ in range(length)])\n'), "C20.R4")
M("C20", "rsu-done-flag-loop-or-long", U, RSU_LOOP, LOOP_FLAG.replace("done = is_stager(uri)", "done = is_stager(uri) or length > 8"), "C20.R4")
M("C20", "rsu-sentinel-loop-one-char-short", U, RSU_LOOP, LOOP_SENTINEL.replace("range(length)", "range(length - 1)"), "C20.R4")

# ---- R3: summing loops are read as sum(..)
C8_LOOP = '    if len(text) < 4:\n        return 0\n    acc = 0\n    for ch in text.replace("/", ""):\n        acc = acc + ord(ch)\n    return acc % 256\n'
C8_LOOP_FILTER = '    if len(text) < 4:\n        return 0\n    acc = 0\n    for ch in text:\n        if ch != "/":\n            acc += ord(ch)\n    return acc & 0xFF\n'
T("C20", "twin-checksum-accumulator-loop", U, C8_BODY, C8_LOOP)
T("C20", "twin-checksum-accumulator-loop-filter", U, C8_BODY, C8_LOOP_FILTER)
M("C20", "checksum-accumulator-loop-keeps-slash", U, C8_BODY, C8_LOOP.replace('text.replace("/", "")', "text"), "C20.R3")
M("C20", "checksum-accumulator-loop-filter-backslash", U, C8_BODY, C8_LOOP_FILTER.replace('ch != "/"', 'ch != "\\\\"'), "C20.R3")
M("C20", "checksum-accumulator-loop-mod-255", U, C8_BODY, C8_LOOP.replace("acc % 256", "acc % 255"), "C20.R3")
M("C20", "checksum-accumulator-loop-starts-at-one", U, C8_BODY, C8_LOOP.replace("acc = 0\n", "acc = 1\n"), "C20.R3")

# ============================================================================================================ wave 3
# ---- R1: block-wise xor.  A piece that reads only its slice and the key (not where the slice starts) restarts the key at
# its first byte, so every slice must start at a multiple of len(key); a position-aware piece must rotate the key by
# start % len(key); consecutive slices must tile the data.  Stateful iterators / unknown strides stay undecided.
BLK_HELPER = "def _xor_small(data: bytes, key: bytes) -> bytes:\n    size = len(data)\n" + XOR_TILE + XOR_RET + "\n\n"
BLK_LOOP = (
    XOR_GUARD + "    out = bytearray()\n    for start in range(0, len(data), 4096):\n"
    "        out += _xor_small(data[start : start + 4096], key)\n    return bytes(out)\n"
)
BLK_INLINE = (
    XOR_GUARD + '    out = b""\n    for start in range(0, len(data), 8192):\n        chunk = data[start : start + 8192]\n'
    "        stream = (key * (len(chunk) // len(key) + 1))[: len(chunk)]\n"
    '        out += int.to_bytes(int.from_bytes(chunk, "little") ^ int.from_bytes(stream, "little"), len(chunk), "little")\n    return out\n'
)
BLK_RECURSIVE = XOR_GUARD + "    if len(data) > 1024:\n        return xor(data[:1024], key) + xor(data[1024:], key)\n"
BLK_STRIDE = (
    XOR_GUARD + "    step = 1024 * len(key)\n"
    '    return b"".join(_xor_small(data[o : o + step], key) for o in range(0, len(data), step))\n'
)
BLK_ROTATED = (
    XOR_GUARD + "    pieces = []\n    for start in range(0, len(data), 4096):\n        r = start % len(key)\n"
    '        pieces.append(_xor_small(data[start : start + 4096], key[r:] + key[:r]))\n    return b"".join(pieces)\n'
)
BLK_ROUNDED = (
    XOR_GUARD + "    step = max(len(key), 65536 - 65536 % len(key))\n"
    '    return b"".join([_xor_small(data[o : o + step], key) for o in range(0, len(data), step)])\n'
)
BLK_CYCLE = (
    XOR_GUARD + "    stream = itertools.cycle(key)\n"
    '    return b"".join(bytes(b ^ next(stream) for b in data[o : o + 4096]) for o in range(0, len(data), 4096))\n'
)
M("C20", "xor-blocks-accumulator-loop-key-restarts", U, "", "", "C20.R1", edits=[(U, XOR_DEF, BLK_HELPER + XOR_DEF), (U, XOR_BODY, BLK_LOOP)])
M("C20", "xor-blocks-inline-pieces-key-restarts", U, XOR_BODY, BLK_INLINE, "C20.R1")
M("C20", "xor-head-tail-recursion-key-restarts", U, XOR_GUARD, BLK_RECURSIVE, "C20.R1")
M("C20", "xor-blocks-one-byte-gap", U, "", "", "C20.R1", edits=[(U, XOR_DEF, BLK_HELPER + XOR_DEF), (U, XOR_BODY, BLK_STRIDE.replace("data[o : o + step]", "data[o : o + step - 1]"))])
M("C20", "xor-blocks-helper-short-tiling", U, "", "", "C20.R1", edits=[(U, XOR_DEF, BLK_HELPER.replace(" + 1)", ")") + XOR_DEF), (U, XOR_BODY, BLK_STRIDE)])
T("C20", "twin-xor-blocks-stride-multiple-of-key-length", U, "", "", edits=[(U, XOR_DEF, BLK_HELPER + XOR_DEF), (U, XOR_BODY, BLK_STRIDE)])
T("C20", "twin-xor-blocks-rotated-key", U, "", "", edits=[(U, XOR_DEF, BLK_HELPER + XOR_DEF), (U, XOR_BODY, BLK_ROTATED)])
T("C20", "twin-xor-blocks-stride-rounded-down-undecided", U, "", "", edits=[(U, XOR_DEF, BLK_HELPER + XOR_DEF), (U, XOR_BODY, BLK_ROUNDED)])
T("C20", "twin-xor-blocks-shared-cycle-iterator-undecided", U, XOR_BODY, BLK_CYCLE)

# ---- R2: a returning path of unpack / pack that reads neither `signed` nor `byteorder` is only right where the conversion
# does not depend on them (empty chunk; one byte for the byte order)
M("C20", "unpack-two-byte-fast-path-ignores-order-and-sign", U, UNPACK_RET, "    if size == 2 and len(data) >= 2:\n        return data[0] | (data[1] << 8)\n" + UNPACK_RET, "C20.R2")
M("C20", "unpack-single-byte-data-shortcut-ignores-sign", U, UNPACK_RET, "    if len(data) == 1:\n        return data[0]\n" + UNPACK_RET, "C20.R2")
M("C20", "pack-two-byte-fast-path-ignores-order", U, PACK_BODY, "    if size == 2 and not signed:\n        return bytes((n & 0xFF, (n >> 8) & 0xFF))\n" + PACK_BODY, "C20.R2")
T("C20", "twin-unpack-empty-data-shortcut", U, UNPACK_RET, "    if not data:\n        return 0\n" + UNPACK_RET)
T("C20", "twin-unpack-unsigned-byte-fast-path", U, UNPACK_RET, "    if size == 1 and not signed and data:\n        return data[0]\n" + UNPACK_RET)
T("C20", "twin-pack-small-byte-fast-path", U, PACK_BODY, "    if size == 1 and 0 <= n < 128:\n        return bytes((n,))\n" + PACK_BODY)
T("C20", "twin-unpack-signed-branches", U, UNPACK_RET,
  "    if signed:\n        return int.from_bytes(data[:size], byteorder, signed=True)\n    return int.from_bytes(data[:size], byteorder)\n")
M("C20", "xor-blocks-rotated-key-off-by-one", U, "", "", "C20.R1", edits=[(U, XOR_DEF, BLK_HELPER + XOR_DEF), (U, XOR_BODY, BLK_ROTATED.replace("r = start % len(key)", "r = (start + 1) % len(key)"))])
T("C20", "twin-xor-blocks-rotated-key-plus-whole-periods", U, "", "", edits=[(U, XOR_DEF, BLK_HELPER + XOR_DEF), (U, XOR_BODY, BLK_ROTATED.replace("r = start % len(key)", "r = (start + 3 * len(key)) % len(key)"))])
BLK_ONE_BYTE_KEY = "    if len(key) == 1 and len(data) > 4096:\n        return b\"\".join(xor(data[o : o + 4096], key) for o in range(0, len(data), 4096))\n"
T("C20", "twin-xor-blocks-only-for-one-byte-keys-undecided", U, XOR_GUARD, XOR_GUARD + BLK_ONE_BYTE_KEY)
M("C20", "xor-blocks-for-keys-shorter-than-data", U, XOR_GUARD, XOR_GUARD + BLK_ONE_BYTE_KEY.replace("len(key) == 1", "len(key) < len(data)"), "C20.R1")
T("C20", "twin-unpack-one-byte-fast-path-fixed-order", U, UNPACK_RET, '    if size == 1:\n        return int.from_bytes(data[:1], "big", signed=signed)\n' + UNPACK_RET)
M("C20", "unpack-two-byte-fast-path-fixed-order", U, UNPACK_RET, '    if size == 2:\n        return int.from_bytes(data[:2], "big", signed=signed)\n' + UNPACK_RET, "C20.R2")
M("C20", "unpack-fast-path-beside-broken-general-path", U, UNPACK_RET, "    if size == 1 and not signed and data:\n        return data[0]\n    return int.from_bytes(data[:size], byteorder=byteorder)\n", "C20.R2")
UNPACK_LOOP = (
    '    value = 0\n    for b in (data[:size] if byteorder == "big" else reversed(data[:size])):\n        value = (value << 8) | b\n'
    "    if signed and data[:size] and value >> (8 * len(data[:size]) - 1):\n        value -= 1 << (8 * len(data[:size]))\n    return value\n"
)
T("C20", "twin-unpack-manual-accumulation-loop-undecided", U, UNPACK_RET, UNPACK_LOOP)
M("C20", "unpack-manual-accumulation-loop-ignores-order", U, UNPACK_RET, UNPACK_LOOP.replace('(data[:size] if byteorder == "big" else reversed(data[:size]))', "reversed(data[:size])"), "C20.R2")
BLK_SPLIT_ROT = XOR_GUARD + "    if len(data) > 1024:\n        r = 1024 % len(key)\n        return xor(data[:1024], key) + xor(data[1024:], key[r:] + key[:r])\n"
T("C20", "twin-xor-head-tail-split-with-rotated-key", U, XOR_GUARD, BLK_SPLIT_ROT)
M("C20", "xor-head-tail-split-rotated-by-wrong-offset", U, XOR_GUARD, BLK_SPLIT_ROT.replace("r = 1024 % len(key)", "r = 1000 % len(key)"), "C20.R1")

# ============================================================================================================ wave 5
# ---- R5: what find_staged_beacon() hands back on a path that a known request takes WITHOUT a positive stager test of its URI
# must not be the result of an extraction made for another response: object / module state into which the function stores a
# BeaconConfig.from_* result (or into which the caller stores what the function returned) may only be returned behind the
# gate.  (seeded C20i: sha1(body) -> config LRU consulted before the gate; the entries below are other memoisations.)
RET_CONFIG = "        return config\n"
INIT_ANCHOR = "        self.extract_beacons = extract_beacons\n"
MEMO_LOOKUP = "        digest = hashlib.sha1(response.body).digest()\n        if digest in self.scanned_payloads:\n            return self.scanned_payloads[digest]\n"
MEMO_EDITS = [
    (P, "import logging\n", "import hashlib\nimport logging\n"),
    (P, INIT_ANCHOR, INIT_ANCHOR + "        self.scanned_payloads = LRUDict(maxsize=32)\n"),
    (P, RET_CONFIG, "        self.scanned_payloads[digest] = config\n" + RET_CONFIG),
]
M("C20", "gate-bypassed-once-a-config-is-known", P, GATE, "        if self.bconfig is not None:\n            return self.bconfig\n" + GATE, "C20.R5")
M("C20", "gate-bypassed-by-last-body-memo", P, "", "", "C20.R5", edits=[
    (P, INIT_ANCHOR, INIT_ANCHOR + "        self.last_body = None\n        self.last_config = None\n"),
    (P, GATE, "        if self.last_body is not None and response.body == self.last_body:\n            return self.last_config\n" + GATE),
    (P, RET_CONFIG, "        self.last_body, self.last_config = response.body, config\n" + RET_CONFIG)])
M("C20", "gate-bypassed-by-module-level-memo-get", P, "", "", "C20.R5", edits=[
    (P, "class BeaconCapture:\n", "_SCANNED = {}\n\n\nclass BeaconCapture:\n"),
    (P, GATE, "        cached = _SCANNED.get(response.body)\n        if cached is not None:\n            return cached\n" + GATE),
    (P, RET_CONFIG, "        _SCANNED[response.body] = config\n" + RET_CONFIG)])
M("C20", "gate-bypassed-by-memo-inside-known-request-branch", P, "", "", "C20.R5", edits=MEMO_EDITS + [
    (P, "        if response.request:\n            is_stager = False\n", "        digest = hashlib.sha1(response.body).digest()\n        if response.request:\n            if digest in self.scanned_payloads:\n                return self.scanned_payloads[digest]\n            is_stager = False\n")])
M("C20", "gate-bypassed-by-memo-through-local-alias", P, "", "", "C20.R5", edits=[
    (P, "import logging\n", "import hashlib\nimport logging\n"),
    (P, INIT_ANCHOR, INIT_ANCHOR + "        self.scanned_payloads = {}\n"),
    (P, GATE, "        seen = self.scanned_payloads\n        digest = hashlib.sha1(response.body).digest()\n        hit = seen.get(digest)\n        if hit is not None:\n            return hit\n" + GATE),
    (P, RET_CONFIG, "        seen[digest] = config\n" + RET_CONFIG)])
T("C20", "twin-memo-consulted-behind-the-gate", P, "", "", edits=MEMO_EDITS + [(P, GATE, GATE + MEMO_LOOKUP)])
T("C20", "twin-negative-cache-before-the-gate", P, "", "", edits=[
    (P, INIT_ANCHOR, INIT_ANCHOR + "        self.not_beacons = set()\n"),
    (P, GATE, "        if response.body in self.not_beacons:\n            return None\n" + GATE),
    (P, "        except ValueError:\n            config = None\n", "        except ValueError:\n            config = None\n            self.not_beacons.add(response.body)\n")])
T("C20", "twin-memo-keyed-by-uri-and-body-undecided", P, "", "", edits=[
    (P, INIT_ANCHOR, INIT_ANCHOR + "        self.scanned = {}\n"),
    (P, GATE, "        key = (response.request.uri if response.request else None, response.body)\n        if key in self.scanned:\n            return self.scanned[key]\n" + GATE),
    (P, RET_CONFIG, "        self.scanned[key] = config\n" + RET_CONFIG)])
T("C20", "twin-result-local-initialised-none", P, "", "", edits=[
    (P, "        try:\n            config = BeaconConfig.from_bytes(response.body)\n", "        config = None\n        try:\n            config = BeaconConfig.from_bytes(response.body)\n"),
    (P, "        except ValueError:\n            config = None\n", "        except ValueError:\n            pass\n")])

# ---- R3: the x64 shape test has to constrain the WHOLE URI (L28).  These entries are written against the REPAIRED source
# text (`re.fullmatch("/[A-Za-z0-9]{4}", uri)`, /repo fix F23); on a tree that still has `re.match("^/...$", uri)` they are stale.
X64_CALL_FM = 're.fullmatch("/[A-Za-z0-9]{4}", uri)'
X64_RET_FM = "    return bool(checksum8(uri) == 93 and " + X64_CALL_FM + ")\n"
X64_DEF = "def is_stager_x64(uri: str) -> bool:\n"
M("C20", "x64-whole-dollar-under-match", U, X64_CALL_FM, 're.match("^/[A-Za-z0-9]{4}$", uri)', "C20.R3")  # exact reversal of the repair
M("C20", "x64-whole-dollar-multiline", U, X64_CALL_FM, 're.match("^/[A-Za-z0-9]{4}$", uri, re.M)', "C20.R3")
M("C20", "x64-whole-search-unanchored", U, X64_CALL_FM, 're.search("/[A-Za-z0-9]{4}", uri)', "C20.R3")
M("C20", "x64-whole-four-or-more", U, X64_CALL_FM, 're.fullmatch("/[A-Za-z0-9]{4,}", uri)', "C20.R3")
M("C20", "x64-whole-search-dollar", U, X64_CALL_FM, 're.search("^/[A-Za-z0-9]{4}$", uri)', "C20.R3")
M("C20", "x64-whole-match-no-end-anchor", U, X64_CALL_FM, 're.match("/[A-Za-z0-9]{4}", uri)', "C20.R3")
M("C20", "x64-whole-search-end-anchor-only", U, X64_CALL_FM, 're.search(r"/[A-Za-z0-9]{4}\\Z", uri)', "C20.R3")
M("C20", "x64-whole-precompiled-dollar-match", U, "", "", "C20.R3", edits=[
    (U, X64_DEF, '_X64_URI = re.compile("/[A-Za-z0-9]{4}$")\n\n\n' + X64_DEF), (U, X64_CALL_FM, "_X64_URI.match(uri)")])
M("C20", "x64-whole-group-dollar", U, X64_CALL_FM, 're.match("(/[A-Za-z0-9]{4})$", uri)', "C20.R3")
T("C20", "twin-x64-whole-match-backslash-z", U, X64_CALL_FM, 're.match(r"/[A-Za-z0-9]{4}\\Z", uri)')
T("C20", "twin-x64-whole-precompiled-fullmatch", U, "", "", edits=[
    (U, X64_DEF, '_X64_URI = re.compile("/[0-9a-zA-Z]{4}")\n\n\n' + X64_DEF), (U, X64_RET_FM, "    return checksum8(uri) == 93 and _X64_URI.fullmatch(uri) is not None\n")])
T("C20", "twin-x64-whole-search-absolute-anchors", U, X64_CALL_FM, 're.search(r"\\A/[a-zA-Z\\d]{4}\\Z", uri, re.ASCII)')
T("C20", "twin-x64-whole-fullmatch-redundant-anchors", U, X64_CALL_FM, 're.fullmatch("^/[A-Za-z0-9]{4}$", uri)')
T("C20", "twin-x64-whole-fullmatch-multiline-flag", U, X64_CALL_FM, 're.fullmatch("/[A-Za-z0-9]{4}", uri, re.MULTILINE)')
T("C20", "twin-x64-whole-group-backslash-z", U, X64_CALL_FM, 're.match(r"(/[A-Za-z0-9]{4})\\Z", uri)')
T("C20", "twin-x64-whole-lookahead-undecided", U, X64_CALL_FM, 're.match(r"/(?=[A-Za-z0-9]{4}\\Z)[A-Za-z0-9]{4}", uri)')
T("C20", "twin-x64-whole-pattern-table-undecided", U, "", "", edits=[
    (U, X64_DEF, '_URI_SHAPES = {"x64": re.compile("/[A-Za-z0-9]{4}")}\n\n\n' + X64_DEF), (U, X64_CALL_FM, '_URI_SHAPES["x64"].fullmatch(uri)')])
T("C20", "twin-x64-whole-no-regex", U, X64_RET_FM, '    return checksum8(uri) == 93 and len(uri) == 5 and uri.startswith("/") and uri[1:].isascii() and uri[1:].isalnum()\n')
# the older x64 entries (written against `re.match("^/[A-Za-z0-9]{4}$", uri)`), restated against the repaired text
T("C20", "twin-x64-early-return-fm", U, X64_RET_FM, "    if checksum8(uri) != 93:\n        return False\n    return " + X64_CALL_FM + " is not None\n")
T("C20", "twin-x64-split-class-fm", U, X64_CALL_FM, 're.fullmatch("/[A-Za-z0-9][0-9A-Za-z]{3}", uri)')
T("C20", "twin-x64-ignorecase-ascii-fm", U, X64_CALL_FM, 're.fullmatch("/[a-z0-9]{4}", uri, re.IGNORECASE | re.ASCII)')
T("C20", "twin-x64-alternation-merged-by-parser-fm", U, X64_CALL_FM, 're.fullmatch("/(?:[A-Za-z]|[0-9]){4}", uri)')
T("C20", "twin-x64-nested-repeat-undecided-fm", U, X64_CALL_FM, 're.fullmatch("/(?:[A-Za-z0-9]{2}){2}", uri)')
M("C20", "x64-or-fm", U, X64_RET_FM, "    return bool(checksum8(uri) == 93 or " + X64_CALL_FM + ")\n", "C20.R3")
M("C20", "x64-underscore-fm", U, '[A-Za-z0-9]{4}"', '[A-Za-z0-9_]{4}"', "C20.R3")
M("C20", "x64-ignorecase-unicode-fm", U, X64_CALL_FM, 're.fullmatch("/[a-z0-9]{4}", uri, re.IGNORECASE)', "C20.R3")
M("C20", "x64-early-return-wrong-constant-fm", U, X64_RET_FM, "    if checksum8(uri) != 92:\n        return False\n    return " + X64_CALL_FM + " is not None\n", "C20.R3")
M("C20", "x64-no-pattern-fm", U, X64_RET_FM, "    return checksum8(uri) == 93 and len(uri) == 5\n", "C20.R3")
M("C20", "x64-five-chars-fm", U, '[A-Za-z0-9]{4}"', '[A-Za-z0-9]{4,5}"', "C20.R3")
M("C20", "x64-no-regex-unicode-alnum-fm", U, X64_RET_FM, '    return checksum8(uri) == 93 and len(uri) == 5 and uri.startswith("/") and uri[1:].isalnum()\n', "C20.R3")
M("C20", "x64-digit-class-unicode-fm", U, '[A-Za-z0-9]{4}"', '[A-Za-z\\\\d]{4}"', "C20.R3")
M("C20", "x64-dot-position-fm", U, '[A-Za-z0-9]{4}"', '[A-Za-z0-9]{3}."', "C20.R3")

# ---- R5: a gate that does not call the classifiers but tests the checksum8 / the shape of the request URI itself (value
# helper extracted into utils.py or pcap.py, lookup table, membership test): judged by the checksum8 values and the shape its
# path conditions admit (interval sets over [0, 255], case analysis over the table's own keys, the x64 pattern's parse tree)
ARCH_GATE = '        if response.request:\n            uri = response.request.uri.decode("ascii", errors="ignore")\n            arch = utils.stager_arch(uri)\n            if arch is None:\n                return None\n            logging.info("Found valid %s checksum8 request: %r", arch, response.request)\n'
RSU_DEF = "def random_stager_uri("
ARCH_EXACT = 'def stager_arch(uri):\n    if is_stager_x86(uri):\n        return "x86"\n    if is_stager_x64(uri):\n        return "x64"\n    return None\n\n\n'
ARCH_CHAIN = 'def stager_arch(uri):\n    value = checksum8(uri)\n    if value == 92:\n        return "x86"\n    elif value == 93 and re.fullmatch("/[A-Za-z0-9]{4}", uri):\n        return "x64"\n    return None\n\n\n'
ARCH_TABLE_SHAPE = (
    '_ARCH_BY_CHECKSUM = {92: "x86", 93: "x64"}\n\n\ndef stager_arch(uri):\n    arch = _ARCH_BY_CHECKSUM.get(checksum8(uri))\n'
    '    if arch == "x64" and not re.fullmatch("/[A-Za-z0-9]{4}", uri):\n        return None\n    return arch\n\n\n'
)
T("C20", "twin-gate-arch-helper-classifier-calls", P, "", "", edits=[(U, RSU_DEF, ARCH_EXACT + RSU_DEF), (P, GATE, ARCH_GATE)])
T("C20", "twin-gate-arch-helper-if-chain-with-shape", P, "", "", edits=[(U, RSU_DEF, ARCH_CHAIN + RSU_DEF), (P, GATE, ARCH_GATE)])
T("C20", "twin-gate-arch-helper-table-then-shape", P, "", "", edits=[(U, RSU_DEF, ARCH_TABLE_SHAPE + RSU_DEF), (P, GATE, ARCH_GATE)])
T("C20", "twin-gate-x86-only-checksum", P, GATE, '        if response.request and utils.checksum8(response.request.uri.decode("ascii", errors="ignore")) != 92:\n            return None\n')
T("C20", "twin-gate-arch-table-of-classifiers-undecided", P, "", "", edits=[
    (U, RSU_DEF, '_STAGER_TESTS = {"x86": is_stager_x86, "x64": is_stager_x64}\n\n\ndef stager_arch(uri):\n    return next((arch for arch, test in _STAGER_TESTS.items() if test(uri)), None)\n\n\n' + RSU_DEF), (P, GATE, ARCH_GATE)])
M("C20", "gate-arch-helper-if-chain-checksum-only", P, "", "", "C20.R5", edits=[(U, RSU_DEF, ARCH_CHAIN.replace(' and re.fullmatch("/[A-Za-z0-9]{4}", uri)', "") + RSU_DEF), (P, GATE, ARCH_GATE)])
M("C20", "gate-checksum-membership-inline", P, GATE, '        if response.request and utils.checksum8(response.request.uri.decode("ascii", errors="ignore")) not in (92, 93):\n            return None\n', "C20.R5")
M("C20", "gate-arch-table-in-pcap-truthiness", P, "", "", "C20.R5", edits=[
    (P, "class BeaconCapture", '_STAGER_ARCH = {92: "x86", 93: "x64"}\n\n\nclass BeaconCapture'),
    (P, GATE, '        if response.request:\n            uri = response.request.uri.decode("ascii", errors="ignore")\n            if not _STAGER_ARCH.get(utils.checksum8(uri), ""):\n                return None\n')])
M("C20", "gate-arch-helper-table-shape-for-wrong-arch", P, "", "", "C20.R5", edits=[(U, RSU_DEF, ARCH_TABLE_SHAPE.replace('arch == "x64" and not', 'arch == "x86" and not') + RSU_DEF), (P, GATE, ARCH_GATE)])
M("C20", "gate-arch-helper-table-extra-checksum", P, "", "", "C20.R5", edits=[(U, RSU_DEF, ARCH_TABLE_SHAPE.replace('93: "x64"}', '93: "x64", 94: "x64"}') + RSU_DEF), (P, GATE, ARCH_GATE)])
M("C20", "gate-checksum-range-test", P, GATE, '        if response.request:\n            value = utils.checksum8(response.request.uri.decode("ascii", errors="ignore"))\n            if value < 92 or value > 93:\n                return None\n', "C20.R5")

# ---- wave 8.  R6: a repository *generator function* between the data and the sequence builder (`for n in _nibbles(data)`):
# the generator's single for-loop is walked once and its yielded items take the place of the consumer's loop variable
# (`_generator_items`); a generator of another shape is a repository call the rule cannot summarise -> undecided (silent).
ENC_DEF = "def netbios_encode("
GEN_YIELDS = "def _nibbles(data):\n    for c in bytearray(data):\n        hi = c >> 4\n        yield hi\n        yield c % 16\n\n\n"
GEN_FROM = "def _nibbles(data):\n    for value in bytes(data):\n        yield from (value // 16, value & 15)\n\n\n"
GEN_WHILE = "def _nibbles(data):\n    data = bytes(data)\n    i = 0\n    while i < len(data):\n        yield data[i] >> 4\n        yield data[i] & 15\n        i += 1\n\n\n"
ENC_GEN_COMP = "    return bytes([n + offset for n in _nibbles(data)])\n"
ENC_GEN_LOOP = "    out = bytearray()\n    for n in _nibbles(data):\n        out.append(offset + n)\n    return bytes(out)\n"
T("C20", "twin-netbios-generator-comprehension", U, "", "", edits=[(U, ENC_DEF, GEN_YIELDS + ENC_DEF), (U, ENC_BODY, ENC_GEN_COMP)])
T("C20", "twin-netbios-generator-yield-from-loop", U, "", "", edits=[(U, ENC_DEF, GEN_FROM + ENC_DEF), (U, ENC_BODY, ENC_GEN_LOOP)])
T("C20", "twin-netbios-generator-while-undecided", U, "", "", edits=[(U, ENC_DEF, GEN_WHILE + ENC_DEF), (U, ENC_BODY, ENC_GEN_COMP)])
M("C20", "netbios-generator-low-nibble-first", U, "", "", "C20.R6", edits=[(U, ENC_DEF, GEN_YIELDS.replace("        yield hi\n        yield c % 16\n", "        yield c % 16\n        yield hi\n") + ENC_DEF), (U, ENC_BODY, ENC_GEN_COMP)])
M("C20", "netbios-generator-yield-from-shift-3", U, "", "", "C20.R6", edits=[(U, ENC_DEF, GEN_FROM.replace("value // 16", "value // 8") + ENC_DEF), (U, ENC_BODY, ENC_GEN_LOOP)])
M("C20", "netbios-generator-offset-once", U, "", "", "C20.R6", edits=[(U, ENC_DEF, GEN_YIELDS.replace("        yield hi\n", "        yield hi + 1\n") + ENC_DEF), (U, ENC_BODY, ENC_GEN_COMP)])
M("C20", "netbios-generator-reversed-data", U, "", "", "C20.R6", edits=[(U, ENC_DEF, GEN_FROM.replace("in bytes(data):", "in bytes(data)[::-1]:") + ENC_DEF), (U, ENC_BODY, ENC_GEN_LOOP)])

# ---- wave 8.  R3: the items checksum8 sums must be the code points of the characters; the bytes of an *encoding* of the text
# (`S.encode(..)`, `bytes(S, enc)`, a summing loop over them) are located and are not the code points for every str (L31).
# Under a path condition other than a length test (an ASCII fast path) nothing is claimed.
M("C20", "checksum-sums-latin1-bytes", U, C8_BODY, '    if len(text) < 4:\n        return 0\n    return sum(bytes(text.replace("/", ""), "latin-1", "ignore")) % 256\n', "C20.R3")
M("C20", "checksum-loop-over-utf16-bytes", U, C8_BODY, '    if len(text) < 4:\n        return 0\n    total = 0\n    for b in "".join(text.split("/")).encode("UTF_16_LE"):\n        total += b\n    return total & 0xFF\n', "C20.R3")
M("C20", "checksum-sums-utf8-bytearray-view", U, '    return sum(map(ord, text)) % 256\n', '    return sum(bytearray(text.encode("utf8"))) % 256\n', "C20.R3")
T("C20", "twin-checksum-ascii-fast-path", U, C8_BODY, '    if len(text) < 4:\n        return 0\n    text = text.replace("/", "")\n    if text.isascii():\n        return sum(text.encode()) % 256\n    return sum(map(ord, text)) % 256\n')
T("C20", "twin-checksum-unknown-codec-undecided", U, '    return sum(map(ord, text)) % 256\n', '    return sum(text.encode(_CODEC)) % 256\n')
