"""Extra corpus for C08 (escape / termination analysis facts added in the false-alarm and seeding rounds)."""
from selftest.corpus import M, T

_HDR_OLD = ("        data = fobj.read(4)\n        if not data or len(data) != 4:\n            break\n        if pos + 16 == utils.u32(data):\n"
            "            size = utils.u32(fobj.read(4))\n            xorkey = fobj.read(4)\n            hints = fobj.read(8)\n")
_IMPORT = ("artifact.py", "import logging\n", "import logging\nimport struct\n")
_CONST = ("artifact.py", "logger = logging.getLogger(__name__)\n", "logger = logging.getLogger(__name__)\nARTIFACT_HEADER = struct.Struct(\"<II4s8s\")\n")

M("C08", "struct-unpack-short-buffer", "artifact.py", "", "", "C08.R1", edits=[_IMPORT, _CONST, ("artifact.py", _HDR_OLD,
  "        data = fobj.read(ARTIFACT_HEADER.size)\n        if len(data) < 4:\n            break\n        if pos + 16 == utils.u32(data):\n"
  "            _, size, xorkey, hints = ARTIFACT_HEADER.unpack(data)\n")])
T("C08", "twin-struct-unpack-length-checked", "artifact.py", "", "", edits=[_IMPORT, _CONST, ("artifact.py", _HDR_OLD,
  "        data = fobj.read(ARTIFACT_HEADER.size)\n        if len(data) < 4:\n            break\n        if pos + 16 == utils.u32(data):\n"
  "            if len(data) != ARTIFACT_HEADER.size:\n                break\n            _, size, xorkey, hints = ARTIFACT_HEADER.unpack(data)\n")])
M("C08", "scan-raises-when-not-found", "pe.py", "                    return start_offset + offset\n        except EOFError:\n            continue\n    return None\n",
  "                    return start_offset + offset\n        except EOFError:\n            continue\n    raise LookupError(\"no MZ header\")\n", "C08.R")
