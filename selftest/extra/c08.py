"""Extra corpus for C08 (escape / termination analysis facts added in the false-alarm and seeding rounds)."""
from selftest.corpus import M, T

_HDR_OLD = ("        data = fobj.read(4)\n        if not data or len(data) != 4:\n            break\n        if pos + 16 == utils.u32(data):\n"
            "            size = utils.u32(fobj.read(4))\n            xorkey = fobj.read(4)\n            hints = fobj.read(8)\n")
_IMPORT = ("artifact.py", "import logging\n", "import logging\nimport struct\n")
_CONST = ("artifact.py", "logger = logging.getLogger(__name__)\n", "logger = logging.getLogger(__name__)\nARTIFACT_HEADER = struct.Struct(\"<II4s8s\")\n")

M("C08", "struct-unpack-short-buffer", "artifact.py", "", "", "C08.R1", edits=[_IMPORT, _CONST, ("artifact.py", _HDR_OLD,
  "        data = fobj.read(ARTIFACT_HEADER.size)\n        if len(data) < 4:\n            break\n        if pos + 16 == utils.u32(data):\n"
  "            _, size, xorkey, hints = ARTIFACT_HEADER.unpack(data)\n")])
T("C08", "twin-struct-unpack-length-checked", "artifact.py", "", "", edits=[_IMPORT, _CONST, ("artifact.py", _HDR_OLD,
  "        data = fobj.read(ARTIFACT_HEADER.size)\n        if len(data) < 4:\n            break\n        if pos + 16 == utils.u32(data):\n"
  "            if len(data) != ARTIFACT_HEADER.size:\n                break\n            _, size, xorkey, hints = ARTIFACT_HEADER.unpack(data)\n")])
M("C08", "scan-raises-when-not-found", "pe.py", "                    return start_offset + offset\n        except EOFError:\n            continue\n    return None\n",
  "                    return start_offset + offset\n        except EOFError:\n            continue\n    raise LookupError(\"no MZ header\")\n", "C08.R")

# try/except replaced by a generator-based context manager of the package (escape analysis weaves the with-body into the
# manager's `yield`)
_RN_OLD = ("        try:\n            self.fh.seek(-4, io.SEEK_CUR)\n            nonce = self.fh.read(4)\n        except OSError:\n"
           "            nonce = b\"\\x00\\x00\\x00\\x00\"\n")
_RN_NEW = ("        nonce = b\"\\x00\\x00\\x00\\x00\"\n        with _ignoring({EXC}):\n            self.fh.seek(-4, io.SEEK_CUR)\n            nonce = self.fh.read(4)\n")
_CM_IMPORT = ("xordecode.py", "import collections\n", "import collections\nimport contextlib\n")
_CM_DEF = ("xordecode.py", "class XorEncodedFile(io.RawIOBase):", "@contextlib.contextmanager\ndef _ignoring(exc):\n    try:\n        yield\n    except exc:\n        pass\n\n\nclass XorEncodedFile(io.RawIOBase):")
_CM_DEF_OS = ("xordecode.py", "class XorEncodedFile(io.RawIOBase):", "@contextlib.contextmanager\ndef _ignoring_oserror():\n    try:\n        yield\n    except OSError:\n        pass\n\n\nclass XorEncodedFile(io.RawIOBase):")
_CM_DEF_VE = ("xordecode.py", "class XorEncodedFile(io.RawIOBase):", "@contextlib.contextmanager\ndef _ignoring_oserror():\n    try:\n        yield\n    except ValueError:\n        pass\n\n\nclass XorEncodedFile(io.RawIOBase):")
T("C08", "twin-read-nonce-context-manager", "xordecode.py", "", "", edits=[_CM_IMPORT, _CM_DEF_OS, ("xordecode.py", _RN_OLD, _RN_NEW.replace("_ignoring({EXC})", "_ignoring_oserror()"))])
M("C08", "read-nonce-context-manager-wrong-class", "xordecode.py", "", "", "C08.R1", edits=[_CM_IMPORT, _CM_DEF_VE, ("xordecode.py", _RN_OLD, _RN_NEW.replace("_ignoring({EXC})", "_ignoring_oserror()"))])

# ---- round-5 refactorings / round-7 seeds (engine facts generalised; each twin has a mutant of the same kind)
# search loop through the raising twin of find(): ValueError leaves the loop, the next start is hit + 1
_IDX_OLD = ("        p = -1\n        while True:\n            p = d.find(needle, p + 1)\n            if p == -1 or max_offset and p > max_offset:\n                break\n"
            "            offset = pos + p - len(saved)\n            yield offset\n")
_IDX_NEW = ("        search_from = 0\n        while True:\n            try:\n                hit = d.index(needle, search_from)\n            except ValueError:\n                break\n"
            "            if max_offset and hit > max_offset:\n                break\n            yield pos + hit - len(saved)\n            search_from = hit + {STEP}\n")
T("C08", "twin-index-search-loop", "utils.py", _IDX_OLD, _IDX_NEW.replace("{STEP}", "1"))
M("C08", "index-search-loop-restarts-at-the-hit", "utils.py", _IDX_OLD, _IDX_NEW.replace("{STEP}", "0"), "C08.R2")
# conditional-expression spelling of the bytes -> BytesIO idiom
_BIO_OLD = "    if isinstance(fobj, bytes):\n        fobj = io.BytesIO(fobj)\n\n    while True:\n        # Peek index"
T("C08", "twin-bytesio-conditional-expression", "beacon.py", "", "", edits=[
    ("beacon.py", "    if isinstance(fobj, bytes):\n        fobj = io.BytesIO(fobj)\n", "    fobj = io.BytesIO(fobj) if isinstance(fobj, bytes) else fobj\n")])
# the validated-header facts: seek with an explicit SEEK_SET, terms of the offset sums reordered, annotated locals
T("C08", "twin-validated-header-explicit-whence", "pe.py", "", "", edits=[
    ("pe.py", "    fh.seek(mz_offset)\n    mz = pestruct.IMAGE_DOS_HEADER(fh)\n    fh.seek(mz.e_lfanew + mz_offset)\n    magic_pe = fh.read(4).rstrip(b\"\\x00\")\n",
     "    fh.seek(mz_offset, io.SEEK_SET)\n    mz = pestruct.IMAGE_DOS_HEADER(fh)\n    fh.seek(mz_offset + mz.e_lfanew, io.SEEK_SET)\n    magic_pe: bytes = fh.read(4).rstrip(b\"\\x00\")\n")])
M("C08", "validated-header-read-between-seek-and-parse", "pe.py", "", "", "C08.R1", edits=[
    ("pe.py", "    fh.seek(mz_offset)\n    mz = pestruct.IMAGE_DOS_HEADER(fh)\n    fh.seek(mz.e_lfanew + mz_offset)\n    magic_pe = fh.read(4).rstrip(b\"\\x00\")\n",
     "    fh.seek(mz_offset, io.SEEK_SET)\n    fh.read(2)\n    mz = pestruct.IMAGE_DOS_HEADER(fh)\n    fh.seek(mz_offset + mz.e_lfanew, io.SEEK_SET)\n    magic_pe = fh.read(4).rstrip(b\"\\x00\")\n")])
M("C08", "find-mz-offset-memoised-per-file-object", "pe.py", "", "", "C08.R1", edits=[
    ("pe.py", "import io\n", "import functools\nimport io\n"),
    ("pe.py", "def find_mz_offset(", "@functools.lru_cache(maxsize=32)\ndef find_mz_offset(")])
# single exit: the scan result lives in a local that is None unless a candidate was accepted
_SE_OLD = "                    return start_offset + offset\n        except EOFError:\n            continue\n    return None\n"
_SE_NEW = "                    found = start_offset + offset\n                    break\n        except EOFError:\n            pass\n    return found\n"
T("C08", "twin-scan-single-exit", "pe.py", "", "", edits=[
    ("pe.py", "    start_offset = start_offset if start_offset is not None else fh.tell()\n    for offset in range(maxrange):\n        fh.seek(start_offset + offset, io.SEEK_SET)\n        try:\n            mz = pestruct.IMAGE_DOS_HEADER(fh)\n            if mz.e_lfanew > 0 and mz.e_lfanew < maxrange:\n                fh.seek(start_offset + offset + 4 + mz.e_lfanew)\n                image = pestruct.IMAGE_FILE_HEADER(fh)\n                if image.Machine in (\n                    pestruct.IMAGE_FILE_MACHINE_AMD64,\n                    pestruct.IMAGE_FILE_MACHINE_I386,\n                ):\n" + _SE_OLD,
     "    start_offset = start_offset if start_offset is not None else fh.tell()\n    found = None\n    for offset in range(maxrange):\n        fh.seek(start_offset + offset, io.SEEK_SET)\n        try:\n            mz = pestruct.IMAGE_DOS_HEADER(fh)\n            if mz.e_lfanew > 0 and mz.e_lfanew < maxrange:\n                fh.seek(start_offset + offset + 4 + mz.e_lfanew)\n                image = pestruct.IMAGE_FILE_HEADER(fh)\n                if image.Machine in (\n                    pestruct.IMAGE_FILE_MACHINE_AMD64,\n                    pestruct.IMAGE_FILE_MACHINE_I386,\n                ):\n" + _SE_NEW)])
M("C08", "scan-single-exit-default-not-none", "pe.py", "", "", "C08.R3", edits=[
    ("pe.py", "    start_offset = start_offset if start_offset is not None else fh.tell()\n    for offset in range(maxrange):\n        fh.seek(start_offset + offset, io.SEEK_SET)\n        try:\n            mz = pestruct.IMAGE_DOS_HEADER(fh)\n            if mz.e_lfanew > 0 and mz.e_lfanew < maxrange:\n                fh.seek(start_offset + offset + 4 + mz.e_lfanew)\n                image = pestruct.IMAGE_FILE_HEADER(fh)\n                if image.Machine in (\n                    pestruct.IMAGE_FILE_MACHINE_AMD64,\n                    pestruct.IMAGE_FILE_MACHINE_I386,\n                ):\n" + _SE_OLD,
     "    start_offset = start_offset if start_offset is not None else fh.tell()\n    found = -1\n    for offset in range(maxrange):\n        fh.seek(start_offset + offset, io.SEEK_SET)\n        try:\n            mz = pestruct.IMAGE_DOS_HEADER(fh)\n            if mz.e_lfanew > 0 and mz.e_lfanew < maxrange:\n                fh.seek(start_offset + offset + 4 + mz.e_lfanew)\n                image = pestruct.IMAGE_FILE_HEADER(fh)\n                if image.Machine in (\n                    pestruct.IMAGE_FILE_MACHINE_AMD64,\n                    pestruct.IMAGE_FILE_MACHINE_I386,\n                ):\n" + _SE_NEW)])
# Counter(...).items() ranked with sorted() instead of most_common(); chain() instead of list concatenation
T("C08", "twin-ranked-candidates-sorted-items", "xordecode.py", "", "", edits=[
    ("xordecode.py", "import collections\n", "import collections\nimport itertools\nimport operator\n"),
    ("xordecode.py", "collections.Counter(eof_shellcode_offsets + nonce_offsets).most_common()", "sorted(collections.Counter(itertools.chain(eof_shellcode_offsets, nonce_offsets)).items(), key=operator.itemgetter(1), reverse=True)")])
M("C08", "ranked-candidates-shifted-negative", "xordecode.py", "", "", "C08.R1", edits=[
    ("xordecode.py", "import collections\n", "import collections\nimport itertools\nimport operator\n"),
    ("xordecode.py", "collections.Counter(eof_shellcode_offsets + nonce_offsets).most_common()", "sorted(collections.Counter(itertools.chain(eof_shellcode_offsets, [o - 8 for o in nonce_offsets])).items(), key=operator.itemgetter(1), reverse=True)")])
# parse_qs instead of parse_qsl: the last value of every key (values are non-empty lists)
T("C08", "twin-parse-qs-last-value", "c2.py", "", "", edits=[
    ("c2.py", "from urllib.parse import parse_qsl, urlsplit\n", "from urllib.parse import parse_qs, urlsplit\n"),
    ("c2.py", "    query = parse_qsl(result.query.decode(\"ascii\"), encoding=\"latin-1\")\n    params = {key.encode(\"latin-1\"): value.encode(\"latin-1\") for key, value in query}\n",
     "    query = parse_qs(result.query.decode(\"ascii\"), encoding=\"latin-1\")\n    params = {k.encode(\"latin-1\"): vs[-1].encode(\"latin-1\") for k, vs in query.items()}\n")])
M("C08", "parse-qs-second-value", "c2.py", "", "", "C08.R1", edits=[
    ("c2.py", "from urllib.parse import parse_qsl, urlsplit\n", "from urllib.parse import parse_qs, urlsplit\n"),
    ("c2.py", "    query = parse_qsl(result.query.decode(\"ascii\"), encoding=\"latin-1\")\n    params = {key.encode(\"latin-1\"): value.encode(\"latin-1\") for key, value in query}\n",
     "    query = parse_qs(result.query.decode(\"ascii\"), encoding=\"latin-1\")\n    params = {k.encode(\"latin-1\"): vs[1].encode(\"latin-1\") for k, vs in query.items()}\n")])

# a field of the validated DOS header decoded by hand at its offset (benign/C18j kind)
_HR_OLD = "    magic_pe = None\n    fh.seek(mz_offset)\n    mz = pestruct.IMAGE_DOS_HEADER(fh)\n    fh.seek(mz.e_lfanew + mz_offset)\n    magic_pe = fh.read(4).rstrip(b\"\\x00\")\n    return magic_pe\n"
_HR_NEW = "    fh.seek(mz_offset + {OFF})\n    e_lfanew = int.from_bytes(fh.read({K}), \"{ORDER}\", signed=True)\n    fh.seek(e_lfanew + mz_offset)\n    return fh.read(4).rstrip(b\"\\x00\")\n"
_HR_CONST = ("pe.py", "logger = logging.getLogger(__name__)\n", "logger = logging.getLogger(__name__)\nLFANEW_AT = len(pestruct.IMAGE_DOS_HEADER) - 4\n")
T("C08", "twin-lfanew-decoded-by-hand", "pe.py", "", "", edits=[_HR_CONST, ("pe.py", _HR_OLD, _HR_NEW.replace("{OFF}", "LFANEW_AT").replace("{K}", "4").replace("{ORDER}", "little"))])
T("C08", "twin-lfanew-decoded-by-hand-literal-offset", "pe.py", "", "", edits=[("pe.py", _HR_OLD, _HR_NEW.replace("{OFF}", "0x3C").replace("{K}", "4").replace("{ORDER}", "little"))])
M("C08", "lfanew-by-hand-wrong-offset", "pe.py", "", "", "C08.R1", edits=[("pe.py", _HR_OLD, _HR_NEW.replace("{OFF}", "0x38").replace("{K}", "4").replace("{ORDER}", "little"))])
M("C08", "lfanew-by-hand-wrong-byte-order", "pe.py", "", "", "C08.R1", edits=[("pe.py", _HR_OLD, _HR_NEW.replace("{OFF}", "0x3C").replace("{K}", "4").replace("{ORDER}", "big"))])
M("C08", "lfanew-by-hand-two-bytes", "pe.py", "", "", "C08.R1", edits=[("pe.py", _HR_OLD, _HR_NEW.replace("{OFF}", "0x3C").replace("{K}", "2").replace("{ORDER}", "little"))])
