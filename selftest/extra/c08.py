"""Extra corpus for C08 (escape / termination analysis facts added in the false-alarm and seeding rounds)."""
from selftest.corpus import M, T

_HDR_OLD = ("        data = fobj.read(4)\n        if not data or len(data) != 4:\n            break\n        if pos + 16 == utils.u32(data):\n"
            "            size = utils.u32(fobj.read(4))\n            xorkey = fobj.read(4)\n            hints = fobj.read(8)\n")
_IMPORT = ("artifact.py", "import logging\n", "import logging\nimport struct\n")
_CONST = ("artifact.py", "logger = logging.getLogger(__name__)\n", "logger = logging.getLogger(__name__)\nARTIFACT_HEADER = struct.Struct(\"<II4s8s\")\n")

M("C08", "struct-unpack-short-buffer", "artifact.py", "", "", "C08.R1", edits=[_IMPORT, _CONST, ("artifact.py", _HDR_OLD,
  "        data = fobj.read(ARTIFACT_HEADER.size)\n        if len(data) < 4:\n            break\n        if pos + 16 == utils.u32(data):\n"
  "            _, size, xorkey, hints = ARTIFACT_HEADER.unpack(data)\n")])
T("C08", "twin-struct-unpack-length-checked", "artifact.py", "", "", edits=[_IMPORT, _CONST, ("artifact.py", _HDR_OLD,
  "        data = fobj.read(ARTIFACT_HEADER.size)\n        if len(data) < 4:\n            break\n        if pos + 16 == utils.u32(data):\n"
  "            if len(data) != ARTIFACT_HEADER.size:\n                break\n            _, size, xorkey, hints = ARTIFACT_HEADER.unpack(data)\n")])
M("C08", "scan-raises-when-not-found", "pe.py", "                    return start_offset + offset\n        except EOFError:\n            continue\n    return None\n",
  "                    return start_offset + offset\n        except EOFError:\n            continue\n    raise LookupError(\"no MZ header\")\n", "C08.R")

# try/except replaced by a generator-based context manager of the package (escape analysis weaves the with-body into the
# manager's `yield`)
_RN_OLD = ("        try:\n            self.fh.seek(-4, io.SEEK_CUR)\n            nonce = self.fh.read(4)\n        except OSError:\n"
           "            nonce = b\"\\x00\\x00\\x00\\x00\"\n")
_RN_NEW = ("        nonce = b\"\\x00\\x00\\x00\\x00\"\n        with _ignoring({EXC}):\n            self.fh.seek(-4, io.SEEK_CUR)\n            nonce = self.fh.read(4)\n")
_CM_IMPORT = ("xordecode.py", "import collections\n", "import collections\nimport contextlib\n")
_CM_DEF = ("xordecode.py", "class XorEncodedFile(io.RawIOBase):", "@contextlib.contextmanager\ndef _ignoring(exc):\n    try:\n        yield\n    except exc:\n        pass\n\n\nclass XorEncodedFile(io.RawIOBase):")
_CM_DEF_OS = ("xordecode.py", "class XorEncodedFile(io.RawIOBase):", "@contextlib.contextmanager\ndef _ignoring_oserror():\n    try:\n        yield\n    except OSError:\n        pass\n\n\nclass XorEncodedFile(io.RawIOBase):")
_CM_DEF_VE = ("xordecode.py", "class XorEncodedFile(io.RawIOBase):", "@contextlib.contextmanager\ndef _ignoring_oserror():\n    try:\n        yield\n    except ValueError:\n        pass\n\n\nclass XorEncodedFile(io.RawIOBase):")
T("C08", "twin-read-nonce-context-manager", "xordecode.py", "", "", edits=[_CM_IMPORT, _CM_DEF_OS, ("xordecode.py", _RN_OLD, _RN_NEW.replace("_ignoring({EXC})", "_ignoring_oserror()"))])
M("C08", "read-nonce-context-manager-wrong-class", "xordecode.py", "", "", "C08.R1", edits=[_CM_IMPORT, _CM_DEF_VE, ("xordecode.py", _RN_OLD, _RN_NEW.replace("_ignoring({EXC})", "_ignoring_oserror()"))])
